"""Runtime-primitive contract part of C01 (serves C05, C12):  run_part(ck, quick) -> list of (what, replay_obj).

P: coq/theories/Props/C01_prims.v over Prims/{Spec,Vm,Wasm}.v: the abstract contract of runtime/primitives.rs (heap objects with
   reference counts, arrays, state storage + cursor, with explicit error outcomes) and literal transcriptions of the two
   implementations (vm/primitives.rs + the interpreter's instructions + vm/heap.rs + slotmap; the host functions of wasm.rs);
   simulation theorems: for EVERY operation sequence that satisfies the stated hypotheses (extracted predicates vm_pre / wasm_pre)
   each implementation's results are the specification's results through the handle tables, hence the two agree; outside the
   hypotheses: *_differs lemmas with witnesses.  usersum_clone / usersum_release (Prims/Usersum.v: the VM's type-directed walks
   with cascading release, the WASM host's no-ops) are transcribed and compared, not part of the theorems' operation language.
C: extracted models (ocaml/prims_drv.ml) vs the REAL implementations (harness/lang/src/bin/prims_run.rs: a Machine driven through
   the trait RuntimePrimitives and through the interpreter's instructions; a WasmEngine whose module re-exports the host functions)
   on generated operation sequences: every result, the final state words and cursor, raw handles included.
S: the property itself on the implementations' own answers: wherever the hypotheses hold along the specification's run (the
   extracted predicates decide), the real VM's and the real WASM host's results must be related to the specification's results
   through the handles they returned themselves; where a hypothesis fails and the real answer differs, the difference is counted
   by class (these are the documented differences between the backends; the witnesses of the *_differs lemmas are replayed first).
"""
import os, struct, subprocess, sys, time
sys.path.insert(0, os.path.join(os.path.dirname(os.path.dirname(os.path.abspath(__file__))), "lib"))   # standalone runs
import vplib
from vplib import VERIF

OCAML = [("prims_drv", ["prims_model"], "ocaml/prims_drv.ml")]
HARNESS = [("lang", ["prims_run"], True)]
COQ_TARGETS = ["theories/Props/C01_prims.vo", "theories/Extract/PrimsExtract.vo"]
PROPS = "C01_prims"
BATCH_TIMEOUT_S = 300
SR = "40e5888000000000"          # 44100.0: RuntimeState::default(), not settable through the public API
MAX_WASM_DELAY = 16 * 1024 * 1024


def fhex(x):
    return "%x" % struct.unpack(">Q", struct.pack(">d", x))[0]


NAN, PINF, NINF = "7ff8000000000000", "7ff0000000000000", "fff0000000000000"
ODD_FLOATS = [NAN, PINF, NINF, "8000000000000000", "1", "fff8000000000001", fhex(0.5), fhex(-0.5), fhex(1.5), fhex(-1.0),
              fhex(2.999), fhex(1e9), fhex(1e19), fhex(-1e19), fhex(9.3e18), fhex(4294967296.0), fhex(1e300), "7ff0000000000001"]


# ------------------------------------------------------------------------------------------------
# generator: a light abstract state keeps the sequences mostly valid
# ------------------------------------------------------------------------------------------------
class Gen:
    def __init__(self, rng, style):
        self.r = rng
        self.style = style
        self.S = rng.choice([0, 1, 2, 4, 8, 8, 12, 16, 24, 40]) if style != "heap" else rng.choice([0, 2])
        self.now = rng.choice([0, 0, 1, 7, 44100, 123456789, 2 ** 40 + 3])
        self.heap = []      # per ordinal: [size, refcount]  (refcount 0 = freed)
        self.arrs = []      # per ordinal: [esz, n]
        self.pos = 0
        self.pushed = []
        self.ops = []
        self.nostate = False    # set after a huge cursor move: a later access would make the WASM host allocate terabytes
        self.bad = style in ("malformed", "wasmbad")
        self.wasm_only = style == "wasmbad"

    def word(self):
        r = self.r
        c = r.below(8)
        if c == 0:
            return r.choice(ODD_FLOATS)
        if c == 1:
            return "%x" % r.below(2 ** 64)
        if c == 2:
            return "%x" % r.below(16)
        return fhex(float(r.range(-20, 200)) / r.choice([1, 1, 2, 4]))

    def val(self):
        r = self.r
        if self.heap and r.chance(1, 5):
            return "h%d" % r.below(len(self.heap))
        if self.arrs and r.chance(1, 8):
            return "a%d" % r.below(len(self.arrs))
        if self.bad and r.chance(1, 10):
            return r.choice(["h%d" % (len(self.heap) + r.below(3)), "a%d" % (len(self.arrs) + r.below(3))])   # stored, never dereferenced
        return "n" + self.word()

    def vals(self, n):
        return ",".join(self.val() for _ in range(n))

    def live(self):
        return [k for k, o in enumerate(self.heap) if o[1] > 0]

    def hhandle(self):
        """a heap handle argument: mostly live, sometimes released, in the malformed stream also foreign"""
        r = self.r
        if self.wasm_only and r.chance(1, 3):
            # WASM host only: words that are no handle at all (zero, even version fields, ordinals not returned yet, numbers)
            return r.choice(["n0", "n0", "n2", "n100000000", "n100000002", "n200000000", "n" + self.word(), "n%x" % r.below(2 ** 34),
                             "h%d" % (len(self.heap) + r.below(3)), "a%d" % r.below(3)])
        if self.bad and r.chance(1, 4):
            # forged handles keep an ODD version field (the low 32 bits): slotmap reads a VACANT slot as if it were occupied
            # when a key carries that slot's even version (undefined behaviour: the harness must not provoke it, and an
            # ordinal that has not been returned yet resolves to 0 = key (0, 0) = the vacant sentinel slot)
            return r.choice(["n1", "n100000001", "n200000001", "n100000003", "n300000005", "n%x" % (r.below(2 ** 64) | 1), "a0" if self.arrs else "n1"])
        lv = self.live()
        if lv and not r.chance(1, 6):
            return "h%d" % r.choice(lv)
        if self.heap:
            return "h%d" % r.below(len(self.heap))
        return "n1"

    def ahandle(self):
        r = self.r
        if self.bad and r.chance(1, 4):
            return r.choice(["n0", "n0", "n1", "n2", "n100000001", "n" + self.word(), "a%d" % (len(self.arrs) + r.below(2)),
                             "h0", "h%d" % max(0, len(self.heap) - 1)])
        if self.arrs:
            return "a%d" % r.below(len(self.arrs))
        return "a0"

    def index(self, n):
        r = self.r
        c = r.below(10)
        if c < 5 and n > 0:
            return fhex(float(r.below(n)))
        if c == 5:
            return fhex(float(n) + r.choice([-1.0, 0.0, 0.5, 1.0, 7.0]))
        if c == 6:
            return fhex(r.below(max(1, n)) + r.choice([0.25, 0.5, 0.999]))
        if c == 7:
            return r.choice(ODD_FLOATS)
        if c == 8:
            return fhex(-float(r.below(5)))
        return fhex(float(r.below(2 * n + 3)))

    # -- one operation ---------------------------------------------------------------------------
    def heap_op(self):
        r = self.r
        c = r.below(12)
        if c < 2 or not self.heap:
            if r.chance(1, 2):
                size = r.choice([0, 1, 1, 2, 3, 5])
                self.ops.append("HA:%d" % size)
            else:
                size = r.choice([0, 1, 1, 2, 2, 3, 6])
                self.ops.append("BA:" + self.vals(size))
            self.heap.append([size, 1])
            return
        h = self.hhandle()
        k = int(h[1:]) if h[0] == "h" and int(h[1:]) < len(self.heap) else None
        ob = self.heap[k] if k is not None else None
        if c < 4:
            self.ops.append("RT:" + h)
            if ob and ob[1] > 0:
                ob[1] += 1
        elif c < 7:
            self.ops.append("RL:" + h)
            if ob and ob[1] > 0:
                ob[1] -= 1
        elif c < 10:
            size = ob[0] if ob else 1
            if r.chance(1, 6):
                size = max(0, size + r.choice([-1, 1, 2]))
            elif size and r.chance(1, 3):
                size = r.below(size + 1)
            self.ops.append("LD:%s:%d" % (h, size))
        else:
            size = ob[0] if ob else 1
            if r.chance(1, 8):
                size += r.choice([1, 3])
            elif size and r.chance(1, 2):
                size = r.below(size + 1)
            self.ops.append("ST:%s:%s" % (h, self.vals(size)))

    def state_op(self):
        r = self.r
        c = r.below(14)
        room = max(0, self.S - self.pos)
        risky = self.bad or r.chance(1, 25)
        if self.nostate:
            return self.heap_op()
        if c < 2:
            k = r.below(room + 1) if room > 0 and not risky else r.choice([0, 1, 2, 5, self.S + 1, 1000])
            if self.bad and r.chance(1, 8):
                k = r.choice([-1, -3, 2 ** 24 - 1, 2 ** 24, 2 ** 24 + 5, 2 ** 40])
            if k > 5000:
                self.nostate = True
            self.ops.append("PU:%d" % k)
            if 0 <= k:
                self.pos += k
                self.pushed.append(k)
        elif c < 4:
            if self.pushed and not risky:
                k = self.pushed.pop()
            else:
                k = r.choice([0, 1, 2, self.pos, self.pos + 1, 7])
                if self.bad and r.chance(1, 8):
                    k = r.choice([-1, -2, 2 ** 24])
                    if k < 0:
                        self.nostate = True      # a negative pop moves the WASM cursor forward
            self.ops.append("PO:%d" % k)
            if 0 <= k <= self.pos:
                self.pos -= k
        elif c < 6:
            size = r.below(max(1, room) + 1) if not risky else r.choice([0, 1, room + 1, room + 3, 40])
            self.ops.append("SG:%d" % size)
        elif c < 8:
            size = r.below(max(1, min(room, 6)) + 1) if not risky else r.choice([0, 1, room + 1, room + 2])
            self.ops.append("SS:" + ",".join(self.word() for _ in range(size)))
        elif c < 10:
            self.ops.append("SM:" + self.word())
        else:
            n = max(0, room - 2)
            if n > 0 and not risky:
                n = r.range(1, n)
            elif risky:
                n = r.choice([0, 0, 1, n + 1, n + 5, 300, MAX_WASM_DELAY + 1, 2 ** 31, 2 ** 60])
            t = r.choice([fhex(float(r.below(n + 2))), fhex(float(r.below(n + 2))), fhex(r.below(n + 2) + 0.5), r.choice(ODD_FLOATS)])
            self.ops.append("SD:%s:%s:%d" % (self.word(), t, n))

    def array_op(self):
        r = self.r
        c = r.below(12)
        if c < 3 or not self.arrs:
            esz = r.choice([1, 1, 1, 2, 2, 3])
            n = r.choice([0, 1, 2, 3, 3, 5, 9])
            cnt = n * esz
            if self.bad and r.chance(1, 5):
                esz = r.choice([0, esz])
                cnt = cnt + r.choice([0, 1])
            self.ops.append("AN:%d:%s" % (esz, self.vals(cnt)))
            if esz > 0 and cnt % esz == 0:
                self.arrs.append([esz, cnt // esz])
            return
        a = self.ahandle()
        k = int(a[1:]) if a[0] == "a" and int(a[1:]) < len(self.arrs) else None
        ar = self.arrs[k] if k is not None else [1, 1]
        esz = ar[0]
        if self.bad and r.chance(1, 5):
            esz = r.choice([0, 1, 2, esz + 1])
        if c < 8:
            self.ops.append("AG:%s:%s:%d" % (a, self.index(ar[1]), esz))
        elif c < 10:
            n = esz if not (self.bad and r.chance(1, 6)) else esz + r.choice([-1, 1]) if esz else 1
            self.ops.append("AS:%s:%s:%s:%d" % (a, self.index(ar[1]), self.vals(max(0, n)), esz))
        else:
            self.ops.append("AL:" + a)

    def trait_op(self):
        """VM only: the trait methods array_get_elem / array_set_elem of vm/primitives.rs (no clamping)"""
        r = self.r
        if not self.arrs or r.chance(1, 4):
            esz = r.choice([1, 1, 2, 3])
            n = r.choice([0, 1, 2, 4])
            self.ops.append("AN:%d:%s" % (esz, self.vals(n * esz)))
            self.arrs.append([esz, n])
            return
        k = r.below(len(self.arrs))
        esz, n = self.arrs[k]
        a = "a%d" % k if not r.chance(1, 10) else r.choice(["n0", "n1", "a%d" % len(self.arrs)])
        e2 = esz if not r.chance(1, 6) else r.choice([0, 1, 2, esz + 1])
        c = r.below(4)
        if c < 2:
            self.ops.append("TG:%s:%s:%d" % (a, self.index(n), e2))
        elif c == 2:
            cnt = e2 if not r.chance(1, 6) else max(0, e2 + r.choice([-1, 1]))
            self.ops.append("TS:%s:%s:%s:%d" % (a, self.index(n), self.vals(cnt), e2))
        else:
            self.ops.append("AG:%s:%s:%d" % ("a%d" % k, self.index(n), esz))

    def run(self, nops):
        r = self.r
        for _ in range(nops):
            st = self.style
            if st == "trait":
                self.trait_op()
                continue
            if st in ("mixed", "malformed"):
                st = r.choice(["heap", "state", "array"])
            if st == "wasmbad":
                st = r.choice(["heap", "heap", "heap", "array"])
            if st == "heap":
                self.heap_op()
            elif st == "state":
                self.state_op()
            else:
                self.array_op()
            if r.chance(1, 30):
                self.ops.append(r.choice(["NW", "SR"]))
        # probes of the final stores: every heap object, every array, the state words
        for k, o in enumerate(self.heap):
            if o[1] > 0 and r.chance(3, 4):
                self.ops.append("LD:h%d:%d" % (k, o[0]))
        if self.style != "trait":
            for k, a in enumerate(self.arrs):
                if r.chance(3, 4):
                    self.ops.append("AL:a%d" % k)
                    for i in range(a[1]):
                        self.ops.append("AG:a%d:%s:%d" % (k, fhex(float(i)), a[0]))
        mode = "I" if r.chance(1, 2) else "T"
        return "S=%d;N=%d;R=%s;M=%s;%s%s" % (self.S, self.now, SR, mode, "O=W;" if self.wasm_only else "", ";".join(self.ops))


# ------------------------------------------------------------------------------------------------
# usersum_clone / usersum_release: typed values over boxed objects (VM: a type-directed walk; WASM host: nothing)
# types: ('N',k) ('B',t) ('A',name) ('S',name,[variant or None]) ('T',[t])
# ------------------------------------------------------------------------------------------------
def ty_show(t):
    k = t[0]
    if k == "N":
        return "N%d" % t[1]
    if k == "A":
        return "A%d" % t[1]
    if k == "B":
        return "B(%s)" % ty_show(t[1])
    if k == "S":
        return "S%d(%s)" % (t[1], "/".join("-" if v is None else ty_show(v) for v in t[2]))
    return "T(%s)" % "/".join(ty_show(x) for x in t[1])


def ty_size(t):
    k = t[0]
    if k == "N":
        return t[1]
    if k in "AB":
        return 1
    if k == "S":
        return 1 + max([ty_size(v) for v in t[2] if v is not None] or [0])
    return sum(ty_size(x) for x in t[1])


LIST = ("S", 1, [None, ("T", [("N", 1), ("A", 1)])])                       # type rec List = Nil | Cons(float, List)
TREE = ("S", 2, [("T", [("A", 2), ("N", 1), ("A", 2)]), None])            # type rec Tree = Node(Tree, float, Tree) | Leaf
PAIR = ("T", [("N", 1), ("B", ("N", 2)), ("B", ("T", [("N", 1), ("B", ("N", 1))]))])
OPT = ("S", 3, [("B", ("N", 1)), None, ("T", [("B", ("N", 1)), ("N", 2), ("B", ("N", 1))])])
WRAP = ("T", [LIST, ("B", ("N", 1)), TREE])
TABLES = [[LIST], [TREE, LIST], [PAIR, OPT], [LIST, PAIR, OPT, TREE, WRAP]]


class UGen:
    def __init__(self, rng):
        self.r = rng
        self.tt = rng.choice(TABLES)
        self.ops = []
        self.nheap = 0
        self.pool = {}      # type text -> handles of objects holding a value of that type

    def sum_named(self, name):
        for t in self.tt + [LIST, TREE]:
            if t[0] == "S" and t[1] == name:
                return t
        return LIST

    def box(self, inner, depth):
        r = self.r
        key = ty_show(inner)
        if self.pool.get(key) and r.chance(1, 4):
            return "h%d" % r.choice(self.pool[key])        # sharing: two references to one object
        data = self.build(inner, depth + 1)
        self.ops.append("BA:" + ",".join(data))
        self.pool.setdefault(key, []).append(self.nheap)
        self.nheap += 1
        return "h%d" % (self.nheap - 1)

    def build(self, t, depth=0):
        """a value of type t (list of val tokens); the boxes it needs are allocated first"""
        r = self.r
        k = t[0]
        if k == "N":
            return ["n" + fhex(float(r.range(-9, 99))) for _ in range(t[1])]
        if k == "B":
            return [self.box(t[1], depth)]
        if k == "A":
            return [self.box(self.sum_named(t[1]), depth)]
        if k == "T":
            out = []
            for x in t[1]:
                out += self.build(x, depth)
            return out
        # sum: [tag] payload, padded to the size of the largest variant
        nv = len(t[2])
        leafs = [i for i, v in enumerate(t[2]) if v is None]
        if depth >= 3 and leafs:
            tag = r.choice(leafs)
        else:
            tag = r.below(nv)
        if r.chance(1, 25):
            tag = nv + r.below(3)                           # a tag no variant has: the walks return at once
        pay = self.build(t[2][tag], depth) if tag < nv and t[2][tag] is not None else []
        pad = ty_size(t) - 1 - len(pay)
        return ["n%x" % tag] + pay + ["n0"] * pad

    def run(self, nops):
        r = self.r
        vals = []
        for _ in range(r.range(1, 3)):
            ti = r.below(len(self.tt))
            vals.append((ti, self.build(self.tt[ti])))
        for _ in range(nops):
            ti, v = r.choice(vals)
            c = r.below(10)
            if c < 4:
                self.ops.append("UC:%s:%d" % (",".join(v), ti))
            elif c < 8:
                self.ops.append("UR:%s:%d" % (",".join(v), ti))
            elif c == 8 and self.nheap:
                self.ops.append(r.choice(["RT", "RL"]) + ":h%d" % r.below(self.nheap))
            else:
                ti = r.below(len(self.tt) + (1 if r.chance(1, 6) else 0))       # sometimes a type number outside the table
                if ti < len(self.tt):
                    vals.append((ti, self.build(self.tt[ti])))
                else:
                    self.ops.append("UC:n0:%d" % ti)
        for k in range(self.nheap):                          # the reference counts afterwards (RT answers the count or `i`)
            self.ops.append("RT:h%d" % k)
        mode = "I" if r.chance(1, 2) else "T"
        return "S=0;N=0;R=%s;M=%s;Y=%s;%s" % (SR, mode, "~".join(ty_show(t) for t in self.tt), ";".join(self.ops))


STYLES = ["heap", "state", "state", "array", "array", "mixed", "mixed", "malformed", "malformed", "trait", "usersum", "wasmbad"]


def gen_case(rng):
    style = rng.choice(STYLES)
    if style == "usersum":
        return UGen(rng).run(rng.choice([2, 4, 8, 14]))
    return Gen(rng, style).run(rng.choice([3, 6, 10, 16, 24, 40]))


# ------------------------------------------------------------------------------------------------
# witnesses of the differences (the *_differs lemmas of Props/C01_prims.v) and of REPAIRED differences (regression inputs: the
# recorded answers are the repaired ones), replayed first on every run:
# (name, sequence, expected real VM answers, expected real WASM answers)
# ------------------------------------------------------------------------------------------------
HDR = "S=4;N=0;R=%s;M=I;" % SR
FIXED = [
    ("state cursor underflow: VM panics, WASM saturates (differs_state_underflow)", HDR + "PO:1;SM:" + fhex(1.0),
     "Fu", "u;w0"),
    ("state access past the storage: VM undefined behaviour, WASM grows (differs_state_out_of_range)", HDR + "PU:4;SM:" + fhex(1.0),
     "u;Fr", "u;w0"),
    ("delay longer than MAX_WASM_DELAY_SAMPLES: WASM returns 0.0 and keeps no history (differs_delay_cap)",
     "S=4;N=0;R=%s;M=I;SD:%s:0:%d;SD:%s:0:%d" % (SR, fhex(5.0), MAX_WASM_DELAY + 1, fhex(6.0), MAX_WASM_DELAY + 1), "Fr", "w0;w0"),
    ("REPAIRED (commit 15d0817, finding P2): array index +infinity selected element 0 on the VM and the last on WASM; now both "
     "take the last element, -infinity and NaN the first (C01_prims_ex_index_infinity_agrees)",
     HDR + "AN:1:n%s,n%s,n%s;AG:a0:%s:1;AG:a0:%s:1;AG:a0:%s:1" % (fhex(10.0), fhex(20.0), fhex(30.0), PINF, NINF, NAN),
     "h100000001;w%s;w%s;w%s" % (fhex(30.0), fhex(10.0), fhex(10.0)), "h1;w%s;w%s;w%s" % (fhex(30.0), fhex(10.0), fhex(10.0))),
    ("len of an array of two-word elements: VM counts elements, WASM words (differs_len_words)",
     HDR + "AN:2:n1,n2,n3,n4;AL:a0", "h100000001;w" + fhex(2.0), "h1;w" + fhex(4.0)),
    ("array handle 0 (array-valued self before its first value): VM panics, WASM reads zeros (differs_zero_handle)",
     HDR + "AG:n0:0:1", "Fh", "w0"),
    ("runtime_get_now / samplerate through the VM trait are constants (differs_now)", "S=0;N=7;R=%s;M=T;NW;SR" % SR,
     "w0;w40e7700000000000", "w%s;w%s" % (fhex(7.0), SR)),
    ("REPAIRED (finding P5): a word that is no heap handle on the WASM host (zero, no such slot, released and re-used slot) is "
     "an invalid handle; before the repair the zero word read slotmap's vacant sentinel slot: SIGSEGV "
     "(C01_prims_ex_wasm_bad_heap_word_invalid)",
     "S=0;N=0;R=%s;M=T;O=W;HA:1;RL:h0;HA:1;RT:n0;RL:n2;RT:n100000001;LD:n0:1" % SR,
     "", "h100000001;c0;h300000001;i;i;i;Fh"),
    ("usersum_clone retains the boxes inside a value on the VM, does nothing on the WASM host (usersum_differs)",
     "S=0;N=0;R=%s;M=I;Y=S1(-/T(N1/A1));BA:n0;UC:n1,n3ff0000000000000,h0:0;RL:h0;LD:h0:1" % SR,
     "h100000001;u;c1;w0", "h100000001;u;c0;Fh"),
]


def corpus_sequences():
    d = os.path.join(VERIF, "corpus", "prims")
    out = []
    if os.path.isdir(d):
        for fn in sorted(os.listdir(d)):
            if fn.endswith(".seq"):
                for l in open(os.path.join(d, fn)):
                    l = l.split("#")[0].strip()
                    if l:
                        out.append(l)
    return out


# ------------------------------------------------------------------------------------------------
# running both sides
# ------------------------------------------------------------------------------------------------
def parse_answer(line):
    """'#id k=v|k=v...' -> dict (values: list for result fields)"""
    body = line.split(" ", 1)[1] if " " in line else ""
    if body.startswith("!"):
        return {"error": body}
    d = {}
    for part in body.split("|"):
        k, _, v = part.partition("=")
        d[k] = v
    for k in ("spec", "vm", "wasm"):
        if k in d:
            d[k] = d[k].split(";") if d[k] != "" else []
    return d


def run_model(exe, lines):
    rc, out, _ = vplib.sh([exe], input="\n".join(lines) + "\n", timeout=BATCH_TIMEOUT_S * 2)
    res = [l for l in out.split("\n") if l.startswith("#")]
    if rc != 0 or len(res) != len(lines):
        raise RuntimeError("prims model driver failed rc=%s answers=%d/%d: %s" % (rc, len(res), len(lines), out[-400:]))
    return [parse_answer(l) for l in res]


def run_impl(exe, lines):
    """supervised: one answer dict per line; a dead process gives {'crash': ..} for the case it died on"""
    answers = []
    i = 0
    while i < len(lines):
        chunk = lines[i:]
        try:
            p = subprocess.run([exe], input=("\n".join(chunk) + "\n").encode(), stdout=subprocess.PIPE, stderr=subprocess.PIPE,
                               timeout=BATCH_TIMEOUT_S if len(chunk) > 1 else 30, env={**os.environ, "RUST_LOG": "off"})
            rc, out, err = p.returncode, p.stdout.decode(errors="replace"), p.stderr.decode(errors="replace")
        except subprocess.TimeoutExpired as ex:
            rc, out, err = 124, (ex.stdout or b"").decode(errors="replace"), "timeout"
        got = [l for l in out.split("\n") if l.startswith("#") and "|vmlen=" in l or l.startswith("#") and " !" in l]
        for l in got:
            answers.append(parse_answer(l))
        i += len(got)
        if i >= len(lines):
            break
        if rc == 0:
            raise RuntimeError("prims_run ended early without an error: " + out[-300:] + err[-300:])
        answers.append({"crash": "timeout" if rc == 124 else "process died rc=%s: %s" % (rc, err.strip()[-200:])})
        i += 1
    return answers


# ------------------------------------------------------------------------------------------------
# the property on the implementation's own answers
# ------------------------------------------------------------------------------------------------
def op_list(line):
    return [p for p in line.split(";")[3:] if p and p[:2] not in ("M=", "Y=", "O=")]


def wasm_only(line):
    return ";O=W;" in line


def related(spec_res, impl_res, op, tabs):
    """res_rel of Prims/Pre.v through the handles the implementation returned itself (tabs = [heap handles, array handles])"""
    kind = op.split(":")[0]
    if spec_res == "-":
        return True
    if spec_res[0] == "H":
        if impl_res[0] != "h" or int(spec_res[1:]) != len(tabs[0]):
            return False
        return True
    if spec_res[0] == "A":
        return impl_res[0] == "h" and int(spec_res[1:]) == len(tabs[1])
    if spec_res[0] == "v":
        if impl_res[0] != "w":
            return False
        sv = [x for x in spec_res[1:].split(",") if x]
        iw = [x for x in impl_res[1:].split(",") if x]
        if len(sv) != len(iw):
            return False
        for v, w in zip(sv, iw):
            if v[0] == "n":
                want = int(v[1:], 16)
            else:
                tb = tabs[0] if v[0] == "h" else tabs[1]
                k = int(v[1:])
                want = tb[k] if k < len(tb) else 0
            if want != int(w, 16):
                return False
        return True
    return spec_res == impl_res      # u, c<n>, i, F<class>


def record(tabs, op, impl_res):
    kind = op.split(":")[0]
    if impl_res.startswith("h"):
        if kind in ("HA", "BA"):
            tabs[0].append(int(impl_res[1:], 16))
        elif kind == "AN":
            tabs[1].append(int(impl_res[1:], 16))


DIFF_CLASS = {"PU": "state", "PO": "state", "SG": "state", "SS": "state", "SM": "state", "SD": "state/delay", "AG": "array-get",
              "AS": "array-set", "AL": "array-len", "NW": "now", "SR": "samplerate"}


def check_refines(line, m, impl_results, flags, who):
    """-> (violation text or None, class of the first difference outside the hypotheses or None, steps compared)"""
    ops = op_list(line)
    spec = m["spec"]
    tabs = [[], []]
    n = 0
    for i, sres in enumerate(spec):
        op = ops[i]
        if sres == "-":
            if i < len(impl_results):
                record(tabs, op, impl_results[i])
            continue
        if flags[i] != "1":
            # outside the hypotheses of the theorem: nothing is claimed from here on; note whether the backends do differ
            if i >= len(impl_results) or not related(sres, impl_results[i], op, tabs):
                return None, DIFF_CLASS.get(op.split(":")[0], "handle/" + op.split(":")[0]), n
            record(tabs, op, impl_results[i])
            continue_after = True
            # states may have diverged silently (e.g. a cursor that saturated): stop claiming
            return None, None, n
        if i >= len(impl_results):
            return "%s stopped after %d results, the specification goes on with %s at step %d (%s)" % (who, len(impl_results), sres, i, op), None, n
        if not related(sres, impl_results[i], op, tabs):
            return "%s answers %s at step %d (%s), the specification %s" % (who, impl_results[i], i, op, sres), None, n
        record(tabs, op, impl_results[i])
        n += 1
    if len(impl_results) > len(spec) and spec and spec[-1][0] == "F" and all(f == "1" for f in flags[:len(spec)]):
        return "%s goes on after the specification's fault %s" % (who, spec[-1]), None, n
    return None, None, n


def words_eq(a, b):
    """state words equal up to trailing zeros (the WASM host grows its storage on demand)"""
    def norm(s):
        w = [x for x in s.split("@")[0].split(",") if x != ""]
        while w and int(w[-1], 16) == 0:
            w.pop()
        return [int(x, 16) for x in w]
    return norm(a) == norm(b)


def judge(line, m, a):
    """-> list of (kind, text); kinds: 'C' correspondence model/implementation, 'P' property on the implementation's answers"""
    bad = []
    if "crash" in a:
        return [("P", "the harness process died on this sequence: " + a["crash"])], {}
    if "error" in a or "error" in m:
        return [("C", "input error: %s / %s" % (a.get("error"), m.get("error")))], {}
    trait_case = any(o[:2] in ("TG", "TS", "UC", "UR") for o in op_list(line))   # operations outside the contract language
    wo = wasm_only(line)
    if wo:
        pass
    elif a["vm"] != m["vm"]:
        k = next((i for i, (x, y) in enumerate(zip(a["vm"], m["vm"])) if x != y), min(len(a["vm"]), len(m["vm"])))
        bad.append(("C", "VM: model (Prims/Vm.v) and implementation differ at step %d: model %s, implementation %s"
                    % (k, m["vm"][k] if k < len(m["vm"]) else "<end>", a["vm"][k] if k < len(a["vm"]) else "<end>")))
    elif a["vmst"] != m["vmst"]:
        bad.append(("C", "VM: final state storage differs: model %s, implementation %s" % (m["vmst"], a["vmst"])))
    if a["wasm"] != m["wasm"]:
        k = next((i for i, (x, y) in enumerate(zip(a["wasm"], m["wasm"])) if x != y), min(len(a["wasm"]), len(m["wasm"])))
        bad.append(("C", "WASM: model (Prims/Wasm.v) and implementation differ at step %d: model %s, implementation %s"
                    % (k, m["wasm"][k] if k < len(m["wasm"]) else "<end>", a["wasm"][k] if k < len(a["wasm"]) else "<end>")))
    elif a["wast"].split("@")[0] != m["wast"].split("@")[0]:
        bad.append(("C", "WASM: final state storage differs: model %s, implementation %s" % (m["wast"], a["wast"])))
    info = {}
    if not trait_case:
        v, dv, nv = (None, None, 0) if wo else check_refines(line, m, a["vm"], m["pv"], "the real VM")
        w, dw, nw = check_refines(line, m, a["wasm"], m["pw"], "the real WASM host")
        if v:
            bad.append(("P", v))
        if w:
            bad.append(("P", w))
        info = {"vm_diff": dv, "wasm_diff": dw, "vm_steps": nv, "wasm_steps": nw,
                "both": all(f == "1" for f in m["pv"]) and all(f == "1" for f in m["pw"])}
        if info["both"] and not wo and not v and not w and not words_eq(a["vmst"], a["wast"]):
            bad.append(("P", "hypotheses hold for both, yet the final state words differ: VM %s, WASM %s" % (a["vmst"], a["wast"])))
    return bad, info


def safe(line):
    """False when the sequence would make the VM's heap code read a vacant slot-map slot (undefined behaviour, garbage answers):
    the VM transmutes a handle word into a key, so a heap-handle argument whose low 32 bits (the version field) are even — the
    word 0 an ordinal resolves to before it has been returned, or a forged even word — names a vacant slot.  The WASM host
    converts with KeyData::from_ffi since the repair of finding P5 (every word is safe there): sequences marked O=W run on the
    WASM host only and may contain anything.  Generated sequences are safe by construction; shrinking must stay inside."""
    if wasm_only(line):
        return True
    nh = na = 0
    for o in op_list(line):
        p = o.split(":")
        k = p[0]
        if k in ("RT", "RL", "LD", "ST"):
            h = p[1]
            if h[0] == "h" and int(h[1:]) >= nh:
                return False
            if h[0] == "a" and (int(h[1:]) != 0 or na == 0):
                return False
            if h[0] == "n" and int(h[1:], 16) % 2 == 0:
                return False
        if k in ("HA", "BA"):
            nh += 1
        if k == "AN":
            esz = int(p[1])
            cnt = len([x for x in p[2].split(",") if x])
            if esz > 0 and cnt % esz == 0:
                na += 1
    return True


def shrink(line, fails, budget=150):
    parts = line.split(";")
    nh = 4
    while nh < len(parts) and parts[nh][:2] in ("Y=", "O="):
        nh += 1
    head, ops = parts[:nh], parts[nh:]
    changed = True
    while changed and budget > 0:
        changed = False
        for i in range(len(ops) - 1, -1, -1):
            cand = ops[:i] + ops[i + 1:]
            budget -= 1
            if safe(";".join(head + cand)) and fails(";".join(head + cand)):
                ops = cand
                changed = True
                break
            if budget <= 0:
                break
    return ";".join(head + ops)


# ------------------------------------------------------------------------------------------------
# the part
# ------------------------------------------------------------------------------------------------
def prove_part(ck):
    if os.environ.get("VERIF_DEV_NOPROVE") == "1":
        return []
    bad = []
    rc, out, dt = vplib.coq_make([COQ_TARGETS[0]], timeout=1500)
    ck.coverage["prims_coq_build_s"] = round(dt, 1)
    if rc != 0:
        return ["coq: " + vplib.first_coq_error(out).replace("\n", " | ")[:600]]
    thms, exs = vplib.props_theorems(PROPS)
    ck.coverage["prims_theorems"] = thms
    ck.coverage["prims_examples"] = exs
    try:
        ax = vplib.coq_print_assumptions(PROPS, thms + exs)
    except RuntimeError as ex:
        return ["audit: " + str(ex)[:400]]
    open_ = {k: v for k, v in ax.items() if v}
    if open_ or set(ax) != set(thms + exs):
        bad.append("audit: theorems of Props/C01_prims.v are not closed under the global context: %r" % open_)
    ck.coverage["prims_print_assumptions"] = "Closed under the global context (%d statements)" % len(ax) if not open_ else open_
    ck.obligations += len(thms) + len(exs)
    if not bad:
        ck.discharged += len(thms) + len(exs)
    return bad


def run_part(ck, quick=True):
    t0 = time.time()
    viol = []
    for b in prove_part(ck):
        ck.broken.append("prims: " + b)
        viol.append(("runtime primitives: proof obligation no longer checks: " + b, {"no_input": True}))
    rc, out, _ = vplib.coq_make([COQ_TARGETS[1]], timeout=900)
    if rc != 0:
        return viol + [("runtime primitives: extraction of the models failed: " + vplib.first_coq_error(out)[:300], {"no_input": True})]
    rc, out, model = vplib.ocaml_build("prims_drv", ["prims_model"], os.path.join(VERIF, "ocaml", "prims_drv.ml"))
    if rc != 0:
        return viol + [("runtime primitives: model driver does not build: " + out[-300:], {"no_input": True})]
    rc, out, bindir = vplib.cargo_build("lang", ["prims_run"])
    if rc != 0:
        return viol + [("runtime primitives: harness prims_run does not build against the current runtime (trait RuntimePrimitives, "
                        "Machine, WasmEngine, hooks): " + out[-500:], {"no_input": True})]
    impl = os.path.join(bindir, "prims_run")

    rng = ck.rng.fork("prims")
    ncases = 4000 if quick else 60000
    lines = [f[1] for f in FIXED] + corpus_sequences() + [gen_case(rng) for _ in range(ncases)]
    unsafe = [l for l in lines if not safe(l)]
    if unsafe:
        raise RuntimeError("generator produced a sequence that provokes undefined behaviour in slotmap: " + unsafe[0][:300])
    m_ans = run_model(model, lines)
    i_ans = run_impl(impl, lines)

    cov = {"sequences": len(lines), "operations": 0, "vm_steps_under_hypotheses": 0, "wasm_steps_under_hypotheses": 0,
           "sequences_both_hypotheses_throughout": 0, "faults_vm": 0, "faults_wasm": 0, "differences_outside_hypotheses": {}}
    seen = set()

    def fail_kind(line):
        m = run_model(model, [line])[0]
        a = run_impl(impl, [line])[0]
        b, _ = judge(line, m, a)
        return b[0][0] if b else ""

    reported = 0
    for idx, line in enumerate(lines):
        m, a = m_ans[idx], i_ans[idx]
        bad, info = judge(line, m, a)
        if idx < len(FIXED) and "vm" in a:
            name, _, want_vm, want_wasm = FIXED[idx]
            if ";".join(a["vm"]) != want_vm or ";".join(a["wasm"]) != want_wasm:
                viol.append(("runtime primitives: the witness '%s' no longer behaves as recorded (VM %s, WASM %s; recorded VM %s, WASM %s)"
                             % (name, ";".join(a["vm"]), ";".join(a["wasm"]), want_vm, want_wasm), {"sequence": line}))
        if "vm" in a:
            cov["operations"] += len(op_list(line))
            cov["faults_vm"] += 1 if a["vm"] and a["vm"][-1].startswith("F") else 0
            cov["faults_wasm"] += 1 if a["wasm"] and a["wasm"][-1].startswith("F") else 0
            seen.add((";".join(a["vm"]), ";".join(a["wasm"])))
        if info:
            cov["vm_steps_under_hypotheses"] += info["vm_steps"]
            cov["wasm_steps_under_hypotheses"] += info["wasm_steps"]
            cov["sequences_both_hypotheses_throughout"] += 1 if info["both"] else 0
            for who in ("vm", "wasm"):
                c = info[who + "_diff"]
                if c:
                    key = who + ":" + c
                    cov["differences_outside_hypotheses"][key] = cov["differences_outside_hypotheses"].get(key, 0) + 1
        if idx % 400 == 11 and "vm" in a:
            ck.sample({"sequence": line[:300], "vm": ";".join(a["vm"])[:200], "wasm": ";".join(a["wasm"])[:200]})
        if not bad or reported >= 5:
            continue
        reported += 1
        kind, text = bad[0]
        small = shrink(line, lambda c: fail_kind(c) == kind)
        sm = run_model(model, [small])[0]
        sa = run_impl(impl, [small])[0]
        sb, _ = judge(small, sm, sa)
        obj = {"sequence": small, "original_sequence": line, "implementation": sa, "model": sm,
               "how": "echo '<sequence>' | .cache/target/lang/debug/prims_run   (models: .cache/ocaml/prims_drv/prims_drv)"}
        text = sb[0][1] if sb else text
        if kind == "P":
            viol.append(("runtime primitives: under the hypotheses of the refinement theorems " + text, obj))
        else:
            viol.append(("runtime primitives: " + text, obj))
    cov["distinct_answers"] = len(seen)
    cov["wall_s"] = round(time.time() - t0, 1)
    for k, v in cov.items():
        ck.coverage["prims_" + k] = v
    ck.add("evaluations", len(lines))
    ck.add("distinct_nontrivial", len(seen))
    return viol


if __name__ == "__main__":
    thorough = "--thorough" in sys.argv
    ck = vplib.Check("C01", ["--tier", "thorough" if thorough else "quick"])
    v = run_part(ck, quick=not thorough)
    for k in sorted(ck.coverage):
        if k.startswith("prims_"):
            print("%-45s %s" % (k, ck.coverage[k]))
    print("violations:", len(v))
    for what, obj in v:
        print(" *", what)
        print("     ", str(obj)[:1500])
    sys.exit(1 if v else 0)
