"""C13 — tokens and syntax tree are lossless over the source text  (+ the lexer/preparser part of C04).

P: theorems of coq/theories/Props/C13.v over Lexer/Model.v (every input, every character classification).
C: extracted model vs the real parser::tokenize / parser::preparse on exhaustive short strings over an
   alphabet that hits every grammar rule, random/mutated Unicode text, every *.mmm of the repository and
   random prefixes of them.
S: the clauses of the property evaluated directly on the implementation's answers (tiling, character
   boundaries, Eof, concatenation, trivia-once, CST leaves).
"""
import glob, itertools, json, os, subprocess, sys, time
from vplib import *

# every grammar rule of tokenizer.rs is reachable over this alphabet (see rule below)
ALPHABET = ['/', '*', '"', '.', '0', '1', 'a', '_', '\n', '\r', ';', ' ', '|', '=', '>', '<', '-', '!', ':', '&',
            '@', '$', '\u00e9', '\u00a7', '\U0001F600']

TRIVIA = {"LineBreak", "Whitespace", "SingleLineComment", "MultiLineComment"}

# characters for the random / mutated texts: every class the grammar distinguishes, in 1..4 byte encodings
SPECIAL = ['\t', '\n', '\r', '\x0b', '\x0c', '\u0085', '\u2028', '\u2029', '\u00a0', '\u3000', '\ufeff', '\u200b',
           '\x00', '\x7f', '\u00e9', '\u00a7', '\u00a9', '\u00b7', '\u0301', '\u0663', '\u2118', '\u212e', '\u309b',
           '\U0001D49C', '\U0001F600', '\U0010FFFF', '\u00df', '\u4e2d', '\u0e01', '\uff10', '\u2160', '_', '$', '#',
           '`', '%', '^', '~', '?', '\\', "'", ',', '(', ')', '[', ']', '{', '}', '+']
FRAGMENTS = ["fn", "let", "letrec", "self", "now", "samplerate", "if", "else", "match", "float", "int", "string", "struct",
             "include", "stage", "main", "macro", "mod", "use", "pub", "type", "alias", "rec", "_", "fnx", "_a", "x1",
             "0", "1", "10", "007", "1.5", "0.0", "1.", ".5", "1.2.3", "a.0.1", "a.0.1.2", "t.1.0", "1..2", "0.5.", "3.14",
             "->", "<-", "=>", "||>", "==", "!=", "<=", ">=", "&&", "||", "|>", "|", "&", "::", "..", "...", ".", ":", ";",
             "//", "// c", "/*", "*/", "/* c */", "/**/", "/*/", "/* \n */", '"', '"s"', '""', '"a\nb"', "\n", "\r\n", "\r",
             " ", "  ", "\t", " \r", "\n\n", "(", ")", "{", "}", "[", "]", ",", "`", "$", "#", "@", "!", "^", "%", "+", "-", "*", "/"]


def utf8(s):
    return s.encode("utf-8", "surrogatepass")


def parse_tokens(T):
    if T == "":
        return []
    out = []
    for item in T.split(","):
        k, s, l = item.split(":")
        out.append((k, int(s), int(l)))
    return out


def parse_map(M):
    d = {}
    if M:
        for item in M.split(","):
            k, vs = item.split("=")
            d[int(k)] = [int(v) for v in vs.split(".")] if vs else []
    return d


def parse_pre(P):
    a, b, c = P.split("|")
    return ([int(x) for x in a.split(",")] if a else []), parse_map(b), parse_map(c)


def dropped_set(toks):
    """class predicate of finding F5 (Coq: Lexer.PreLemmas.dropped, C13_dropped_in_words): the trivia token indices i such that
    no syntax token precedes i and either a LineBreak token j >= i precedes the first syntax token, or the text has no syntax
    token at all"""
    f = None
    for j, (k, _, _) in enumerate(toks):
        if k not in TRIVIA and k != "Eof":
            f = j
            break
    if f is None:
        return {j for j, (k, _, _) in enumerate(toks) if k in TRIVIA}
    out, seen_lb = set(), False
    for j in range(f - 1, -1, -1):
        if toks[j][0] == "LineBreak":
            seen_lb = True
        if seen_lb and toks[j][0] in TRIVIA:
            out.add(j)
    return out


def eval_property(src_bytes, fields):
    """-> (failed clauses, trivia indices attached nowhere and in the F5 class, all indices of the F5 class).
    fields = [C, T, P, X, B] of the implementation."""
    C, T, P, X, B = fields
    bad = []
    if T == "PANIC":
        return ["tokenize-panics"], [], None
    toks = parse_tokens(T)
    n = len(src_bytes)
    # --- tiling ---
    if not toks or toks[-1] != ("Eof", n, 0):
        bad.append("eof-last")
    pos = 0
    for (k, s, l) in toks:
        if s != pos:
            bad.append("contiguous")
            break
        pos = s + l
    if pos != n:
        bad.append("covers-text")
    if "0" in B or len(B) != len(toks):
        bad.append("char-boundary")
    if b"".join(src_bytes[s:s + l] for (_, s, l) in toks) != src_bytes:
        bad.append("concat-texts")
    if any(k == "Eof" for (k, _, _) in toks[:-1]):
        bad.append("eof-only-last")
    # --- trivia ---
    f5 = []
    drop = dropped_set(toks)
    if P == "PANIC":
        bad.append("preparse-panics")
        return bad, f5, drop
    idx, lead, trail = parse_pre(P)
    syntax = [i for i, (k, _, _) in enumerate(toks) if k not in TRIVIA and k != "Eof"]
    if idx != syntax:
        bad.append("token-indices")
    occ = {}
    for m in (lead, trail):
        for k, vs in m.items():
            if k >= len(idx):
                bad.append("trivia-key-out-of-range")
            for v in vs:
                occ[v] = occ.get(v, 0) + 1
    for v in occ:
        if v >= len(toks) or toks[v][0] not in TRIVIA:
            bad.append("non-trivia-in-trivia-map")
    for i, (k, _, _) in enumerate(toks):
        if k in TRIVIA:
            c = occ.get(i, 0)
            if c == 1:
                continue
            if c == 0 and i in drop:
                f5.append(i)
            else:
                bad.append("trivia-once")
        elif i in drop:
            bad.append("python-class-predicate")
    # neighbouring: leading trivia of token k sit between token k-1 and k, trailing between k and k+1
    for k, vs in lead.items():
        if k < len(idx):
            lo = idx[k - 1] if k > 0 else -1
            if any(not (lo < v < idx[k]) for v in vs):
                bad.append("leading-not-neighbour")
    for k, vs in trail.items():
        if k < len(idx):
            hi = idx[k + 1] if k + 1 < len(idx) else len(toks)
            if any(not (idx[k] < v < hi) for v in vs):
                bad.append("trailing-not-neighbour")
    # --- CST leaves ---
    if X == "PANIC":
        bad.append("parse_cst-panics")
    else:
        leaves = [int(x) for x in X.split(",")] if X else []
        if leaves != syntax:
            bad.append("cst-leaves")
    return bad, f5, drop


class Runner:
    def __init__(self, exe_i, exe_m):
        self.exe_i, self.exe_m = exe_i, exe_m

    def run(self, texts):
        """texts: list of str -> (impl lines [5 fields], model lines or None)"""
        inp = "\n".join(utf8(t).hex() for t in texts) + "\n"
        try:
            p = subprocess.run([self.exe_i], input=inp.encode(), stdout=subprocess.PIPE, stderr=subprocess.DEVNULL, timeout=3000)
        except (OSError, subprocess.TimeoutExpired):
            return None, None
        out_i = p.stdout.decode().split("\n")
        if p.returncode != 0 or len(out_i) < len(texts):
            return None, None
        out_i = out_i[:len(texts)]
        out_m = None
        if self.exe_m:
            cls = "\n".join(l.split("\t", 1)[0] for l in out_i) + "\n"
            try:
                q = subprocess.run([self.exe_m], input=cls.encode(), stdout=subprocess.PIPE, stderr=subprocess.DEVNULL, timeout=3000)
                om = q.stdout.decode().split("\n")
                if q.returncode == 0 and len(om) >= len(texts):
                    out_m = om[:len(texts)]
            except (OSError, subprocess.TimeoutExpired):
                pass
        return out_i, out_m


def rand_text(rng, maxlen):
    parts = []
    n = rng.range(0, maxlen)
    for _ in range(n):
        r = rng.below(10)
        if r < 5:
            parts.append(rng.choice(FRAGMENTS))
        elif r < 7:
            parts.append(rng.choice(SPECIAL))
        elif r < 8:
            parts.append(rng.choice(ALPHABET))
        elif r < 9:
            parts.append(chr(rng.range(32, 126)))
        else:
            c = rng.below(0x110000)
            if 0xD800 <= c <= 0xDFFF:
                c = 0x41
            parts.append(chr(c))
    return "".join(parts)


def mutate(rng, s):
    s = list(s)
    for _ in range(rng.range(1, 6)):
        r = rng.below(6)
        pos = rng.below(len(s) + 1)
        if r == 0 and s:
            del s[min(pos, len(s) - 1)]
        elif r == 1:
            s[pos:pos] = list(rng.choice(FRAGMENTS))
        elif r == 2:
            s[pos:pos] = [rng.choice(SPECIAL)]
        elif r == 3 and s:
            s[min(pos, len(s) - 1)] = rng.choice(SPECIAL + ALPHABET)
        elif r == 4 and s:
            a = rng.below(len(s))
            b = min(len(s), a + rng.range(1, 30))
            s[pos:pos] = s[a:b]
        elif s:
            a = rng.below(len(s))
            b = min(len(s), a + rng.range(1, 60))
            del s[a:b]
    return "".join(s)


def repo_mmm():
    fs = []
    for sub in ("lib", "examples", "crates", "tmp", "tests"):
        fs += glob.glob(os.path.join(REPO, sub, "**", "*.mmm"), recursive=True)
    fs = sorted(f for f in set(fs) if "/target/" not in f)
    out = []
    for f in fs:
        try:
            out.append((os.path.relpath(f, REPO), open(f, encoding="utf-8").read()))
        except (OSError, UnicodeDecodeError):
            pass
    return out


def run(ck):
    ck.level = "proof"
    proved = ck.prove(tables=["lexer_tables"], extra_targets=["theories/Extract/LexerExtract.vo"])

    # ---- build both sides ----
    t_b = time.time()
    rc, out, exe_m = ocaml_build("lex_drv", ["lex_model"], os.path.join(VERIF, "ocaml", "lex_drv.ml"))
    if rc != 0:
        ck.broken.append("model-build: " + out[-400:])
        exe_m = None
    rc, out, bindir = cargo_build("lang", ["lex_run"])
    if rc != 0:
        ck.broken.append("harness-build: " + out[-800:])
        ck.violation("harness does not build against /repo", {"cargo_output": out[-3000:]}, no_input=True)
        return finish(ck)
    R = Runner(os.path.join(bindir, "lex_run"), exe_m)
    ck.coverage["build_s"] = round(time.time() - t_b, 1)
    findings = {f["cls"]: f for f in known_findings("C13")}
    F5 = findings.get("trivia-before-first-syntax-token-dropped")

    clause_fail = []      # (origin, text, clauses, impl line)
    disagreements = []    # (origin, text, model, impl)
    stats = {"evaluations": 0, "f5_cases": 0, "nontrivial": 0, "tokens": 0, "model_compared": 0}
    crashed = []
    class_mismatch = []

    timing = ck.coverage.setdefault("phase_s", {})

    def process(origin, texts, sample_every=0):
        t_ph = time.time()
        try:
            return process1(origin, texts, sample_every)
        finally:
            timing[origin] = round(timing.get(origin, 0) + time.time() - t_ph, 1)

    def process1(origin, texts, sample_every=0):
        out_i, out_m = R.run(texts)
        if out_i is None:
            crashed.append(origin)
            return
        for n, t in enumerate(texts):
            line = out_i[n]
            fields = line.split("\t")
            if len(fields) != 5:
                clause_fail.append((origin, t, ["harness-output"], line))
                continue
            stats["evaluations"] += 1
            bad, f5, drop = eval_property(utf8(t), fields)
            if fields[1].count(",") >= 2:
                stats["nontrivial"] += 1
            stats["tokens"] += fields[1].count(",") + 1
            if bad:
                if len(clause_fail) < 50:
                    clause_fail.append((origin, t, sorted(set(bad)), line))
            if f5:
                stats["f5_cases"] += 1
                if F5:
                    ck.known(F5, f"{t[:40]!r}: trivia token(s) {f5[:4]} in neither map")
                elif len(clause_fail) < 50:
                    clause_fail.append((origin, t, ["trivia-once"], line))
            if out_m is not None:
                stats["model_compared"] += 1
                mf = out_m[n].split("\t")
                if len(mf) != 3 or mf[0] != fields[1] or mf[1] != fields[2]:
                    stats["disagreements"] = stats.get("disagreements", 0) + 1
                    if len(disagreements) < 50:
                        disagreements.append((origin, t, out_m[n], fields[1] + "\t" + fields[2]))
                elif drop is not None and mf[2] != ",".join(str(j) for j in sorted(drop)) and len(class_mismatch) < 50:
                    # the python class predicate of F5 and Coq's `dropped` must be the same predicate
                    class_mismatch.append((origin, t, mf[2], sorted(drop)))
            if sample_every and n % sample_every == sample_every // 2:
                ck.sample({"origin": origin, "input": t, "implementation": fields[1] + " | " + fields[2] + " | cst " + fields[3],
                           "model": out_m[n] if out_m else None})
        if out_m is None and exe_m:
            crashed.append(origin + " (model)")

    # ---- replay / corpus first ----
    if ck.replay:
        rp = json.load(open(ck.replay)).get("replay", {})
        if "hex" in rp:
            process("replay", [bytes.fromhex(rp["hex"]).decode("utf-8")])
    corpus = []
    cpath = os.path.join(VERIF, "corpus", "C13", "inputs.jsonl")
    if os.path.exists(cpath):
        for l in open(cpath):
            l = l.strip()
            if l and not l.startswith("#"):
                corpus.append(json.loads(l))
    process("corpus", corpus, sample_every=max(1, len(corpus)))
    ck.coverage["corpus_cases"] = len(corpus)

    # ---- the F5 witness of C13_leading_trivia_refuted, replayed on the real code ----
    wi, _ = R.run(["// c\nfn"])
    if wi is not None:
        _, f5, _ = eval_property(utf8("// c\nfn"), wi[0].split("\t"))
        ck.coverage["F5_witness_reproduced_on_implementation"] = (f5 == [0, 1])
        if f5 != [0, 1] and F5:
            # the finding is listed but the implementation no longer shows it: the refutation theorem / model is stale
            ck.broken.append("known finding F5 no longer reproduces on the implementation (witness \"// c\\nfn\")")

    # ---- exhaustive short strings ----
    t0 = time.time()
    maxlen = 4 if ck.tier == "quick" else 5
    n_exh = 0
    batch = []
    for L in range(0, maxlen + 1):
        for tup in itertools.product(ALPHABET, repeat=L):
            batch.append("".join(tup))
            if len(batch) >= 250000:
                process(f"exhaustive<={maxlen}", batch, sample_every=200000)
                n_exh += len(batch)
                batch = []
    if batch:
        process(f"exhaustive<={maxlen}", batch, sample_every=200000)
        n_exh += len(batch)
    ck.coverage["exhaustive_strings"] = n_exh
    ck.coverage["exhaustive"] = False
    ck.coverage["exhaustive_bound"] = f"all strings of length <= {maxlen} over the {len(ALPHABET)}-symbol alphabet {''.join(ALPHABET)!r}"
    ck.coverage["exhaustive_s"] = round(time.time() - t0, 1)

    # ---- random / mutated Unicode text ----
    rng = ck.rng.fork("random-text")
    n_rand = 20000 if ck.tier == "quick" else 120000
    texts = [rand_text(rng, 12) for _ in range(n_rand)]
    process("random", texts, sample_every=n_rand)
    ck.coverage["random_texts"] = n_rand

    # ---- repository files, prefixes, mutations ----
    files = repo_mmm()
    ck.coverage["repo_mmm_files"] = len(files)
    process("repo-file", [s for _, s in files], sample_every=len(files))
    rng = ck.rng.fork("prefixes")
    npre = 4 if ck.tier == "quick" else 12
    pre = []
    for _, s in files:
        for _ in range(npre):
            pre.append(s[:rng.below(len(s) + 1)])
    process("repo-file-prefix", pre)
    ck.coverage["repo_file_prefixes"] = len(pre)
    rng = ck.rng.fork("mutations")
    nmut = 4 if ck.tier == "quick" else 12
    mut = []
    for _, s in files:
        for _ in range(nmut):
            mut.append(mutate(rng, s))
    process("repo-file-mutated", mut)
    ck.coverage["repo_file_mutations"] = len(mut)

    ck.coverage["evaluations"] = stats["evaluations"]
    ck.coverage["distinct_nontrivial"] = stats["nontrivial"]
    ck.coverage["tokens_checked"] = stats["tokens"]
    ck.coverage["model_vs_impl_compared"] = stats["model_compared"]
    ck.coverage["model_vs_impl_disagreements"] = stats.get("disagreements", 0)
    ck.coverage["cases_in_known_class_F5"] = stats["f5_cases"]
    ck.coverage["F5_class_predicate_python_vs_coq_mismatches"] = len(class_mismatch)

    # ---- verdicts ----
    def replay_obj(origin, t, extra):
        d = {"origin": origin, "text": t, "hex": utf8(t).hex(),
             "how": "printf '<hex>\\n' | .cache/target/lang/debug/lex_run   (fields: classes, tokens, preparse, cst leaves, char-boundary flags)"}
        d.update(extra)
        return d

    clause_fail.sort(key=lambda x: len(x[1]))
    for (origin, t, bad, line) in clause_fail[:5]:
        ck.violation("property clause(s) fail on the implementation: " + ",".join(bad),
                     replay_obj(origin, t, {"implementation_answer": line}))
    if crashed:
        ck.violation("harness or model process crashed / truncated its output", {"batches": crashed}, no_input=True)
    if disagreements and not clause_fail:
        disagreements.sort(key=lambda x: len(x[1]))
        origin, t, m_, i_ = disagreements[0]
        ck.broken.append("correspondence Lexer.Model.{tokenize,preparse} vs parser::{tokenize,preparse}")
        ck.violation("model and implementation disagree (no clause of the property fails on the explored inputs)",
                     replay_obj(origin, t, {"correspondence": "Lexer.Model.{tokenize,preparse} vs parser::{tokenize,preparse}",
                                            "model": m_, "implementation": i_, "disagreements": stats.get("disagreements", 0)}), no_input=True)
    if class_mismatch:
        origin, t, m_, p_ = class_mismatch[0]
        ck.broken.append("F5 class predicate: checks/C13.py dropped_set vs Coq PreLemmas.dropped")
        ck.violation("the python class predicate of finding F5 differs from Coq's `dropped`",
                     replay_obj(origin, t, {"coq_dropped": m_, "python_dropped": p_}), no_input=True)
    if (not proved or ck.broken) and not clause_fail and not disagreements and not crashed and not class_mismatch:
        ck.violation("a proof obligation of Props/C13.v (or its translator / known-finding witness) no longer checks",
                     {"broken": ck.broken}, no_input=True)
    return finish(ck)


def finish(ck):
    ck.finish(
        explanation=("Theorems of Props/C13.v are proved in Coq for EVERY input (any list of characters, any answers of the character-class "
                     "predicates) over a literal Gallina transcription of tokenizer.rs (chumsky grammar as a PEG scanner), "
                     "split_projection_float_tokens and preparse; token kinds, keyword/operator/punctuation tables, the whitespace set and the "
                     "order of the top-level choice are regenerated from the Rust source on every run and every hand-transcribed function is "
                     "pinned by hash. The transcription is tied to /repo by running the extracted model and the real tokenize/preparse on the same "
                     "texts (the harness reports the class bits the real tokenizer exhibits for each character) and comparing (kind,start,len) lists, "
                     "token_indices and both trivia maps; the clauses of the property (incl. the CST-leaves clause, which has no model yet) are "
                     "also evaluated directly on the implementation's answers."),
        trusted_base=["Coq 8.16.1 kernel (coqc, vm_compute; no native_compute)",
                      "extraction: ExtrOcamlBasic + ExtrOcamlString only; OCaml 4.13.1; ocaml/lex_drv.ml driver",
                      "translator translators/lexer_tables.py (regex over token.rs/tokenizer.rs; hash pins of the hand-transcribed functions)",
                      "chumsky 0.11.1 implements ordered choice / repeated / rewind / not / text::{newline,int,digits,ident} as transcribed — exercised by the correspondence",
                      "harness/lang/src/bin/lex_run.rs (class bits observed through one/two-character probes of the real tokenizer) and the python oracle in checks/C13.py",
                      "C13_cst_leaves has no Coq model yet: checked on the implementation only (in-order leaves of parse_cst == non-trivia non-Eof token indices)",
                      "usize overflow (texts >= 2^64 bytes) is outside the model"],
        rule=("exhaustive strings up to the stated length over an alphabet containing: comment/operator chars / *, string quote, dot, digits 0 1 "
              "(int, float, leading zero, projection re-split), identifier chars a _ and non-ASCII XID é, the newline forms \\n \\r (\\r\\n), ';' "
              "(punctuation linebreak), space, the multi-char operator prefixes | = > < - ! : &, single-char @ $, a 2-byte non-XID char and a 4-byte char "
              "(error tokens); then random token-fragment/Unicode texts, all repository *.mmm files, random prefixes and mutations of them. "
              "non-trivial = at least 3 tokens"))
