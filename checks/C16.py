"""C16 — meaning is invariant under renaming, layout and agreeing annotations.

P: Props/C16.v: C16_alpha_ref / C16_alpha_machine — the reference semantics and the compiled machine are invariant under any
   injective renaming of variables and functions (Lmmm fragment).  PARTIAL: layout invariance needs the parser model (C04) and
   annotation invariance needs a typing model; both are covered by search only.
C/S: source-to-source transformations applied to generated core programs and to shipped sources, accept/reject and outputs compared
   before/after on both backends:  (a) consistent renaming of user identifiers to arbitrary fresh names incl. names that look
   compiler-generated (lambda_0, feed_id1, record_update_temp, __default_1_x, _mimium_global, names differing only in case, single
   letters), (b) redundant parentheses around sub-expressions, (c) extra whitespace / line breaks inside brackets / comments
   between tokens, (d) type annotations that agree with the inferred types (all numbers in the fragment).
"""
import glob, json, os, re
from vplib import *
import lmmm
from lmmm import *

import importlib.util as _ilu0, sys as _sys0
if os.path.join(VERIF, "checks") not in _sys0.path:
    _sys0.path.insert(0, os.path.join(VERIF, "checks"))
def _load_part(name):
    sp = _ilu0.spec_from_file_location("part_" + name, os.path.join(VERIF, "checks", name + ".py"))
    m = _ilu0.module_from_spec(sp); sp.loader.exec_module(m)
    return m
lower_part = _load_part("lower_part")
OCAML = lmmm.OCAML + lower_part.OCAML
HARNESS = lmmm.HARNESS + lower_part.HARNESS

ODD_NAMES = ["lambda_0", "lambda_1", "feed_id0", "feed_id1", "record_update_temp", "__default_0_x", "__default_1_x", "_mimium_global",
             "dsp0", "main", "_", "x_", "state", "mem_", "delay1", "now_", "Self", "selfx", "fn_", "let_", "if_", "then", "r", "q", "zz",
             "a1", "b", "c", "d", "e", "f", "g", "h", "tmp", "closure", "upvalue", "phi", "reg", "alloc", "getstate", "pushstateidx",
             "float_", "number", "T", "U", "x", "y", "z", "snake_case_name", "CamelCase", "v", "vv", "vvv", "l0", "O0", "__", "_1", "a_b_c"]
KEYWORDS = {"fn", "let", "letrec", "if", "else", "then", "self", "now", "samplerate", "mem", "delay", "min", "max", "float", "int", "string",
            "struct", "macro", "include", "use", "mod", "pub", "match", "type", "alias", "rec", "dsp", "_", "main", "true", "false",
            "sin", "cos", "abs", "sqrt", "log", "pow", "round", "floor", "ceil", "tan", "atan", "atan2", "sinh", "cosh", "tanh", "exp",
            "print", "println", "probe", "probeln", "lift", "T", "U", "then"}


def idents_of(p):
    vs, fs = set(), set()
    for n, ps, b in p['funs']:
        fs.add(n); vs.update(ps)
    vs.update(p['inputs'])
    for x, e in p['lets']:
        vs.add(x)
    for _, b in all_bodies(p):
        for s in subexprs(b):
            if s[0] == 'let': vs.add(s[1])
    return vs, fs


def renaming(rng, p):
    vs, fs = idents_of(p)
    pool = [n for n in ODD_NAMES if n not in KEYWORDS]
    for i in range(len(pool) - 1, 0, -1):
        j = rng.below(i + 1); pool[i], pool[j] = pool[j], pool[i]
    ren = {}
    it = iter(pool)
    for k, ids in (('f', sorted(fs)), ('v', sorted(vs))):
        for x in ids:
            if rng.chance(2, 3):
                try:
                    ren[(k, x)] = next(it)
                except StopIteration:
                    pass
    return ren


def add_parens(rng, src):
    """wrap some number literals / identifiers in redundant parentheses"""
    out, i = [], 0
    for m in re.finditer(r"(?<![\w.])(\d+\.0)(?![\w(.:])", src):
        if rng.chance(1, 3):
            out.append(src[i:m.start()]); out.append("((" + m.group(0) + "))"); i = m.end()
    out.append(src[i:])
    return "".join(out)


def relayout(rng, src):
    """whitespace / line breaks inside brackets and comments between tokens (never a bare newline at statement level)"""
    out = []
    depth = 0
    for ch in src:
        if ch in "([":
            depth += 1
            out.append(ch)
            if rng.chance(1, 4): out.append("\n   " if rng.chance(1, 2) else "  ")
        elif ch in ")]":
            if rng.chance(1, 4): out.append("\n " if depth > 0 and rng.chance(1, 2) else " ")
            depth -= 1
            out.append(ch)
        elif ch == "," and rng.chance(1, 3):
            out.append(", /* c */" if rng.chance(1, 3) else ",\n    " if depth > 0 else ", ")
        elif ch == " " and rng.chance(1, 8):
            out.append("   ")
        elif ch == "\n" and rng.chance(1, 6):
            out.append(" // trailing comment\n")
        else:
            out.append(ch)
    return "".join(out)


def annotate(rng, src):
    """agreeing annotations: every parameter and let of the fragment is a number"""
    s = re.sub(r"\blet (v\d+|\w+) =", lambda m: ("let %s:float =" % m.group(1)) if rng.chance(1, 2) else m.group(0), src)
    def params(m):
        ps = [x.strip() for x in m.group(2).split(",") if x.strip()]
        ps = [(x + ":float") if (":" not in x and rng.chance(1, 2)) else x for x in ps]
        ret = "->float" if (rng.chance(1, 3) and m.group(1) != "dsp") else ""
        return "fn %s(%s)%s{" % (m.group(1), ", ".join(ps), ret)
    return re.sub(r"fn (\w+)\(([^)]*)\)\{", params, s)


def then_branch_paren(src):
    """class predicate of finding F44: an `if (cond)` whose then-branch starts with `(` right after the condition"""
    for m in re.finditer(r"\bif\s*\(", src):
        d, j = 0, m.end() - 1
        while j < len(src):
            if src[j] == '(':
                d += 1
            elif src[j] == ')':
                d -= 1
                if d == 0:
                    break
            j += 1
        k = j + 1
        while k < len(src) and src[k] in " \t":
            k += 1
        if k < len(src) and src[k] == '(':
            return True
    return False


def compiler_name_collision(src):
    """class predicate of finding F43: a user function is named like the compiler's global initialiser"""
    return re.search(r"\b_mimium_global\b", src) is not None



# ---------------------------------------------------------------------------------------------------------------------
# scope-aware renaming to names that ARE visible elsewhere (functions of a module reached through `use m::*`, `use m::{..}`,
# a sibling inside the enclosing `mod`, top-level functions): a binder may take the name of a function that is used in its own
# initialiser (a `let` scope starts after the initialiser) or anywhere outside its scope, as long as that name is not referenced
# inside the binder's scope.  The renaming is consistent and capture-free, so accept/reject and outputs must not change.
def gen_scope_case(rng):
    """-> (original source, renamed source, description).  Both are rendered from one template with two binder-name maps."""
    pub = ["helper", "gain", "twice", "osc"]
    rng_fns = pub[:rng.range(2, 4)]
    style = rng.choice(["wild", "list", "alias1"])          # how dsp's file imports m
    consts = [rng.range(1, 6) for _ in range(8)]
    # module body: public functions, one private sibling used through a local inside the module
    def fbody(i, arg):
        k = consts[i]
        return rng.choice(["%s * %d.0 + %d.0" % (arg, k, i + 1), "%s + %d.0" % (arg, k), "(%s - %d.0) * 2.0" % (arg, k)])
    mod_fns = [(f, fbody(i, "x")) for i, f in enumerate(rng_fns)]
    nb = rng.range(2, 4)
    binders = ["b%d" % i for i in range(nb)]
    # dsp lets: let b_i = <call of an imported / top-level function on literals and earlier binders>
    calls = []
    for i in range(nb):
        f = rng.choice(rng_fns + ["top"])
        arg = rng.choice(["%d.0" % consts[i]] + binders[:i]) if i else "%d.0" % consts[0]
        extra = (" + " + rng.choice(binders[:i])) if i and rng.chance(1, 2) else ""
        calls.append((f, arg, extra))
    tuple_let = nb >= 3 and rng.chance(1, 3)
    # renaming: a binder may take the name of the function called in its own initialiser, or of any function that is not called
    # in a later initialiser; new names of distinct binders are distinct
    new = {}
    used_later = [set(c[0] for c in calls[i + 1:]) for i in range(nb)]
    for i, b in enumerate(binders):
        cands = [f for f in rng_fns + ["top", "inner"] if f not in used_later[i] and f not in new.values()]
        if tuple_let and i < 2:
            # both names of one tuple pattern are bound together: neither may be used by the other's initialiser component later
            cands = [f for f in cands if f not in (calls[0][0], calls[1][0]) or f == calls[i][0]]
        if cands and rng.chance(3, 4):
            pick = calls[i][0] if (calls[i][0] in cands and rng.chance(2, 3)) else rng.choice(cands)
            new[b] = pick
    if not new:
        new[binders[-1]] = calls[-1][0] if calls[-1][0] not in new.values() else "inner"
    inner_local = rng.chance(1, 2)      # inside the module: `let L = sibling(x)` with L renamed to `sibling`
    qualify = style == "none"
    def render(ren):
        def nm(b): return ren.get(b, b)
        L = ["mod m {"]
        for f, body in mod_fns:
            L.append("    pub fn %s(x){ %s }" % (f, body))
        L.append("    fn inner(x){ x * 3.0 }")
        il = ren.get("IL", "il")
        L.append("    pub fn via(x){ let %s = inner(x)\n        %s + 1.0 }" % (il, il) if inner_local else "    pub fn via(x){ inner(x) + 1.0 }")
        L.append("}")
        if style == "wild": L.append("use m::*")
        elif style == "list": L.append("use m::{%s, via}" % ", ".join(rng_fns))
        else:
            for f in rng_fns + ["via"]:
                L.append("use m::%s" % f)
        L.append("fn top(x){ x + 100.0 }")
        body = []
        start = 0
        if tuple_let:
            body.append("    let (%s, %s) = (%s(%s), %s(%s))" % (nm(binders[0]), nm(binders[1]), calls[0][0], calls[0][1], calls[1][0], "%d.0" % consts[1]))
            start = 2
        for i in range(start, nb):
            f, arg, extra = calls[i]
            a = nm(arg) if arg in binders else arg
            e = (" + " + nm(extra[3:])) if extra else ""
            body.append("    let %s = %s(%s)%s" % (nm(binders[i]), f, a, e))
        body.append("    " + " + ".join(["%s * %d.0" % (nm(b), 10 ** i) for i, b in enumerate(binders)] + ["via(2.0)"]))
        L.append("fn dsp(){\n%s\n}" % "\n".join(body))
        return "\n".join(L) + "\n"
    ren = dict(new)
    if inner_local and rng.chance(2, 3):
        ren["IL"] = "inner"
    return render({}), render(ren), "binders renamed: %s (import style %s)" % (ren, style)


# names that look like the compiler's MONOMORPHISATION labels (<generic>_mono_<argument signature>_<result signature>) given to an unrelated
# user function or closure next to an explicitly generic function called at that signature (response to seeded change C16c)
def gen_self_name_case(rng):
    """a RECURSIVE function with inner binders in nested scopes (lambda parameters, block-local lets) before and after the recursive call; the
    renamed variant gives one such binder the function's OWN name (capture-free: that scope never mentions the function).  Response to seeded
    change C16d (a recursion check that lost track of an inner lambda's scope)."""
    r = rng
    fname = r.choice(["fact", "tri", "walk", "acc", "go"])
    c = [r.range(1, 5) for _ in range(6)]
    inner = []          # (kind, binder placeholder index, text using {B})
    n_inner = r.range(1, 3)
    kinds = [r.choice(["lambda", "lambda", "block", "lambda2"]) for _ in range(n_inner)]
    where = [r.choice(["before", "before", "after"]) for _ in range(n_inner)]
    target = r.below(n_inner)
    depth = r.range(1, 3)
    def render(ren):
        pre, post, uses = [], [], []
        for i, (k, w) in enumerate(zip(kinds, where)):
            b = ren.get(i, "k%d" % i)
            if k == "lambda":
                line = "  let h%d = |%s| %s + %d.0" % (i, b, b, c[i]); use = "h%d(n)" % i
            elif k == "lambda2":
                line = "  let h%d = |%s, q%d| %s * %d.0 + q%d" % (i, b, i, b, c[i], i); use = "h%d(n, %d.0)" % (i, c[i + 1])
            else:
                line = "  let h%d = { let %s = n * %d.0\n    %s + 1.0 }" % (i, b, c[i], b); use = "h%d" % i
            (pre if w == "before" else post).append(line); uses.append((w, use))
        before_uses = " + ".join(u for w, u in uses if w == "before") or "0.0"
        after_uses = " + ".join(u for w, u in uses if w == "after") or "0.0"
        L = ["fn %s(n){" % fname] + pre
        L.append("  let rec_part = if (n > 0.0) { %s(n - 1.0) + %s } else { %d.0 }" % (fname, before_uses, c[4]))
        L += post
        L.append("  rec_part + %s" % after_uses)
        L.append("}")
        L.append("fn dsp(){\n  %s(%d.0) + now\n}" % (fname, depth))
        return "\n".join(L) + "\n"
    return render({}), render({target: fname}), "inner binder %d (%s, %s the recursive call) renamed to the function's own name %s" % (target, kinds[target], where[target], fname)


def gen_mono_label_case(rng):
    g = rng.choice(["ident", "pick", "pass"])
    at = rng.choice(["num", "tup"])
    label = "%s_mono_num_num" % g if at == "num" else "%s_mono_tup_num_num_tup_num_num" % g
    names = [rng.choice(["helper", "scale", "lambda_0", g + "_mono", "zz"]), label]
    form = rng.choice(["fn", "closure", "fn-after"])
    k = rng.range(2, 9)
    def prog(name):
        gen = "fn %s(x: a) -> a { x }\n" % g
        call = "%s(0.75)" % g if at == "num" else "%s((0.5, 0.25)).1" % g
        if form == "fn":
            return gen + "fn %s(x){ x * %d.0 }\nfn dsp(){\n  %s + %s(1.0)\n}\n" % (name, k, call, name)
        if form == "fn-after":
            return "fn %s(x){ x * %d.0 }\n" % (name, k) + gen + "fn dsp(){\n  %s(1.0) + %s\n}\n" % (name, call)
        return gen + "fn dsp(){\n  let %s = |x| { x * %d.0 }\n  %s + %s(1.0)\n}\n" % (name, k, call, name)
    return prog(names[0]), prog(names[1]), "helper named %s vs %s (%s, generic called at %s)" % (names[0], names[1], form, at)

def summary(r):
    res = {}
    for be in ("vm", "wasm"):
        b = r.get(be)
        if b is None:
            res[be] = None
        elif 'compile' in b:
            res[be] = ('reject',)
        elif 'compile_panic' in b:
            res[be] = ('panic', b['compile_panic'][:60])
        else:
            res[be] = ('ok', tuple(tuple(s.get('out', ['P'])) for s in b['samples']))
    return res


def run(ck):
    ck.level = "other"
    proved = ck.prove(tables=["statetree_consts"], extra_targets=[lmmm.EXTRACT_TARGET])
    mexe, iexe = build_sides(ck)
    if iexe is None:
        ck.violation("harness does not build", {"broken": ck.broken}, no_input=True)
        return finish(ck)
    quick = ck.tier == "quick"
    findings = {f["id"]: f for f in known_findings("C16")}
    n_cases, n_samples = (300, 16) if quick else (3000, 48)
    cases = load_corpus("lmmm") + gen_cases(ck, n_cases, n_samples, tag="C16")
    reqs, meta = [], []
    rng = ck.rng.fork("xf")
    for ci, ((p, rows), base) in enumerate(zip(cases, impl_requests(cases, {"state": False}))):
        base = {k: v for k, v in base.items() if k != "isolate"}
        if "F3" in classes_of(p):
            base["backends"] = ["wasm"]
        reqs.append(dict(base)); meta.append((ci, "orig"))
        src = base["src"]
        variants = [("rename", pp_prog(p, renaming(rng, p))), ("parens", add_parens(rng, src)), ("layout", relayout(rng, src)),
                    ("annot", annotate(rng, src)),
                    ("all", relayout(rng, annotate(rng, add_parens(rng, pp_prog(p, renaming(rng, p))))))]
        for kind, s2 in variants:
            if s2 != src:
                r2 = dict(base); r2["src"] = s2
                reqs.append(r2); meta.append((ci, kind))
    # shipped sources: parentheses and layout only (their identifiers are not under our control)
    files = sorted(glob.glob(REPO + "/crates/lib/mimium-test/tests/mmm/*.mmm") + glob.glob(REPO + "/examples/*.mmm"))
    fbase = len(cases)
    for fi, f in enumerate(files):
        if os.path.basename(f) in ("scheduler_invalid.mmm",):
            continue
        src = open(f).read()
        b = {"src": src, "path": f, "n": 16, "state": False, "sched": True}
        reqs.append(dict(b)); meta.append((fbase + fi, "orig"))
        # only code is transformed: string literals and comments are kept as they are
        parts = re.split(r'("(?:[^"\\]|\\.)*"|//[^\n]*|/\*.*?\*/)', src, flags=re.S)
        s2 = "".join(pt if i % 2 else re.sub(r"(?<![\w.])(\d+\.\d+)(?![\w(.])", lambda m: "((" + m.group(1) + "))" if rng.chance(1, 3) else m.group(0), pt)
                     for i, pt in enumerate(parts))
        if s2 != src:
            b2 = dict(b); b2["src"] = s2
            reqs.append(b2); meta.append((fbase + fi, "file-parens"))
    # record programs: field names are user-chosen identifiers too (literal, destructuring pattern, access, update, parameter pack)
    FIELD_POOL = ["key1", "key2", "total", "parts", "a", "zz", "freq", "Amp", "x_", "b2", "gain", "attack", "decay", "m", "k"]
    rbase = fbase + len(files)
    for ri in range(60 if quick else 600):
        r = rng.fork(("rec", ri))
        def names(k):
            pool = list(FIELD_POOL)
            for i in range(len(pool) - 1, 0, -1):
                j = r.below(i + 1); pool[i], pool[j] = pool[j], pool[i]
            return pool[:k]
        k = r.range(2, 4)
        vals = [r.range(1, 9) for _ in range(k)]
        order2 = list(range(k))
        for i in range(k - 1, 0, -1):
            j = r.below(i + 1); order2[i], order2[j] = order2[j], order2[i]
        def render(fs):
            lit = ", ".join("%s = %d.0" % (fs[i], vals[i]) for i in range(k))
            pat = ", ".join("%s = p%d" % (fs[i], i) for i in order2)
            upd = "%s = %d.0" % (fs[order2[0]], vals[0] + 10)
            weights = " + ".join("p%d * %d.0" % (i, 10 ** i) for i in range(k))
            return ("fn mk(s){\n  {%s}\n}\nfn dsp(){\n  let r = mk(1.0)\n  let {%s} = r\n  let r2 = { r <- %s }\n  (%s) + r2.%s * 100000.0 + r.%s * 1000.0\n}\n"
                    % (lit, pat, upd, weights, fs[order2[0]], fs[k - 1]))
        f1, f2 = names(k), names(k)
        reqs.append({"src": render(f1), "n": 3, "state": False}); meta.append((rbase + ri, "orig"))
        reqs.append({"src": render(f2), "n": 3, "state": False}); meta.append((rbase + ri, "field-rename"))
    # scope-aware renaming onto names visible elsewhere (module functions reached by use / wildcard / sibling, top-level functions)
    sbase = rbase + (60 if quick else 600)
    for si in range(120 if quick else 1200):
        o_src, r_src, _d = gen_scope_case(rng.fork(("scope", si)))
        reqs.append({"src": o_src, "n": 3, "state": False}); meta.append((sbase + si, "orig"))
        if r_src != o_src:
            reqs.append({"src": r_src, "n": 3, "state": False}); meta.append((sbase + si, "scope-rename"))
    mbase = sbase + (120 if quick else 1200)
    for mi in range(40 if quick else 400):
        o_src, r_src, _d = gen_mono_label_case(rng.fork(("mono-label", mi)))
        reqs.append({"src": o_src, "n": 3, "state": False}); meta.append((mbase + mi, "orig"))
        reqs.append({"src": r_src, "n": 3, "state": False}); meta.append((mbase + mi, "mono-label-rename"))
    nbase = mbase + (40 if quick else 400)
    for ni in range(40 if quick else 400):
        o_src, r_src, _d = gen_self_name_case(rng.fork(("self-name", ni)))
        reqs.append({"src": o_src, "n": 3, "state": False}); meta.append((nbase + ni, "orig"))
        reqs.append({"src": r_src, "n": 3, "state": False}); meta.append((nbase + ni, "self-name-rename"))
    res = run_impl(iexe, reqs, timeout_per_batch=400)
    stats = {}
    def bump(k, n=1): stats[k] = stats.get(k, 0) + n
    orig = {}
    for (ci, kind), r in zip(meta, res):
        if kind == "orig":
            orig[ci] = r
    viol = []
    distinct = 0
    for (ci, kind), rq, r in zip(meta, reqs, res):
        if kind == "orig":
            continue
        o = orig.get(ci)
        if o is None or 'crash' in o:
            continue
        if 'crash' in r:
            if "F45" in findings and re.search(r"\bfeed_id\d+\b", rq["src"]):
                bump("known_F45_feed_id_capture"); ck.known(findings["F45"], rq["src"].replace("\n", " ")[:120]); continue
            if "F43" in findings and compiler_name_collision(rq["src"]):
                bump("known_F43_name_collision"); ck.known(findings["F43"], rq["src"].replace("\n", " ")[:120]); continue
            viol.append(("process died on the %s-transformed program but not on the original" % kind, ci, kind, rq, {})); continue
        a, b = summary(o), summary(r)
        if not any(v and v[0] == 'ok' for v in a.values()):
            bump("original_not_accepted_" + kind); continue
        if a == b:
            bump("same_" + kind)
            if any(v and v[0] == 'ok' for v in a.values()):
                distinct += 1
            continue
        which = [be for be in ("vm", "wasm") if a[be] != b[be]]
        if "F44" in findings and then_branch_paren(rq["src"]) and not then_branch_paren(reqs[[i for i, m in enumerate(meta) if m == (ci, "orig")][0]]["src"]):
            bump("known_F44_then_branch_paren"); ck.known(findings["F44"], rq["src"].replace("\n", " ")[:120]); continue
        if "F45" in findings and re.search(r"\bfeed_id\d+\b", rq["src"]):
            bump("known_F45_feed_id_capture"); ck.known(findings["F45"], rq["src"].replace("\n", " ")[:120]); continue
        if "F43" in findings and compiler_name_collision(rq["src"]):
            bump("known_F43_name_collision"); ck.known(findings["F43"], rq["src"].replace("\n", " ")[:120]); continue
        viol.append(("%s changed by the %s transformation on %s" % ("accept/reject" if any((a[be] or ('',))[0] != (b[be] or ('',))[0] for be in which) else "outputs", kind, ",".join(which)),
                     ci, kind, rq, {"before": str({be: a[be] for be in which})[:400], "after": str({be: b[be] for be in which})[:400]}))
    ck.coverage["evaluations"] = len(reqs)
    ck.coverage["distinct_nontrivial"] = distinct
    ck.coverage["stats"] = stats
    for i in (1, 3, len(reqs) // 2):
        ck.sample({"transformation": meta[i][1], "source": reqs[i]["src"][:500]})
    seen = set()
    for what, ci, kind, rq, det in viol:
        key = (what.split(" on ")[0], kind)
        if key in seen:
            continue
        seen.add(key)
        osrc = reqs[[i for i, m in enumerate(meta) if m == (ci, "orig")][0]]["src"]
        ck.violation(what, {"original": osrc, "transformed": rq["src"], "n": rq["n"], "inputs": rq.get("inputs"), **det,
                            "how": "run both sources through .cache/target/lang/debug/lmmm_run and compare"})
        if len(seen) >= 6:
            break
    # ---------------- layout part: parser model + lowering model (Props/C16_layout.v, Props/C04_lower.v; checks/lower_part.py) ------------
    lviol = lower_part.run_part(ck, quick)
    for what, rp in lviol[:6]:
        ck.violation(what, {k: v for k, v in rp.items() if k != "no_input"}, no_input=bool(rp.get("no_input")))
    viol = viol + [(w, None, None, None, None) for w, _ in lviol]
    if not proved and not viol:
        ck.violation("a proof obligation of Props/C16.v no longer checks", {"broken": ck.broken}, no_input=True)
    return finish(ck)


def finish(ck):
    ck.finish(
        explanation=("PARTIAL. Proved (Coq): reference semantics and compiled machine of the Lmmm fragment are invariant under injective renaming of "
                     "variables and functions (C16_alpha_ref, C16_alpha_machine). Searched on the real compiler (both backends): consistent renaming to "
                     "arbitrary names including compiler-looking ones, redundant parentheses, whitespace / line breaks inside brackets / comments, "
                     "agreeing float annotations — accept/reject and outputs must not change. The compiler's own name generation, the parser's "
                     "layout sensitivity and type inference are not modelled."),
        trusted_base=["Coq 8.16.1 kernel", "lib/lmmm.py pretty-printer (renaming is applied at the AST level, the other transformations on text)",
                      "harness/lang lmmm_run"],
        rule="each generated program x {rename, parens, layout, annot, all}; shipped sources x redundant parentheses; distinct_nontrivial = transformed programs accepted and identical")
