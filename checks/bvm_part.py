"""Bytecode part of C03 (serves C01/C02):  run_part(ck, quick) -> list of (what, replay_obj).

P: coq/theories/Props/C03_bvm.v over Bvm/Model.v + Bvm/XModel.v (executable model of runtime/vm.rs `Machine::execute` on the
   real compiler's bytecode, parametric in the arithmetic; XModel adds closures, upvalue cells, heap objects, per-closure
   state storages) and Bvm/Verify.v + Bvm/XVerify.v (a bytecode verifier in the spirit of the JVM verifier): a program
   accepted by `verify` never faults in the model VM - on any input, with any arithmetic, for any number of samples and any
   fuel; dsp leaves exactly its declared number of output words; the state cursor is back at 0.  With closures (`xverify`)
   the same holds except for faults of the dynamic class (stale handles, ill-fitting indirect callees, ...; partial).
   Since builder bvm3 `xverify` also accepts AllocArray / GetArrayElem / SetArrayElem, the array builtins (len, split_head,
   split_tail, prepend, append, `$arityN`) and `_mimium_schedule_at`; the element width GetArrayElem / SetArrayElem move is a
   run-time fact: the dump carries an untrusted annotation (elem_width_hints), the instrumented semantics checks it
   (DynElemWidth), and a DynElemWidth stop on compiler output is reported.
C: harness/lang/src/bin/bc_dump.rs compiles every program with the REAL compiler, dumps the complete `Program` the real
   VM executes (upindexes and the type table included) and runs it on the real VM; ocaml/bvm_drv.ml runs the extracted
   model on the SAME dumped bytecode: outputs (bit patterns), flat state words, cursor, closures.len() and heap.len() must
   agree after every sample.
S: the extracted verifier is run on the dump of every generated / corpus / shipped program on every run.  A rejection of
   bytecode the compiler emitted is a concrete failing program (the verdict covers ALL paths, not only those a run takes).
   Programs that use instructions outside the supported subset are counted `outside_subset`.
"""
import glob, json, os, re, struct, subprocess, sys, time

sys.path.insert(0, os.path.join(os.path.dirname(os.path.abspath(__file__)), "..", "lib"))
import vplib
from vplib import VERIF, log
import lmmm

OCAML = [("bvm_drv", ["bvm_model"], "ocaml/bvm_drv.ml")]
HARNESS = [("lang", ["bc_dump"], True)]
COQ_TARGETS = ["theories/Props/C03_bvm.vo", "theories/Extract/BvmExtract.vo"]
PROPS = "C03_bvm"

FUEL = 400000          # instructions per dsp call given to the model (OutOfFuel is reported, never silently accepted)

# external functions the model gives a meaning to: name -> (code, arity); everything else is ExtOther (code 255)
EXT_CODES = {"_mimium_getnow": (0, 0), "_mimium_getsamplerate": (1, 0),
             "neg": (10, 1), "abs": (11, 1), "sqrt": (12, 1), "round": (13, 1), "floor": (14, 1), "ceil": (15, 1),
             "not": (16, 1), "sin": (17, 1), "cos": (18, 1), "tan": (19, 1), "sinh": (20, 1), "cosh": (21, 1),
             "tanh": (22, 1), "asin": (23, 1), "acos": (24, 1), "atan": (25, 1),
             "probe": (26, 1), "probeln": (27, 1),      # print the value and return it
             "add": (40, 2), "sub": (41, 2), "mult": (42, 2), "div": (43, 2), "modulo": (44, 2), "eq": (45, 2),
             "ne": (46, 2), "lt": (47, 2), "le": (48, 2), "gt": (49, 2), "ge": (50, 2), "atan2": (51, 2),
             "pow": (52, 2), "min": (53, 2), "max": (54, 2)}

# builtins on Machine.arrays: name -> op of Bvm/XModel.v arr_builtin (the `$arityN` specialisations: op + 10, width N)
ARRAY_EXT = {"len": 0, "split_head": 1, "split_tail": 2, "prepend": 3, "append": 4}


def ext_code(name):
    """(code, arity) of an entry of ext_fun_table for the model driver"""
    if name in EXT_CODES:
        return EXT_CODES[name]
    if name == "_mimium_schedule_at":
        return (199, 0)
    if name in ARRAY_EXT:
        return (200 + ARRAY_EXT[name], 0)
    m = re.match(r"(split_head|split_tail|prepend|append)\$arity(\d+)$", name)
    if m:
        return (200 + 10 + ARRAY_EXT[m.group(1)], int(m.group(2)))
    return (255, 0)


# bytecode::Instruction as the model knows it: variant -> number of operands (pinned against bytecode.rs on every run)
MODEL_INSTRS = {
    "Move": 2, "MoveConst": 2, "MoveImmF": 2, "MoveRange": 3, "Call": 3, "CallCls": 3, "CallExtFun": 3, "Closure": 2,
    "Close": 1, "MakeHeapClosure": 3, "CloseHeapClosure": 1, "CloneHeap": 1, "CallIndirect": 3, "BoxAlloc": 3,
    "BoxLoad": 3, "BoxClone": 1, "BoxRelease": 1, "BoxStore": 3, "CloneUserSum": 3, "ReleaseUserSum": 3,
    "GetUpValue": 3, "SetUpValue": 3, "GetGlobal": 3, "SetGlobal": 3, "GetState": 2, "SetState": 2, "PushStatePos": 1,
    "PopStatePos": 1, "Return0": 0, "Return": 2, "Delay": 3, "Mem": 2, "Jmp": 1, "JmpIfNeg": 2, "JmpTable": 2,
    "AddF": 3, "SubF": 3, "MulF": 3, "DivF": 3, "ModF": 3, "NegF": 2, "AbsF": 2, "SqrtF": 2, "SinF": 2, "CosF": 2,
    "PowF": 3, "LogF": 2, "AddI": 3, "SubI": 3, "MulI": 3, "DivI": 3, "ModI": 3, "NegI": 2, "AbsI": 2, "PowI": 3,
    "LogI": 3, "Not": 2, "Eq": 3, "Ne": 3, "Gt": 3, "Ge": 3, "Lt": 3, "Le": 3, "And": 3, "Or": 3, "CastFtoI": 2,
    "CastItoF": 2, "CastItoB": 2, "AllocArray": 3, "GetArrayElem": 3, "SetArrayElem": 3, "Dummy": 0}
SUPPORTED = {"Move", "MoveConst", "MoveImmF", "MoveRange", "Call", "CallExtFun", "Return0", "Return", "Jmp", "JmpIfNeg",
             "JmpTable", "GetGlobal", "SetGlobal", "GetState", "SetState", "PushStatePos", "PopStatePos", "Delay", "Mem",
             "AddF", "SubF", "MulF", "DivF", "ModF", "PowF", "Eq", "Ne", "Gt", "Ge", "Lt", "Le", "And", "Or",
             "NegF", "AbsF", "SqrtF", "SinF", "CosF", "LogF", "Not", "CastFtoI", "CastItoF",
             "CloneUserSum", "ReleaseUserSum",     # these two only on types without boxed references
             # the closure / upvalue / heap layer (Bvm/XModel.v)
             "Closure", "Close", "CallCls", "MakeHeapClosure", "CloseHeapClosure", "CloneHeap", "CallIndirect",
             "GetUpValue", "SetUpValue", "BoxAlloc", "BoxLoad", "BoxClone", "BoxRelease", "BoxStore",
             "AllocArray", "GetArrayElem", "SetArrayElem"}
# the instructions the verifier accepts: Bvm/XVerify.v covers every instruction the model covers; OLD_SUBSET is what the
# first verifier (Bvm/Verify.v) covered (statistics only)
VERIFIER_SUPPORTED = SUPPORTED
OLD_SUBSET = SUPPORTED - {"Closure", "Close", "CallCls", "MakeHeapClosure", "CloseHeapClosure", "CloneHeap", "CallIndirect",
                                  "GetUpValue", "SetUpValue", "BoxAlloc", "BoxLoad", "BoxClone", "BoxRelease", "BoxStore"}


# ------------------------------------------------------------------------------------------------
# the instruction set of the source against the model's (a new / changed variant must be noticed)
# ------------------------------------------------------------------------------------------------
def source_instruction_set(repo):
    src = open(os.path.join(repo, "crates/lib/mimium-lang/src/runtime/vm/bytecode.rs")).read()
    m = re.search(r"pub enum Instruction \{(.*?)\n\}", src, re.S)
    if not m:
        raise RuntimeError("bytecode.rs: `pub enum Instruction` not found")
    body = re.sub(r"//[^\n]*", "", m.group(1))
    out = {}
    for name, args in re.findall(r"\b([A-Z]\w*)\s*(\([^)]*\))?\s*,", body):
        out[name] = 0 if not args else len([a for a in args.strip("()").split(",") if a.strip()])
    return out


def pin_instruction_set():
    """[] when bytecode.rs declares exactly the variants (and operand counts) Bvm/Model.v transcribes"""
    try:
        src = source_instruction_set(vplib.REPO)
    except Exception as ex:
        return ["cannot read the instruction set: %s" % ex]
    bad = []
    for k in sorted(set(src) | set(MODEL_INSTRS)):
        if src.get(k) != MODEL_INSTRS.get(k):
            bad.append("%s: source has %s operand(s), model has %s" % (k, src.get(k, "no such variant"), MODEL_INSTRS.get(k, "no such variant")))
    model_v = vplib.strip_coq_comments(open(os.path.join(vplib.COQ, "theories", "Bvm", "Model.v")).read())
    m = re.search(r"Inductive instr : Type :=(.*?)\.\n", model_v, re.S)
    ctors = set(re.findall(r"\|\s*(\w+)", m.group(1))) if m else set()
    ren = {"Eq": "CmpEq", "Ne": "CmpNe", "Gt": "CmpGt", "Ge": "CmpGe", "Lt": "CmpLt", "Le": "CmpLe"}
    want = {ren.get(k, k) for k in MODEL_INSTRS}
    if ctors != want:
        bad.append("Bvm/Model.v `instr` constructors differ from the pinned list: %s" % sorted(ctors ^ want))
    return bad


# ------------------------------------------------------------------------------------------------
# dump -> case line of the model driver
# ------------------------------------------------------------------------------------------------
def infer_pwords(prog):
    """words of the parameters per function when the dump has no annotation: the smallest argument count of a call
    site that names the function through a MoveConst/Move chain in straight-line code (else nparam)."""
    funs = prog["funs"]
    best = {}
    for f in funs:
        regs = {}
        for ins in f["code"]:
            op = ins[0]
            if op == "MoveConst" and ins[2] < len(f["consts"]):
                regs[ins[1]] = f["consts"][ins[2]]
            elif op == "Move":
                if ins[2] in regs:
                    regs[ins[1]] = regs[ins[2]]
                else:
                    regs.pop(ins[1], None)
            elif op == "Call":
                k = regs.get(ins[1])
                if k is not None and k < len(funs):
                    best[k] = min(best.get(k, 1 << 30), ins[2])
                for r in [r for r in regs if r >= ins[1]]:
                    regs.pop(r)
            elif len(ins) > 1 and isinstance(ins[1], int):
                regs.pop(ins[1], None)
    return [best.get(i, f["nparam"]) for i, f in enumerate(funs)]


def elem_width_hints(f):
    """the untrusted annotation f_ew of Bvm/Model.v: [(pc, element width in words)] for the GetArrayElem / SetArrayElem
    instructions of one dumped function.  GetArrayElem: the widths of the MIR GetArrayElem instructions in order (`gaw` of the
    dump: the type the compiler had in hand when it emitted the instruction); SetArrayElem (emitted only while an array
    literal is filled): the element size of the closest preceding AllocArray into the same register.  A missing or wrong
    hint cannot make the verifier accept unsafe bytecode: the instrumented semantics checks it (DynElemWidth)."""
    out = []
    gaw = f.get("gaw")
    gets = [pc for pc, ins in enumerate(f["code"]) if ins[0] == "GetArrayElem"]
    if gaw is not None and len(gaw) == len(gets):
        out += list(zip(gets, gaw))
    else:
        out += [(pc, 1) for pc in gets]         # no annotation in the dump: guess one word (checked at run time like any hint)
    for pc, ins in enumerate(f["code"]):
        if ins[0] == "SetArrayElem":
            for q in range(pc - 1, -1, -1):
                c = f["code"][q]
                if c[0] == "AllocArray" and c[1] == ins[1]:
                    out.append((pc, c[3]))
                    break
    return sorted(out)


def instr_tokens(ins):
    op = ins[0]
    if op not in MODEL_INSTRS or len(ins) - 1 != MODEL_INSTRS[op] or not all(isinstance(a, int) for a in ins[1:]):
        raise ValueError("instruction the model does not know: %r" % (ins,))
    return [op] + [str(a) for a in ins[1:]]


def prog_tokens(prog):
    toks = [str(len(prog["funs"]))]
    io = prog.get("io")
    pw_fallback = None
    for i, f in enumerate(prog["funs"]):
        pw = f.get("pwords")
        if pw is None:
            if pw_fallback is None:
                pw_fallback = infer_pwords(prog)
            pw = pw_fallback[i]
        toks += [str(pw), str(f["nparam"]), str(f["nret"]), str(f["ssize"]), str(len(f["code"]))]
        for ins in f["code"]:
            toks += instr_tokens(ins)
        toks.append(str(len(f["consts"])))
        toks += [str(c) for c in f["consts"]]
        toks.append(str(len(f["jump_tables"])))
        for t in f["jump_tables"]:
            toks += [str(t["min"]), str(len(t["offsets"]))] + [str(o) for o in t["offsets"]]
        ups = f.get("up", [])
        toks.append(str(len(ups)))
        for u in ups:
            toks += [str(u[0]), str(u[1]), "1" if u[2] else "0"]
        ew = elem_width_hints(f)
        toks.append(str(len(ew)))
        for pc, w in ew:
            toks += [str(pc), str(w)]
    toks.append(str(sum(prog["globals"])))
    toks.append(str(len(prog["ext"])))
    for name in prog["ext"]:
        code, ar = ext_code(name)
        toks += [str(code), str(ar)]
    toks.append(str(prog["dsp"] if prog["dsp"] is not None else -1))
    tp = prog.get("types_plain", [])
    toks.append(str(len(tp)))
    toks += ["1" if b else "0" for b in tp]
    trees = prog.get("types", [])
    toks.append(str(len(trees)))
    for t in trees:
        toks += type_tokens(t)
    return toks


def type_tokens(t):
    """["P"] | ["B", inner] | ["S", name, [payload|null..]] | ["T", [[size, elem]..]] | ["A", name] in prefix notation"""
    k = t[0]
    if k == "P":
        return ["P"]
    if k == "B":
        return ["B"] + type_tokens(t[1])
    if k == "A":
        return ["A", str(t[1])]
    if k == "S":
        out = ["S", str(t[1]), str(len(t[2]))]
        for v in t[2]:
            out += ["0"] if v is None else ["1"] + type_tokens(v)
        return out
    if k == "T":
        out = ["T", str(len(t[1]))]
        for sz, e in t[1]:
            out += [str(sz)] + type_tokens(e)
        return out
    raise ValueError("type tree the model does not know: %r" % (t,))


def f2bits(x):
    return struct.unpack("<Q", struct.pack("<d", float(x)))[0]


def case_line(cid, prog, rows, nsamples, do_verify=True, do_run=True, fuel=FUEL):
    toks = [str(cid)] + prog_tokens(prog) + [str(fuel), "1" if do_verify else "0", "1" if do_run else "0", str(nsamples)]
    for t in range(nsamples):
        r = rows[t] if t < len(rows) else []
        toks += [str(f2bits(float(t))), str(len(r))] + [str(f2bits(v)) for v in r]
    return " ".join(toks)


def used_instrs(prog):
    return {ins[0] for f in prog["funs"] for ins in f["code"]}


def outside_subset(prog, supported=None):
    """names of the instructions / external functions of this program the model (default) / the verifier gives no meaning to"""
    out = sorted(used_instrs(prog) - (SUPPORTED if supported is None else supported))
    tp = prog.get("types_plain", [])
    for f in prog["funs"]:
        for ins in f["code"]:
            if ins[0] in ("CloneUserSum", "ReleaseUserSum") and not (ins[3] < len(tp) and tp[ins[3]]) \
                    and not ins[3] < len(prog.get("types", [])) and "boxed-sum-type" not in out:
                out.append("boxed-sum-type")
    if "CallExtFun" in used_instrs(prog):
        verifier = supported is not None and "AllocArray" not in supported       # the verifier knows no array builtin
        out += sorted("ext:" + n for n in prog["ext"] if ext_code(n)[0] == 255 or (verifier and ext_code(n)[0] >= 200))
    return out


# ------------------------------------------------------------------------------------------------
# answers of the model driver
# ------------------------------------------------------------------------------------------------
def parse_outcome(s):
    t = s.split()
    if not t:
        return None
    if t[0] == "R":
        o = t.index("O")
        w = t.index("W")
        c = t.index("C")
        return {"kind": "ret", "n": int(t[1]), "pos": int(t[2]), "out": [int(x) for x in t[o + 1:w]], "words": [int(x) for x in t[w + 1:c]],
                "ncls": int(t[c + 1]), "nheap": int(t[c + 2])}
    if t[0] == "F":
        return {"kind": "fault", "what": t[1]}
    if t[0] == "U":
        return {"kind": "unsupported", "what": t[1]}
    if t[0] == "T":
        return {"kind": "fuel"}
    if t[0] == "D":
        return {"kind": "due"}
    return {"kind": "?", "what": s}


def verdict_fields(detail):
    """'B <n|-> S <stop>' of an accepted program -> (fuel bound or None, where the instrumented semantics stopped or '-')"""
    t = (detail or "").split()
    bound, stop = None, None
    if "B" in t and t.index("B") + 1 < len(t) and t[t.index("B") + 1] != "-":
        bound = int(t[t.index("B") + 1])
    if "S" in t:
        stop = " ".join(t[t.index("S") + 1:])
    return bound, stop


def dyn_stop(stop):
    """the instrumented semantics may stop only with a fault of the dynamic class or out of fuel"""
    return stop is None or stop == "-" or stop == "T" or stop.startswith("F Dyn")


def parse_answer(line):
    """'#id V .. | main ; s0 ; s1' -> dict(id, verdict, detail, main, samples) or dict(id, error)"""
    m = re.match(r"#(\S+) (.*)$", line)
    if not m:
        return {"id": None, "error": line}
    cid, rest = m.group(1), m.group(2)
    if rest.startswith("!input-error"):
        return {"id": cid, "error": rest}
    head, _, tail = rest.partition("|")
    ht = head.split()
    res = {"id": cid, "verdict": ht[1] if len(ht) > 1 else "-", "detail": " ".join(ht[2:]), "main": None, "samples": []}
    if "!input-error" in tail:
        res["error"] = tail.strip()
        return res
    parts = [x.strip() for x in tail.split(";")]
    if parts and parts[0]:
        res["main"] = parse_outcome(parts[0])
        res["samples"] = [parse_outcome(x) for x in parts[1:] if x]
    return res


def run_model(exe, lines, timeout=1200):
    if not lines:
        return []
    import concurrent.futures
    shards = min(vplib.NPROC, max(1, len(lines) // 40))
    chunks = [lines[i::shards] for i in range(shards)]

    def work(ch):
        pr = subprocess.run([exe], input="\n".join(ch) + "\n", stdout=subprocess.PIPE, stderr=subprocess.PIPE, text=True, timeout=timeout)
        out = [l for l in pr.stdout.split("\n") if l.startswith("#")]
        if pr.returncode != 0 or len(out) != len(ch):
            raise RuntimeError("model driver failed rc=%s answers=%d/%d: %s" % (pr.returncode, len(out), len(ch), (pr.stderr or pr.stdout)[-400:]))
        return out
    with concurrent.futures.ThreadPoolExecutor(max_workers=shards) as ex:
        outs = list(ex.map(work, chunks))
    res = [None] * len(lines)
    for s, o in enumerate(outs):
        for j, l in enumerate(o):
            res[s + j * shards] = parse_answer(l)
    return res


# ------------------------------------------------------------------------------------------------
# comparison of one case:  real VM (dump) vs model
# ------------------------------------------------------------------------------------------------
def bits_of_hex(h):
    return None if h == "NaN" else int(h, 16)


def is_nan_bits(w):
    return (w >> 52) & 0x7ff == 0x7ff and (w & ((1 << 52) - 1)) != 0


def compare(dump, ans):
    """None when the model agrees with the real VM on this case, else a short description.
    Returns ('skip', why) for cases outside the model."""
    if "error" in ans:
        return "model driver rejected the dump: " + ans["error"]
    vm_main = dump.get("main")
    mm = ans.get("main")
    if mm is None:
        return None
    if mm["kind"] == "unsupported":
        return ("skip", "main:" + mm["what"])
    if vm_main is None:
        return None
    if "panic" in vm_main:
        if mm["kind"] in ("fault",):
            return None
        return "real VM panicked in main (%s), model: %s" % (vm_main["panic"][:80], mm["kind"])
    if mm["kind"] == "fault":
        return "model faults in main (%s), the real VM does not" % mm["what"]
    if mm["kind"] == "fuel":
        return ("skip", "main:fuel")
    if mm["pos"] != vm_main["pos"]:
        return "cursor after main: vm %s model %s" % (vm_main["pos"], mm["pos"])
    if vm_main["words"] != mm["words"]:
        return "state words after main differ"
    if "ncls" in vm_main and (vm_main["ncls"], vm_main["nheap"]) != (mm["ncls"], mm["nheap"]):
        return "after main: closures.len()/heap.len() vm %s/%s model %s/%s" % (vm_main["ncls"], vm_main["nheap"], mm["ncls"], mm["nheap"])
    vs = dump.get("samples", [])
    ms = ans.get("samples", [])
    for t, v in enumerate(vs):
        if t >= len(ms):
            return "model produced %d samples, vm %d" % (len(ms), len(vs))
        m = ms[t]
        if m["kind"] == "unsupported":
            return ("skip", "dsp:" + m["what"])
        if m["kind"] == "fuel":
            return ("skip", "dsp:fuel")
        if m["kind"] == "due":
            # a task queued by _mimium_schedule_at is due: the scheduler plugin runs it before dsp, the model has no task queue
            return ("skip", "dsp:task-due@%d" % t)
        if "panic" in v:
            if m["kind"] == "fault":
                return None
            return "sample %d: real VM panicked (%s), model: %s" % (t, v["panic"][:80], m["kind"])
        if m["kind"] == "fault":
            return "sample %d: model faults (%s), the real VM does not" % (t, m["what"])
        vout = [bits_of_hex(h) for h in v["out"]]
        mout = m["out"]
        if v["rc"] != m["n"]:
            return "sample %d: return code vm %s model %s" % (t, v["rc"], m["n"])
        if len(vout) != len(mout) or any((a is None) != is_nan_bits(b) if a is None else a != b for a, b in zip(vout, mout)):
            return "sample %d: outputs vm %s model %s" % (t, v["out"], ["%016x" % b for b in mout])
        if v["pos"] != m["pos"]:
            return "sample %d: cursor vm %s model %s" % (t, v["pos"], m["pos"])
        if v["words"] != m["words"]:
            d = [i for i, (a, b) in enumerate(zip(v["words"], m["words"])) if a != b]
            return "sample %d: state words differ (lengths %d/%d, first at %s)" % (t, len(v["words"]), len(m["words"]), d[:1])
        if "ncls" in v and (v["ncls"], v["nheap"]) != (m["ncls"], m["nheap"]):
            return "sample %d: closures.len()/heap.len() vm %s/%s model %s/%s" % (t, v["ncls"], v["nheap"], m["ncls"], m["nheap"])
    return None


# ------------------------------------------------------------------------------------------------
# programs
# ------------------------------------------------------------------------------------------------
def gen_sources(rng, n, nsamples):
    """generated first-order stateful programs (lib/lmmm.py generator) as requests for bc_dump"""
    reqs = []
    for i in range(n):
        r = rng.fork(("gen", i))
        g = lmmm.Gen(r, stateful_arms=(i % 4 == 3), max_funs=r.choice([1, 2, 3, 4, 5]), depth=r.choice([2, 3, 3, 4, 4, 5]),
                     block_lets=(i % 3 == 1))
        p = g.program()
        rows = lmmm.gen_inputs(r.fork("in"), nsamples, len(p["inputs"]))
        reqs.append({"kind": "gen", "src": lmmm.pp_prog(p), "n": nsamples, "inputs": rows})
    return reqs


def gen_float_source(rng):
    """real-valued programs: arbitrary float literals, division, modulo, powers, transcendental builtins, tuple-valued
    parameters and results (MoveRange, several words per argument), global variables (GetGlobal/SetGlobal), stateful
    constructs inside if arms, several delays of different sizes per function"""
    r = rng
    lits = ["0.1", "3.7", "(-2.25)", "1000.0", "0.001", "2.0", "0.5", "(-1.0)", "7.0", "1.5", "0.0", "440.0", "3.14159"]
    un = ["sin", "cos", "sqrt", "abs", "log", "floor", "ceil", "round", "atan", "tanh"]
    bi = ["+", "-", "*", "/", "%", "^", ">", "<", ">=", "<=", "==", "!=", "&&", "||"]
    fn2 = ["min", "max", "pow", "atan2"]

    def ex(d, vars_, funs, in_fun, stateful=True):
        c = r.below(22)
        if d <= 0 or c < 3:
            k = r.below(8)
            if k < 3 and vars_:
                return r.choice(vars_)
            if k == 3:
                return "now"
            if k == 4 and in_fun and stateful:
                return "self"
            if k == 5:
                return "samplerate"
            return r.choice(lits)
        sub = lambda: ex(d - 1, vars_, funs, in_fun, stateful)
        if c < 9:
            return "(%s %s %s)" % (sub(), r.choice(bi), sub())
        if c < 11:
            return "%s(%s)" % (r.choice(un), sub())
        if c < 12:
            return "%s(%s, %s)" % (r.choice(fn2), sub(), sub())
        if c < 13:
            return "(-(%s))" % sub()
        if c < 14:
            return "not(%s)" % sub()
        if c < 16:
            return "(if (%s) { %s } else { %s })" % (sub(), sub(), sub())
        if c < 18 and funs:
            name, shape = r.choice(funs)
            args = []
            for sh in shape:
                args.append(sub() if sh == 1 else "(" + ", ".join(sub() for _ in range(sh)) + ")")
            return "%s(%s)" % (name, ", ".join(args))
        if not stateful:
            return r.choice(lits)
        if c < 20:
            return "mem(%s)" % sub()
        return "delay(%d.0, %s, %s)" % (r.range(1, 9), sub(), r.choice(["0.0", "1.0", "2.0", "3.5", "now % 4.0", "(-1.0)", "100.0"]))

    lines = []
    gl = []
    for k in range(r.below(3)):
        if r.chance(1, 3):
            lines.append("let gt%d = (%s, %s)" % (k, r.choice(lits), r.choice(lits)))
            gl.append(("gt%d" % k, 2))
        else:
            lines.append("let g%d = %s" % (k, r.choice(lits)))
            gl.append(("g%d" % k, 1))
    funs = []     # (name, [words per parameter])  -- float-valued
    tfuns = []    # tuple-valued functions (name, shape, result words)
    for k in range(r.below(4)):
        shape = [r.choice([1, 1, 1, 2, 3]) for _ in range(r.below(4))]
        ps, pre, vars_ = [], [], [g for g, w in gl if w == 1]
        for j, sh in enumerate(shape):
            if sh == 1:
                ps.append("p%d" % j)
                vars_.append("p%d" % j)
            else:
                ps.append("p%d:(%s)" % (j, ",".join(["float"] * sh)))
                names = ["p%d_%d" % (j, i) for i in range(sh)]
                pre.append("  let (%s) = p%d" % (", ".join(names), j))
                vars_ += names
        body = list(pre)
        for j in range(r.below(3)):
            body.append("  let l%d = %s" % (j, ex(r.range(1, 3), vars_, funs, True)))
            vars_.append("l%d" % j)
        if r.chance(1, 4):
            nres = r.range(2, 3)
            body.append("  (" + ", ".join(ex(r.range(1, 3), vars_, funs, True, stateful=False) for _ in range(nres)) + ")")
            lines.append("fn t%d(%s){\n%s\n}" % (k, ", ".join(ps), "\n".join(body)))
            tfuns.append(("t%d" % k, shape, nres))
        else:
            body.append("  " + ex(r.range(1, 4), vars_, funs, True))
            lines.append("fn f%d(%s){\n%s\n}" % (k, ", ".join(ps), "\n".join(body)))
            funs.append(("f%d" % k, shape))
    body, vars_ = [], [g for g, w in gl if w == 1]
    for g, w in gl:
        if w == 2 and r.chance(2, 3):
            body.append("  let (%s_a, %s_b) = %s" % (g, g, g))
            vars_ += [g + "_a", g + "_b"]
    for (name, shape, nres) in tfuns:
        args = [ex(1, vars_, funs, False) if sh == 1 else "(" + ", ".join(ex(1, vars_, funs, False) for _ in range(sh)) + ")" for sh in shape]
        names = ["%s_r%d" % (name, i) for i in range(nres)]
        body.append("  let (%s) = %s(%s)" % (", ".join(names), name, ", ".join(args)))
        vars_ += names
    for j in range(r.below(3)):
        body.append("  let d%d = %s" % (j, ex(r.range(1, 3), vars_, funs, False)))
        vars_.append("d%d" % j)
    nout = r.choice([1, 1, 2, 3, 4])
    outs = [ex(r.range(1, 4), vars_, funs, False) for _ in range(nout)]
    body.append("  " + (outs[0] if nout == 1 else "(" + ", ".join(outs) + ")"))
    lines.append("fn dsp(){\n%s\n}" % "\n".join(body))
    return "\n".join(lines) + "\n"


FLOAT_SNIPPETS = [
    "fn dsp(){ sin(now * 0.1) * 0.5 + cos(now / 3.0) }",
    "fn osc(f){ (self + f / samplerate) % 1.0 }\nfn dsp(){ sin(osc(440.0) * 6.2831853) }",
    "fn lp(x, a){ x * (1.0 - a) + self * a }\nfn dsp(){ (lp(now % 7.0, 0.9), sqrt(abs(now - 3.5)), pow(2.0, now % 5.0)) }",
    "fn dsp(){ (log(now + 1.0), -(now), 1.5 ^ (now % 4.0), min(now, 2.5), max(now, 2.5)) }",
    "fn f(x){ if (x > 2.0 && x < 6.0 || x == 8.0) delay(5.0, x, 2.0) else mem(x) * 0.5 }\nfn dsp(){ f(now) + f(now * 2.0) }",
    "let g = 3.0\nfn dsp(){ g * now + mem(g) }",
    "let g = 3.0\nlet h = (1.0, 2.0)\nfn dsp(){ let (a, b) = h\n g * now + a - b }",
    "fn t(x){ (x, x + 1.0, x * 2.0) }\nfn dsp(){ let (a, b, c) = t(now)\n (a + c, b) }",
    "fn dsp(x){ x * 2.0 + mem(x) }",
    "fn dsp(){ floor(now / 3.0) + ceil(now / 4.0) + round(now / 5.0) }",
    "fn dsp(){ !(now > 3.0) + (now >= 2.0) + (now <= 5.0) + (now != 4.0) }",
    "fn cnt(){ self + 1.0 }\nfn dsp(){ let c = cnt()\n if (c > 3.0) { cnt() * 10.0 } else { 0.0 } }",
    "fn dsp(){ match (now % 3.0) { 0 => 10.0, 1 => mem(now), _ => delay(3.0, now, 1.0) } }",
]


def fixed_sources(nsamples):
    return [{"kind": "fixed", "src": s, "n": nsamples, "inputs": [[float(t)] for t in range(nsamples)] if "dsp(x)" in s else []}
            for s in FLOAT_SNIPPETS]


def corpus_sources(nsamples):
    d = os.path.join(VERIF, "corpus", "C03", "bvm")
    out = []
    for f in sorted(glob.glob(os.path.join(d, "*.mmm"))):
        rq = {"kind": "corpus:" + os.path.basename(f), "src": open(f).read(), "n": nsamples, "sched": True}
        side = f[:-4] + ".inputs.json"          # optional: the dsp input rows of the witness
        if os.path.exists(side):
            rq["inputs"] = json.load(open(side))
        out.append(rq)
    return out


CLOSURE_SNIPPETS = [
    "fn mk(n){ |x| { n + x + mem(x) } }\nfn dsp(){ let f = mk(3.0)\n let y = 2.0\n let g = | | { y = y + 1.0\n y }\n f(now) + g() }",
    "fn adder(n){ |x| x + n }\nlet add3 = adder(3.0)\nfn dsp(){ add3(now) }",
    "fn counter(){ let c = 0.0\n | | { c = c + 1.0\n c } }\nlet k = counter()\nfn dsp(){ k() + k() }",
    "fn twice(f, x){ f(f(x)) }\nfn dsp(){ twice(|v| v * 2.0, now) + twice(sin, now) }",
    "fn osc(f){ (self + f) % 1.0 }\nfn run(g){ g(0.25) }\nfn dsp(){ run(osc) + run(|q| { mem(q) + q }) }",
    "fn dsp(){ let a = now\n let f = |x| { let g = |y| { a + x + y }\n g(1.0) }\n f(2.0) }",
    "fn compose(f, g){ |x| g(f(x)) }\nlet h = compose(|x| x + 1.0, |x| x * 3.0)\nfn dsp(){ h(now) }",
    "fn dsp(){ let (p, q) = (|x| x + 1.0, |x| x - 1.0)\n p(q(now)) }",
    "fn dsp(){ let v = 4.0\n (|q| { if (q) { let t = (v, v, v)\n t.0 * t.2 } else { v + v } })(now) }",
    "fn mk(){ let s = 0.0\n (| | { s = s + 1.0\n s }, | | { s = s + 10.0\n s }) }\nlet (i1, i10) = mk()\nfn dsp(){ i1() + i10() }",
]


def closure_sources(rng, n, nsamples):
    """programs with closures: the generators of C12 (closure / heap life cycle snippets), lib/lmmx_gen.py (closures, HOF,
    pipes, defaults, tuples, records) and C18 (XGen), plus fixed snippets"""
    import importlib
    import lmmx, lmmx_gen
    here = os.path.dirname(os.path.abspath(__file__))
    if here not in sys.path:
        sys.path.insert(0, here)
    C12 = importlib.import_module("C12")
    C18 = importlib.import_module("C18")
    reqs = [{"kind": "closure-fixed", "src": s, "n": nsamples} for s in CLOSURE_SNIPPETS]
    for i in range(n):
        g = C12.gen_program(rng.fork(("c12", i)))
        reqs.append({"kind": "c12gen", "src": g["src"], "n": nsamples, "sched": True})
    for (p, rows, _dyn) in lmmx_gen.gen_cases(rng.fork("lmmx"), n, nsamples):
        reqs.append({"kind": "lmmxgen", "src": lmmx.pp_prog(p), "n": nsamples, "inputs": rows})
    # the same generator with sum types, match and wide (tuple / record / sum-typed) self
    for (p, rows, _dyn) in lmmx_gen.gen_cases(rng.fork("lmmx-ext"), n, nsamples, ext=True):
        reqs.append({"kind": "lmmxext", "src": lmmx.pp_prog(p), "n": nsamples, "inputs": rows})
    for i in range(n):
        r = rng.fork(("c18", i))
        src, has_in = C18.XGen(r).program()
        rin = r.fork("in")
        reqs.append({"kind": "c18gen", "src": src, "n": nsamples,
                     "inputs": [[rin.choice(C18.XIN)] for _ in range(nsamples)] if has_in else []})
    return reqs


def shipped_sources(nsamples):
    R = vplib.REPO
    files = sorted(glob.glob(R + "/examples/*.mmm") + glob.glob(R + "/lib/*.mmm") + glob.glob(R + "/crates/lib/mimium-test/tests/mmm/*.mmm"))
    out = []
    for f in files:
        if os.path.basename(f) in ("scheduler_invalid.mmm",):
            continue
        out.append({"kind": "file:" + os.path.relpath(f, R), "src": open(f).read(), "path": f, "n": nsamples, "sched": True})
    return out


# ------------------------------------------------------------------------------------------------
# classification of a rejection
# ------------------------------------------------------------------------------------------------
# a call that passes fewer argument words than the callee has parameter words in a program that uses default
# parameter values; reported under C03/F37 (same panic site) when KNOWN_FINDINGS.txt lists that id
KNOWN_CLASS = "bvm-default-param-call-fewer-arg-words"


def known_regs_before(f, pc):
    """registers holding a known constant right before instruction pc of f (straight-line scan from the entry)"""
    regs = {}
    for ins in f["code"][:pc]:
        op = ins[0]
        if op == "MoveConst" and ins[2] < len(f["consts"]):
            regs[ins[1]] = f["consts"][ins[2]]
        elif op == "Move":
            if ins[2] in regs:
                regs[ins[1]] = regs[ins[2]]
            else:
                regs.pop(ins[1], None)
        elif op in ("Call", "CallExtFun"):
            for r in [r for r in regs if r >= ins[1]]:
                regs.pop(r)
        elif op in ("Jmp", "JmpIfNeg", "JmpTable", "SetState", "SetGlobal", "PushStatePos", "PopStatePos", "Return", "Return0"):
            pass
        elif len(ins) > 1:
            n = ins[3] if op in ("MoveRange", "GetGlobal") else (ins[2] if op == "GetState" else 1)
            for r in range(ins[1], ins[1] + max(n, 1)):
                regs.pop(r, None)
    return regs


def rejection_site(prog, detail):
    """(function index, pc, instruction) of the verifier's first failing check, or None"""
    d = detail.split()
    if len(d) == 4 and d[0] == "fn" and d[2] == "pc":
        fi, pc = int(d[1]), int(d[3])
        f = prog["funs"][fi]
        return fi, pc, (f["code"][pc] if pc < len(f["code"]) else None)
    return None


KNOWN_CLASS_UNIT = "bvm-unit-value-used-as-number"


def unit_operand_class(prog, detail):
    """KNOWN_CLASS_UNIT when the first failing check is an instruction that reads the register in which a preceding call
    with ZERO result words would have left its result: the type checker accepted a unit value as an operand
    (2.0 ^ u(1.0) with fn u(x){ let a = x }); the VM reads past the end of the stack there."""
    site = rejection_site(prog, detail)
    if not site or not site[2]:
        return None
    fi, pc, ins = site
    code = prog["funs"][fi]["code"]
    if ins[0] in ("Call", "CallExtFun", "Jmp", "JmpIfNeg", "JmpTable", "PushStatePos", "PopStatePos", "Return0"):
        return None
    srcs = set(ins[2:]) if ins[0] not in ("SetState", "SetGlobal", "Return") else {ins[1]} | ({ins[2]} if ins[0] == "SetGlobal" else set())
    for q in range(pc - 1, max(-1, pc - 12), -1):
        c = code[q]
        if c[0] in ("Call", "CallExtFun"):
            return KNOWN_CLASS_UNIT if (c[3] == 0 and c[1] in srcs) else None
    return None


# (the class "bvm-constructor-pattern-on-number" of C03/T8 is gone: the type checker rejects a constructor pattern on a number
# since the repair of T8; the former witness is corpus/C03/bvm/rejected_t8_constructor_pattern_on_number.mmm, which must not compile)


def rejection_class(prog, detail):
    """KNOWN_CLASS when the first failing check is a Call that passes fewer argument words than the callee has
    parameter words (the callee then reads above what the caller prepared); else None"""
    site = rejection_site(prog, detail)
    if not site or not site[2] or site[2][0] != "Call":
        return None
    fi, pc, ins = site
    f = prog["funs"][fi]
    k = known_regs_before(f, pc).get(ins[1])
    if k is None or k >= len(prog["funs"]):
        return None
    pw = prog["funs"][k].get("pwords")
    if pw is None:
        return None
    # the finding concerns parameters with default values: bytecodegen emits a function `__default_<k>_<name>` for each
    has_defaults = any(g["name"].startswith("__default_") for g in prog["funs"])
    return KNOWN_CLASS if (ins[2] < pw and has_defaults) else None


# ------------------------------------------------------------------------------------------------
# the part
# ------------------------------------------------------------------------------------------------
def prove_part(ck):
    """builds Props/C03_bvm.vo (full proofs) and audits Print Assumptions of every theorem; [] when all is well"""
    if os.environ.get("VERIF_DEV_NOPROVE") == "1":
        return []
    bad = []
    rc, out, dt = vplib.coq_make([COQ_TARGETS[0]], timeout=1500)
    ck.coverage["bvm_coq_build_s"] = round(dt, 1)
    if rc != 0:
        return ["coq: " + vplib.first_coq_error(out).replace("\n", " | ")[:600]]
    hits = [h for h in vplib.coq_audit_sources() if "/Bvm/" in h or "C03_bvm" in h or "BvmExtract" in h]
    if hits:
        bad.append("audit: forbidden construct: " + "; ".join(hits[:5]))
    thms, exs = vplib.props_theorems(PROPS)
    ck.coverage["bvm_theorems"] = thms
    ck.coverage["bvm_examples"] = exs
    try:
        ax = vplib.coq_print_assumptions(PROPS, thms + exs)
    except RuntimeError as ex:
        return bad + ["audit: " + str(ex)[:400]]
    open_ = {k: v for k, v in ax.items() if v}
    if open_ or set(ax) != set(thms + exs):
        bad.append("audit: theorems of Props/C03_bvm.v are not closed under the global context: %r" % open_)
    ck.coverage["bvm_print_assumptions"] = {k: (v or ["Closed under the global context"]) for k, v in ax.items()}
    ck.obligations += len(thms) + len(exs)
    if not bad:
        ck.discharged += len(thms) + len(exs)
    return bad


def property_on_vm(dump, prog):
    """C03's clauses evaluated on the answers of the REAL VM for a program the verifier accepted
    (None = holds): no panic, return code and output words = dsp's declared words, storage = published size, cursor 0."""
    if prog["dsp"] is None:
        return None
    f = prog["funs"][prog["dsp"]]
    mn = dump.get("main")
    if mn is None:
        return None
    if "panic" in mn:
        return "the real VM panics in main: " + mn["panic"][:120]
    if mn["pos"] != 0:
        return "state cursor after main is %s, not 0" % mn["pos"]
    for t, s in enumerate(dump.get("samples", [])):
        if "panic" in s:
            return "the real VM panics at sample %d: %s" % (t, s["panic"][:120])
        if s["rc"] != f["nret"]:
            return "sample %d: dsp returned %s words, its prototype declares %s" % (t, s["rc"], f["nret"])
        if prog.get("io") and len(s["out"]) != prog["io"][1]:
            return "sample %d: %d output words, the program declares %s channels" % (t, len(s["out"]), prog["io"][1])
        if s["pos"] != 0:
            return "sample %d: state cursor is %s after the dsp call, not 0" % (t, s["pos"])
        if len(s["words"]) != f["ssize"]:
            return "sample %d: state storage has %d words, dsp's skeleton publishes %s" % (t, len(s["words"]), f["ssize"])
    return None


def dump_well_formed(r):
    """the harness answered with the structure bc_dump.rs documents (a process whose heap the real VM has corrupted
    may print anything)"""
    try:
        pr = r["prog"]
        if not isinstance(pr["funs"], list) or not isinstance(pr["globals"], list) or not isinstance(pr["ext"], list):
            return False
        if not (pr["dsp"] is None or (isinstance(pr["dsp"], int) and 0 <= pr["dsp"] < len(pr["funs"]))):
            return False
        for f in pr["funs"]:
            for k in ("nparam", "nret", "ssize"):
                if not isinstance(f[k], int):
                    return False
            if not all(isinstance(c, int) for c in f["consts"]) or not isinstance(f["name"], str):
                return False
            for ins in f["code"]:
                instr_tokens(ins)
            for t in f["jump_tables"]:
                if not isinstance(t["min"], int) or not all(isinstance(o, int) for o in t["offsets"]):
                    return False
        if not all(isinstance(g, int) for g in pr["globals"]) or not all(isinstance(b, bool) for b in pr.get("types_plain", [])):
            return False
        for t in pr.get("types", []):
            type_tokens(t)
        mn = r.get("main")
        if mn is not None and "panic" not in mn:
            if not (isinstance(mn["pos"], int) and all(isinstance(w, int) for w in mn["words"])):
                return False
        for sm in r.get("samples", []):
            if "panic" in sm:
                continue
            if not (isinstance(sm["rc"], int) and isinstance(sm["pos"], int) and all(isinstance(w, int) for w in sm["words"])
                    and all(isinstance(h, str) and (h == "NaN" or len(h) == 16) for h in sm["out"])):
                return False
        return True
    except (KeyError, TypeError, ValueError, AttributeError, IndexError):
        return False


def run_part(ck, quick=True):
    """returns the violations of the bytecode part as (what, replay_obj); coverage in ck.coverage['bvm_*']"""
    t0 = time.time()
    viol = []
    for b in prove_part(ck):
        ck.broken.append("bvm: " + b)
        viol.append(("bytecode VM: proof obligation no longer checks: " + b, {"no_input": True}))
    for b in pin_instruction_set():
        viol.append(("bytecode VM: the instruction set of bytecode.rs is not the one Bvm/Model.v transcribes: " + b, {"no_input": True}))
    rc, out, _ = vplib.coq_make([COQ_TARGETS[1]], timeout=900)
    if rc != 0:
        return viol + [("bytecode VM: extraction of the model failed: " + vplib.first_coq_error(out)[:300], {"no_input": True})]
    rc, out, model = vplib.ocaml_build("bvm_drv", ["bvm_model"], os.path.join(VERIF, "ocaml", "bvm_drv.ml"))
    if rc != 0:
        return viol + [("bytecode VM: model driver does not build: " + out[-300:], {"no_input": True})]
    rc, out, bindir = vplib.cargo_build("lang", ["bc_dump"])
    if rc != 0:
        return viol + [("bytecode VM: harness bc_dump does not build: " + out[-400:], {"no_input": True})]
    impl = os.path.join(bindir, "bc_dump")
    t_build = time.time()

    rng = ck.rng.fork("bvm")
    ns = 8
    reqs = corpus_sources(ns) + fixed_sources(ns) + gen_sources(rng, 1200 if quick else 12000, ns)
    reqs += [{"kind": "match", "src": lmmm.gen_match_source(rng.fork(("match", i))), "n": ns} for i in range(250 if quick else 3000)]
    reqs += [{"kind": "float", "src": gen_float_source(rng.fork(("float", i))), "n": ns} for i in range(900 if quick else 9000)]
    reqs += closure_sources(rng.fork("closures"), 350 if quick else 3500, ns)
    reqs += shipped_sources(4 if quick else 16)
    res = lmmm.run_impl(impl, [{k: v for k, v in r.items() if k != "kind"} for r in reqs], timeout_per_batch=400)
    t_impl = time.time()

    cov = {"programs": len(reqs), "not_compiled": 0, "harness_crash": 0, "dumped": 0, "instructions": 0,
           "model_agrees": 0, "samples_compared": 0, "outside_subset": 0, "outside_subset_by": {},
           "inside_subset": 0, "accepted": 0, "rejected_known_class": 0, "no_dsp": 0,
           "accepted_shipped": 0, "inside_subset_shipped": 0, "dumped_shipped": 0, "vm_property_checked": 0,
           "verifier_covers_functions": 0, "out_of_fuel": 0, "witnesses_reproduced": 0,
           "with_fuel_bound": 0, "without_fuel_bound": 0, "max_fuel_bound": 0, "rejected_known_class_unit_operand": 0,
           "dump_garbled_in_shared_process": 0, "closure_programs": 0, "closure_programs_agree": 0,
           "inside_model_shipped": 0, "outside_model": 0,
           "outside_model_by": {}, "accepted_closure_programs": 0, "accepted_dynamic_stop": {},
           "sched_agrees_until_task_due": 0, "not_compared_by": {}, "array_programs": 0, "accepted_array_programs": 0,
           "sched_programs": 0, "accepted_sched_programs": 0, "ill_typed_witnesses_rejected": 0}
    cov["programs_by_kind"] = {}
    for rq in reqs:
        kd = rq["kind"].split(":")[0]
        cov["programs_by_kind"][kd] = cov["programs_by_kind"].get(kd, 0) + 1
    lines, idx = [], []
    for i, (rq, r) in enumerate(zip(reqs, res)):
        if r is None or "crash" in r:
            # the harness process died (abort / SIGSEGV / timeout of the real VM): take the dump without running it, so
            # that the model and the verifier still give their verdict (a death on ACCEPTED bytecode is a violation)
            cov["harness_crash"] += 1
            r3 = lmmm.run_impl(impl, [{**{k: v for k, v in rq.items() if k != "kind"}, "isolate": True, "run": False}], timeout_per_batch=120)[0]
            if r3 is None or "prog" not in r3 or not dump_well_formed(r3):
                continue
            r3["main"] = {"panic": "the harness process died while running this program: %s" % (None if r is None else r.get("crash"))}
            r = res[i] = r3
        if rq["kind"].startswith("corpus:rejected_"):
            # a repaired defect of the TYPE CHECKER (rejected_t8: a constructor pattern on a number was accepted and the bytecode
            # bound the payload from registers nothing had written): the program must be rejected with a diagnostic
            if "prog" in r or not r.get("compile"):
                viol.append(("bytecode VM: a repaired defect is back (%s): the compiler %s an ill-typed program that must be rejected with a diagnostic"
                             % (rq["kind"][7:], "emits bytecode for" if "prog" in r else "does not give a diagnostic for (%s)" % json.dumps(r)[:200]),
                             {"source": rq["src"], "kind": rq["kind"]}))
            else:
                cov["ill_typed_witnesses_rejected"] += 1
            continue
        if "prog" not in r:
            cov["not_compiled"] += 1
            continue
        if not dump_well_formed(r):
            # a malformed dump: either bytecode.rs changed, or an earlier request corrupted the harness process
            # (the real VM writes through raw pointers): ask again in a fresh process
            r2 = lmmm.run_impl(impl, [{**{k: v for k, v in rq.items() if k != "kind"}, "isolate": True}], timeout_per_batch=120)[0]
            cov["dump_garbled_in_shared_process"] += 1
            if r2 is not None and "crash" in r2:
                cov["harness_crash"] += 1
                continue
            if r2 is None or "prog" not in r2 or not dump_well_formed(r2):
                # running the program garbles the answer of its own process: take the dump without running it
                r3 = lmmm.run_impl(impl, [{**{k: v for k, v in rq.items() if k != "kind"}, "isolate": True, "run": False}], timeout_per_batch=120)[0]
                if r3 is not None and "prog" in r3 and dump_well_formed(r3):
                    r3["main"] = {"panic": "the harness process printed a garbled answer after running this program (memory corrupted by the real VM)"}
                    r2 = r3
            if r2 is None or "prog" not in r2 or not dump_well_formed(r2):
                viol.append(("bytecode VM: the dump of this program cannot be read by the model, also when the harness runs it alone "
                             "(instruction set changed, or the real VM corrupts the memory of its process)",
                             {"source": rq["src"], "kind": rq["kind"], "answer": json.dumps(r2)[:600]}))
                continue
            r = res[i] = r2
        nrun = len(r.get("samples", []))
        lines.append(case_line(i, r["prog"], rq.get("inputs", []), nrun, do_verify=True, do_run="main" in r))
        idx.append(i)
    try:
        ans = run_model(model, lines)
    except (RuntimeError, subprocess.TimeoutExpired) as ex:
        return viol + [("bytecode VM: model driver failed: %s" % str(ex)[:300], {"no_input": True})]
    t_model = time.time()
    known = {f["id"]: f for f in vplib.known_findings("C03")}
    reported = 0

    def report(what, i, a, extra=None):
        nonlocal reported
        reported += 1
        if reported > 6:
            return
        rq, r = reqs[i], res[i]
        obj = {"kind": rq["kind"], "source": rq["src"], "inputs": rq.get("inputs", []), "n": rq["n"],
               "verifier": {"verdict": a.get("verdict"), "first_failing_check": a.get("detail")},
               "real_vm": {"main": r.get("main"), "samples": r.get("samples", [])[:3]},
               "model": {"main": a.get("main"), "samples": a.get("samples", [])[:3]},
               "how": "echo '{\"src\":..,\"n\":8}' | .cache/target/lang/debug/bc_dump ; model: .cache/ocaml/bvm_drv/bvm_drv (checks/bvm_part.py case_line)"}
        if rq.get("path"):
            obj["path"] = rq["path"]
        site = rejection_site(r["prog"], a.get("detail", "")) if a.get("verdict") == "0" else None
        if site:
            obj["verifier"]["function"] = r["prog"]["funs"][site[0]]["name"]
            obj["verifier"]["instruction"] = site[2]
        if extra:
            obj.update(extra)
        viol.append((what, obj))

    for i, a in zip(idx, ans):
        rq, r = reqs[i], res[i]
        prog = r["prog"]
        shipped = rq["kind"].startswith("file:")
        cov["dumped"] += 1
        cov["dumped_shipped"] += shipped
        cov["instructions"] += sum(len(f["code"]) for f in prog["funs"])
        if "error" in a:
            report("bytecode VM: the model driver cannot read the dump: " + a["error"][:200], i, a)
            continue
        # (C) model = real VM
        c = compare(r, a)
        closure_prog = bool(used_instrs(prog) & (SUPPORTED - OLD_SUBSET))
        cov["closure_programs"] += closure_prog
        array_prog = bool(used_instrs(prog) & {"AllocArray", "GetArrayElem", "SetArrayElem"}) or \
            any(ext_code(n)[0] >= 200 and ext_code(n)[0] != 255 for n in prog["ext"])
        sched_prog = "_mimium_schedule_at" in prog["ext"]
        cov["array_programs"] += array_prog
        cov["sched_programs"] += sched_prog
        out_model = outside_subset(prog)
        if out_model:
            cov["outside_model"] += 1
            for o in out_model:
                cov["outside_model_by"][o] = cov["outside_model_by"].get(o, 0) + 1
        else:
            cov["inside_model_shipped"] += shipped
        if rq["kind"].startswith("corpus:fixed_"):
            # a repaired defect (fixed_f67: indexing an empty array re-executed the instruction: panic or hang; fixed_f66: an open
            # upvalue was read through a slice into a stack being reallocated): the real VM and the model both play the program
            # to the end and agree
            bad_vm = "panic" in (r.get("main") or {}) or any("panic" in sm for sm in r.get("samples", [])) or len(r.get("samples", [])) < rq["n"]
            bad_model = any(o and o["kind"] != "ret" for o in a.get("samples", []) + [a.get("main")])
            if bad_vm or bad_model or c is not None:
                report("bytecode VM: a repaired defect is back (%s): the real VM %s, the model %s" % (
                    rq["kind"][7:], "panics / stops" if bad_vm else "plays", "stops" if bad_model else "plays"), i, a)
                continue
            cov["fixed_witnesses_ok"] = cov.get("fixed_witnesses_ok", 0) + 1
        if c is None:
            cov["closure_programs_agree"] += closure_prog
            cov["model_agrees"] += 1
            cov["samples_compared"] += len(r.get("samples", []))
            if i % 97 == 5:
                ck.sample({"kind": rq["kind"], "source": rq["src"][:300], "verdict": a.get("verdict"),
                           "samples": len(r.get("samples", [])), "instructions": sum(len(f["code"]) for f in prog["funs"])})
        elif isinstance(c, tuple):
            if c[1].endswith("fuel"):
                cov["out_of_fuel"] += 1
            if c[1].startswith("dsp:task-due@"):
                # main and the samples before the first scheduled task is due agree (the model has no task queue)
                cov["sched_agrees_until_task_due"] += 1
                cov["samples_compared"] += int(c[1].split("@")[1])
            cov["not_compared_by"][c[1].split("@")[0]] = cov["not_compared_by"].get(c[1].split("@")[0], 0) + 1
        else:
            report("bytecode VM: model (Bvm/Model.v) and the real VM disagree on the compiler's bytecode: " + c, i, a)
            continue
        # (S) the verifier on the real bytecode
        out = outside_subset(prog, VERIFIER_SUPPORTED)
        if out:
            cov["outside_subset"] += 1
            for o in out:
                cov["outside_subset_by"][o] = cov["outside_subset_by"].get(o, 0) + 1
            continue
        if prog["dsp"] is None:
            cov["no_dsp"] += 1
            continue
        cov["inside_subset"] += 1
        cov["inside_subset_shipped"] += shipped
        if a.get("verdict") == "1":
            cov["accepted"] += 1
            cov["accepted_shipped"] += shipped
            cov["verifier_covers_functions"] += len(prog["funs"])
            cov["accepted_closure_programs"] += closure_prog
            cov["accepted_array_programs"] += array_prog
            cov["accepted_sched_programs"] += sched_prog
            bound, stop = verdict_fields(a.get("detail"))
            # the theorem, end to end: the extracted instrumented semantics on bytecode the extracted verifier accepts stops
            # only with a fault of the dynamic class (C03_bvm_closures_verified_safe_partial)
            if not dyn_stop(stop):
                report("bytecode VM: the extracted instrumented model stops with '%s' on bytecode its verifier accepts: theorem "
                       "C03_bvm_closures_verified_safe_partial and the extracted code no longer fit" % stop, i, a)
                continue
            model_outs = [o for o in a.get("samples", []) + [a.get("main")] if o]
            mfault = next((o for o in model_outs if o["kind"] in ("fault", "unsupported")), None)
            if stop in ("F DynSignature", "F DynReentry", "F DynCellWidth", "F DynElemWidth"):
                # checks only the instrumentation makes, about facts the COMPILER is responsible for (an indirect callee takes
                # the words the call site passes and returns the words it expects, a closure is not entered while its own state
                # storage is in use, a cell is as wide as the upindexes entry says, the array an element is read from / stored
                # into has the element width of the type the compiler had in hand): never seen on the unchanged compiler
                report("bytecode VM: bytecode the compiler emitted stops the instrumented semantics with %s (an indirect call / "
                       "upvalue / array element that does not fit its site): the real VM goes on with the wrong words" % stop[2:], i, a)
                continue
            if stop not in (None, "-"):
                # a dynamic check fired: a stale handle (C12's subject) or a write through an open upvalue
                cov["accepted_dynamic_stop"][stop] = cov["accepted_dynamic_stop"].get(stop, 0) + 1
                if mfault and not (mfault["kind"] == "fault" and mfault["what"].startswith("Dyn")):
                    # allowed only after a strict-only stop (then the two semantics may part, C03_bvm_strict_agrees)
                    if stop not in ("F DynSignature", "F DynReentry", "F DynOpenWrite", "F DynCellWidth", "F DynElemWidth"):
                        report("bytecode VM: the transcription faults (%s) on accepted bytecode although the instrumented semantics "
                               "stopped with '%s'" % (mfault.get("what"), stop), i, a)
                continue
            if mfault:
                report("bytecode VM: the extracted model faults (%s) on bytecode its verifier accepts although the instrumented run "
                       "returned: C03_bvm_strict_agrees and the extracted code no longer fit" % mfault.get("what"), i, a)
                continue
            # no dynamic check fired: the theorem's conclusion, evaluated on the REAL VM's answers
            pv = property_on_vm(r, prog)
            cov["vm_property_checked"] += 1
            if pv:
                report("bytecode VM: bytecode accepted by the verified verifier misbehaves on the real VM: " + pv, i, a)
            if bound is not None:
                # the model ran with EXACTLY the checked fuel bound (theorem C03_bvm_fuel): it must not run out
                cov["with_fuel_bound"] += 1
                cov["max_fuel_bound"] = max(cov["max_fuel_bound"], bound)
                if any(o["kind"] == "fuel" for o in model_outs):
                    report("bytecode VM: the extracted model runs out of the fuel bound that term_ok certifies (C03_bvm_fuel): extraction or driver broken", i, a)
            else:
                cov["without_fuel_bound"] += 1
            continue
        cls = rejection_class(prog, a.get("detail", "")) or unit_operand_class(prog, a.get("detail", ""))
        if cls == KNOWN_CLASS_UNIT:
            cov["rejected_known_class_unit_operand"] += 1
            if rq["kind"].startswith("corpus:finding"):
                cov["witnesses_reproduced"] += 1
            if "F37" in known:
                ck.known(known["F37"], "bytecode verifier: %s uses the (empty) result of a unit-valued call as a number: %s"
                         % (rq["kind"], rq["src"].replace("\n", " ")[:120]))
            continue
        if cls == KNOWN_CLASS:
            cov["rejected_known_class"] += 1
            if rq["kind"].startswith("corpus:finding"):
                cov["witnesses_reproduced"] += 1
            if "F37" in known:
                ck.known(known["F37"], "bytecode verifier: %s passes fewer argument words than the callee's parameters: %s"
                         % (rq["kind"], rq["src"].replace("\n", " ")[:120]))
            continue
        report("bytecode VM: the verifier rejects bytecode the compiler emitted for an accepted program (first failing check: %s)"
               % a.get("detail"), i, a)
    # (T) the theorem exercised end to end on adversarial input: one operand of the real bytecode is perturbed; whatever
    # the extracted verifier still accepts must run in the extracted model without fault (C03_bvm_verified_safe), so a
    # fault here means extraction / driver / statement drifted apart.  No real VM involved.
    mrng = rng.fork("mutants")
    pool = [i for i, a in zip(idx, ans) if a.get("verdict") == "1" and not outside_subset(res[i]["prog"], VERIFIER_SUPPORTED)]
    mlines, mmeta = [], []
    for k in range(min(len(pool), 600 if quick else 6000)):
        i = pool[mrng.below(len(pool))]
        prog = json.loads(json.dumps(res[i]["prog"]))
        cands = [(fi, pc) for fi, f in enumerate(prog["funs"]) for pc, ins in enumerate(f["code"]) if len(ins) > 1]
        if not cands:
            continue
        fi, pc = cands[mrng.below(len(cands))]
        ins = prog["funs"][fi]["code"][pc]
        j = 1 + mrng.below(len(ins) - 1)
        if ins[0] == "MoveImmF" and j == 2:
            continue
        delta = mrng.choice([1, -1, 1, 2, -2, 3, 7, 30])
        signed = (ins[0] == "Jmp") or (ins[0] == "JmpIfNeg" and j == 2)
        ins[j] = ins[j] + delta if signed else max(0, ins[j] + delta)
        try:
            mlines.append(case_line(len(mlines), prog, reqs[i].get("inputs", []), min(3, len(res[i].get("samples", []))), do_verify=True, do_run=True, fuel=20000))
            mmeta.append((i, fi, pc, ins))
        except ValueError:
            pass
    mt = {"mutants": len(mlines), "still_accepted": 0, "rejected": 0, "rejected_and_model_faults": 0, "rejected_no_fault_seen": 0}
    try:
        mans = run_model(model, mlines)
    except (RuntimeError, subprocess.TimeoutExpired) as ex:
        mans = []
        viol.append(("bytecode VM: model driver failed on perturbed bytecode: %s" % str(ex)[:300], {"no_input": True}))
    for (i, fi, pc, ins), a in zip(mmeta, mans):
        outs = [a.get("main")] + a.get("samples", [])
        faulty = [o for o in outs if o and o["kind"] in ("fault", "unsupported")]
        if a.get("verdict") == "1":
            mt["still_accepted"] += 1
            _b, stop = verdict_fields(a.get("detail"))
            if not dyn_stop(stop) and reported <= 6:
                reported += 1
                viol.append(("bytecode VM: the extracted verifier accepts a perturbed bytecode on which the extracted instrumented model "
                             "stops with '%s': theorem C03_bvm_closures_verified_safe_partial and the extracted code no longer fit" % stop,
                             {"source": reqs[i]["src"], "function": fi, "pc": pc, "perturbed_instruction": ins}))
            elif stop not in (None, "-"):
                mt["accepted_dynamic_stop"] = mt.get("accepted_dynamic_stop", 0) + 1
        else:
            mt["rejected"] += 1
            mt["rejected_and_model_faults" if faulty else "rejected_no_fault_seen"] += 1
    cov["bytecode_mutants"] = mt
    if reported > 6:
        viol.append(("bytecode VM: %d further failing programs not listed" % (reported - 6), {"no_input": True}))
    n_find = len([1 for rq in reqs if rq["kind"].startswith("corpus:finding")])
    cov["witnesses"] = n_find
    cov["wall_s"] = round(time.time() - t0, 1)
    cov["time_build_s"] = round(t_build - t0, 1)
    cov["time_real_vm_s"] = round(t_impl - t_build, 1)
    cov["time_model_s"] = round(t_model - t_impl, 1)
    for k, v in cov.items():
        ck.coverage["bvm_" + k] = v
    ck.add("evaluations", cov["dumped"])
    ck.add("distinct_nontrivial", cov["model_agrees"])
    return viol


if __name__ == "__main__":
    args = sys.argv[1:]
    thorough = "--thorough" in args
    ck = vplib.Check("C03", ["--tier", "thorough" if thorough else "quick"])
    v = run_part(ck, quick=not thorough)
    for k in sorted(ck.coverage):
        if k.startswith("bvm_"):
            print("%-34s %s" % (k, ck.coverage[k]))
    print("known findings reported:", sorted(ck.known_printed))
    print("violations: %d" % len(v))
    if v:
        out = os.path.join(vplib.OUT if hasattr(vplib, "OUT") else VERIF, ".cache" if not vplib.ALT else "", "bvm_part_violations.json")
        os.makedirs(os.path.dirname(out), exist_ok=True)
        json.dump([{"what": w, "replay": o} for w, o in v], open(out, "w"), indent=1)
        print("full replay objects:", out)
    for what, obj in v:
        print(" *", what)
        if not obj.get("no_input"):
            print("     ", json.dumps(obj)[:1500])
    sys.exit(1 if v else 0)
