"""Closures / higher-order part of C02 (to be imported by checks/C02.py):  run_part(ck, quick) -> list of (what, replay_obj).

P: coq/theories/Props/C02_ext.v over Lmmx/{Syntax,Ref}.v — the reference semantics of the REST of the core language
   (closures that read and assign captured variables, higher-order functions, function names as values, pipes, default
   arguments, tuple / record construction and destructuring, assignment, sequencing) as a fuelled big-step interpreter
   with a store of variable cells, a store of closure instances (each owning a state tree) and the per-call-site state
   tree of Lmmm; theorems: it extends the proved first-order reference (conservativity), more fuel never changes a
   defined result, evaluation reads and writes only the state subtree of its own site, the sugar equations.
C: the extracted reference (ocaml/lmmx_drv.ml) against the REAL compiler on BOTH backends (harness lmmm_run): generated
   well-typed programs, bit-exact outputs at every sample.
S: the reference IS the property's definition (call by value, per-call-site state, per-instance state): the real outputs
   are compared with it directly, so a failing program is reported with its source, the sample index and the three
   answers; failing programs are shrunk.

Known findings (each pinned by a witness in corpus/lmmx/cases.json that is run first; a generated program is exempt from
the comparison with a backend only when it falls into the SYNTACTIC / DYNAMIC class of a finding of that backend):
"""
import json, os, sys, time
if __name__ == "__main__":
    sys.path.insert(0, os.path.join(os.path.dirname(os.path.abspath(__file__)), "..", "lib"))
import vplib
from vplib import VERIF, log
import lmmx, lmmx_gen, lmmx_shrink

OCAML = lmmx.OCAML
HARNESS = lmmx.HARNESS
COQ_TARGETS = ["theories/Props/C02_ext.vo", lmmx.EXTRACT_TARGET]
PROPS = "C02_ext"
CORPUS = os.environ.get("LMMX_CORPUS") or os.path.join(VERIF, "corpus", "lmmx")     # LMMX_CORPUS: development only

# id -> (backends that deviate, class, text)
FINDINGS = {
    "X1": (("vm", "wasm"), "generator rule R2",
           "an assignment to a local variable from a lambda nested TWO levels below the variable's frame is lost (VM: the write goes to a "
           "copy in the intermediate closure; WASM: reads 0)"),
    "X2": (("vm",), "generator rule R3",
           "VM: a closure is CLOSED (captured cells copied) when it is passed as an argument or when the scope of its `let` ends, although "
           "the defining frame is still running: afterwards the frame (and lambdas sharing the variable) and the closure no longer see "
           "each other's assignments; the property's anchor says shared by reference while the frame lives; WASM keeps sharing"),
    "X3": (("wasm",), "generator rule R1", "WASM: an assignment to a function parameter is ignored; a closure captures a parameter by value"),
    "X4": (("wasm",), "dynamic: the reference reports an instance created after initialisation that holds state",
           "WASM keys closure state by the closure's linear-memory address: an instance created during a sample inherits the state of "
           "the instance that had the same address one sample earlier (VM: fresh zero state, as specified)"),
    "X5": (("vm", "wasm"), "not generated (text witness corpus/lmmx/findings/X5_incomplete_record_default.mmm)",
           "f({x = a, ..}): a parameter covered by `..` gets 0.0 instead of its default value (f({x = a}) uses the default)"),
    "X6": (("vm", "wasm"), "generator: no stateful direct call at top level",
           "a stateful function (or capture-free stateful lambda) called directly at top level writes its state into the first cells of "
           "dsp's state storage, so dsp does not start from zero state"),
    "X7": (("vm",), "generator rule R7", "VM SIGSEGV on a well-typed program (corpus/lmmx/findings/X7_vm_sigsegv.mmm)"),
    "V1": ((), "REPAIRED by /repo a58c230 (`fixed:` in KNOWN_FINDINGS.txt); no longer exempt (the class predicate lmmx.v1_class is still "
           "computed for the coverage statistics; corpus case V1_capture_after_aggregate_parameter is recorded as following the reference)",
           "VM: a closure that captured a parameter placed after a multi-word (tuple / record) parameter could read a word of the "
           "aggregate instead (fn f(a:(float,float), b:float){ (|p, q| 0.0)(5.0, 0.0) + (|p, q| b)(0.0, 0.0) } gave a.1)"),
    "W5": ((), "REPAIRED by /repo 5e67a0a while this part was built (no longer exempt; corpus case fixed_W5_capture_pattern_variable)",
           "WASM: a closure capturing a pattern-bound local variable read the bits of a pointer"),
    "PROJ": (("wasm",), "syntactic PROJ: projection directly in a comparison / if condition / if arm value / result of a function using self",
             "WASM types a tuple projection / record field as i64 in these positions (C01/F46 and relatives): wrong value or invalid module"),
    "W7": (("wasm",), "syntactic W7: a possibly closure-valued variable bound by a top-level tuple / record pattern is called or passed as an argument",
           "WASM: a stateful closure taken out of a global aggregate by a top-level pattern runs on dsp's state storage"),
    "W8": (("wasm",), "not generated", "WASM: a capturing closure stored in a LOCAL tuple and called through the projection returns 0"),
    "W9": (("wasm",), "syntactic W9: a function / lambda returns a closure over one of its let-bound locals and can run more than once",
           "WASM: closures capture the ADDRESS of let-bound cells and every call of a function uses the same cells: two counters made by "
           "one maker share their count"),
    "M1": ((), "REPAIRED (fix: a match takes the first arm that matches); no longer exempt: corpus cases fixed_M1_*, and the generator puts a `_` / "
           "general arm before other arms in one match of three",
           "match did not take the FIRST arm that matches: a `_` arm was the default wherever it stood and the decision tree of a tuple match "
           "tried the arms with a literal / constructor in a column before the arms with `_` there"),
    "M2": (("vm", "wasm"), "syntactic M2: a stateful arm of a tuple match that the decision tree compiles more than once",
           "one textual call site, several states: an arm of a tuple match that applies in several branches of the decision tree is "
           "compiled once per branch and every copy has its own state cells (fn cnt(i){self+i}  match (now % 3.0, 1.0) { (0, 0) => 100.0, "
           "(1, _) => 200.0, _ => cnt(1.0) } counts 1 1 2 2 3 3 instead of 1 2 3 4 5 6)"),
    "M3": ((), "REPAIRED (fix: of two match arms with the same literal or constructor the VM takes the first); no longer exempt: corpus case "
           "fixed_M3_duplicate_literal_arm, duplicates are generated",
           "VM: of two arms with the same literal (or constructor) the LAST one was taken (the jump table was overwritten); WASM took the first"),
    "F66": (("vm",), "dynamic (C03/F66): the VM output differs, WASM follows the reference, and the program's bytecode reads an upvalue into a register "
            "above everything its frame has certainly written (lmmx.upvalue_read_above_frame on the bc_dump of the program)",
            "VM: GetUpValue of an OPEN upvalue into a register above the stack top grows the value stack while a slice into the old "
            "buffer is held: garbage at the first sample (fn dsp(x:float){ let a = 1.0  (0.0 |> (|y| { let t = (y, x, a)  match a { 2 => "
            "t.2 + 0.0, 0 => x, _ => x } })) } plays 6.9e-310 for x = 5); recorded as C03/F66 by the bytecode part, allocator dependent"),
    "W10": ((), "REPAIRED (fix: match patterns are checked against the type of the scrutinee: the scrutinee is unified with the sum type the "
            "patterns ask for); no longer exempt: corpus cases fixed_W10_*",
            "a lambda whose result is its own sum-typed `self`: the VM played 0.0 (no arm taken), WASM emitted an invalid module"),
    "M5": ((), "REPAIRED (fix: a nested tuple pattern in a constructor payload of a tuple match binds the right components); no longer exempt: "
           "corpus case fixed_M5_*, generated",
           "match (1.0, A((7.0, (8.0, 9.0)))) { (_, A((x, (y, z)))) => x * 100.0 + y * 10.0 + z, _ => 0.0 } gave 788"),
    "W11": ((), "REPAIRED (fix: WASM closures capture the payload binder of a constructor pattern in a tuple match through its address); no longer "
            "exempt: corpus case fixed_W11_*, generated; what is left is the W9 class (lmmx.tuple_match_binder_escapes: the closure ESCAPES)",
            "WASM: match (A(7.0), 1.0) { (A(x), _) => (6.0 |> (|q| { x })), _ => 0.0 } played 5.18e-321 (the address of the payload)"),
    "W12": ((), "REPAIRED (fix: WASM closures capture a variable of unresolved type like a number, not its address); no longer exempt: corpus case "
            "fixed_W12_*, generated",
            "WASM: fn mk(){ | | { let (a, b) = self  (a, b) } }: a closure that later captured a component of the result read an address"),
    "S1": ((), "REPAIRED (fix: a record pattern binds its fields by name when the record's type is inferred from the pattern); text witness "
           "corpus/lmmx/fixed/S1_record_pattern_on_self.mmm must give the reference values; record patterns on `self` are printed shuffled",
           "a record pattern that takes `self` apart bound its fields by POSITION, not by name"),
    "W13": ((), "REPAIRED (fix: WASM: `self` survives a nested call of the same function); no longer exempt: corpus case fixed_W13_*",
            "WASM: an instance of a stateful lambda that calls ANOTHER instance of the same lambda lost the inner instance's state (2 4 6 for 2 5 9)"),
    "MG": (("vm", "wasm"), "syntactic MG (narrowed): a lambda in an arm of a match evaluated at global scope mentions a payload binder of the arm's pattern",
           "REPAIRED for binders read by the arm itself (fix: a variable bound by a match pattern in a top-level statement is read through its "
           "pointer; corpus cases fixed_MG_*).  Left: type T = A(float) | C  let v = match A(2.0) { A(x) => (1.0 |> (|y| { x + y })), _ => 0.0 }: the "
           "lambda is compiled as a function of its own and takes the binder for a register of the global initialiser"),
    "R5": ((), "not modelled: generator rule R5",
           "a capture-free lambda is a function constant for the compiler (direct calls, per-call-site state, like a named function); the "
           "reference models every lambda as an instance, so capture-free STATEFUL lambdas are outside the compared fragment"),
}
__doc__ += "\n".join("  %-5s %s" % (k, v[2]) for k, v in FINDINGS.items())


# ------------------------------------------------------------------------------------------------
def prove_part(ck):
    """builds Props/C02_ext.vo (full proofs) and audits Print Assumptions of every theorem; [] when all is well"""
    if os.environ.get("VERIF_DEV_NOPROVE") == "1":
        return []
    if not os.path.exists(os.path.join(vplib.COQ, "theories", "Props", PROPS + ".v")):
        return ["Props/%s.v is missing" % PROPS]
    bad = []
    rc, out, dt = vplib.coq_make([COQ_TARGETS[0]], timeout=1500)
    ck.coverage["lmmx_coq_build_s"] = round(dt, 1)
    if rc != 0:
        return ["coq: " + vplib.first_coq_error(out).replace("\n", " | ")[:600]]
    hits = [h for h in vplib.coq_audit_sources() if "/Lmmx/" in h or "C02_ext" in h or "LmmxExtract" in h]
    if hits:
        return ["audit: forbidden construct: " + "; ".join(hits[:5])]
    thms, exs = vplib.props_theorems(PROPS)
    ck.coverage["lmmx_theorems"] = thms
    ck.coverage["lmmx_examples"] = exs
    try:
        ax = vplib.coq_print_assumptions(PROPS, thms + exs)
    except RuntimeError as ex:
        return ["audit: " + str(ex)[:400]]
    open_ = {k: v for k, v in ax.items() if v}
    if open_ or set(ax) != set(thms + exs):
        bad.append("audit: theorems of Props/%s.v are not closed under the global context: %r" % (PROPS, open_))
    ck.coverage["lmmx_print_assumptions"] = {k: (v or ["Closed under the global context"]) for k, v in ax.items()}
    ck.obligations += len(thms) + len(exs)
    if not bad:
        ck.discharged += len(thms) + len(exs)
    return bad


def floats(ref):
    return [[float(v) for v in row] for row in ref]


def first_diff(rows, ref):
    for t in range(len(ref)):
        if rows[t] != ref[t]:
            return t
    return None


def judge(p, rows, m, r):
    """-> (verdict per backend, exempt classes);  verdict: 'ok' | 'exempt:<class>' | ('bad', description)"""
    n = len(rows)
    ref = floats(m['ref'])
    kc = lmmx.known_classes(p)
    if m.get('dyn_stateful'):
        kc = kc | {"X4"}
    out = {}
    for be in ("vm", "wasm"):
        b = lmmx.backend_rows(r.get(be), n) if 'crash' not in r else ('crash', r['crash'])
        good = b[0] == 'ok' and b[1] == ref
        if good:
            out[be] = 'ok'
            continue
        ex = sorted(c for c in kc if be in FINDINGS[c][0])
        if ex:
            out[be] = 'exempt:' + "+".join(ex)
            continue
        if b[0] == 'ok':
            t = first_diff(b[1], ref)
            out[be] = ('bad', "%s output at sample %d is %s, the reference semantics (call by value, per-call-site / per-instance state) gives %s"
                       % (be, t, b[1][t], m['ref'][t]))
        elif b[0] == 'compile':
            out[be] = ('reject', "%s rejects a well-typed program: %s" % (be, b[1][:200]))
        elif b[0] == 'crash':
            out[be] = ('bad', "the harness process died (rc %s) while compiling / running an accepted program" % (b[1],))
        else:
            out[be] = ('bad', "%s %s" % (be, " ".join(str(x) for x in b)[:200]))
    return out, kc


class Sides:
    def __init__(self, mexe, iexe, dexe=None):
        self.mexe, self.iexe, self.dexe = mexe, iexe, dexe
        self.rng = vplib.Rng(20260926)     # only permutes the (meaningless) textual order of record fields
        self.calls = 0

    def run(self, cases, isolate=False):
        self.calls += 1
        mres = lmmx.run_model(self.mexe, cases)
        reqs = lmmx.impl_requests(cases, self.rng)
        if isolate:
            for q in reqs:
                q["isolate"] = True
        ires = lmmx.run_impl(self.iexe, reqs)
        if isolate:
            # a request that killed the harness process: run each backend in its own process to see which one it was
            dead = [i for i, r in enumerate(ires) if 'crash' in r]
            if dead:
                sub = []
                for i in dead:
                    for be in ("vm", "wasm"):
                        q = {k: v for k, v in reqs[i].items() if k != 'id'}
                        q["backends"] = [be]
                        sub.append(q)
                sres = lmmx.run_impl(self.iexe, sub)
                for j, i in enumerate(dead):
                    merged = {"id": ires[i].get("id")}
                    for k, be in enumerate(("vm", "wasm")):
                        a = sres[2 * j + k]
                        merged[be] = a.get(be) if 'crash' not in a else {"died": a['crash']}
                    ires[i] = merged
        return mres, ires

    def f66_class(self, p, rows):
        """dynamic class of finding C03/F66, decided on the bytecode of the real compiler (harness bc_dump)"""
        if self.dexe is None:
            return False
        q = lmmx.impl_requests([(p, rows)], self.rng)[0]
        res, _ = lmmx.lmmm._run_batch(self.dexe, [{"id": 0, "src": q["src"], "n": 0, "run": False}], 120)
        return bool(res) and 'prog' in res[0] and lmmx.upvalue_read_above_frame(res[0]['prog'])


def build_sides():
    if os.environ.get("LMMX_DEV_EXE"):      # development only: a privately built model driver
        rc, out, bindir = vplib.cargo_build("lang", ["lmmm_run", "bc_dump"])
        return Sides(os.environ["LMMX_DEV_EXE"], os.path.join(bindir, "lmmm_run"), os.path.join(bindir, "bc_dump")), None
    rc, out, _ = vplib.coq_make([lmmx.EXTRACT_TARGET], timeout=900)
    if rc != 0:
        return None, "extraction of the reference semantics failed: " + vplib.first_coq_error(out)[:300]
    rc, out, mexe = vplib.ocaml_build("lmmx_drv", ["lmmx_model"], os.path.join(VERIF, "ocaml", "lmmx_drv.ml"))
    if rc != 0:
        return None, "model driver does not build: " + out[-300:]
    rc, out, bindir = vplib.cargo_build("lang", ["lmmm_run", "bc_dump"])
    if rc != 0:
        return None, "harness lmmm_run / bc_dump does not build: " + out[-400:]
    return Sides(mexe, os.path.join(bindir, "lmmm_run"), os.path.join(bindir, "bc_dump")), None


def run_corpus(ck, sides, viol, cov):
    path = os.path.join(CORPUS, "cases.json")
    if not os.path.exists(path):
        viol.append(("closures: corpus/lmmx/cases.json is missing", {"no_input": True}))
        return
    cs = json.load(open(path))
    for c in cs:
        c["prog"] = unjson_prog(c["prog"])
    cases = [(c["prog"], c["rows"]) for c in cs]
    mres, ires = sides.run(cases, isolate=True)
    cov["corpus_cases"] = len(cs)
    cov["corpus_findings_reproduced"] = []
    cov["corpus_findings_changed"] = []
    for c, m, r in zip(cs, mres, ires):
        src = lmmx.pp_prog(c["prog"])
        if m.get('ref') != c["ref"]:
            viol.append(("closures: the reference semantics no longer gives the recorded outputs of corpus case '%s'" % c["name"],
                         {"source": src, "recorded": c["ref"], "model": m, "no_input": True}))
            continue
        ref = floats(c["ref"])
        for be in ("vm", "wasm"):
            b = lmmx.backend_rows(r.get(be), len(c["rows"])) if 'crash' not in r else ('crash', r['crash'])
            now = "ref" if (b[0] == 'ok' and b[1] == ref) else (b[1] if b[0] == 'ok' else [b[0]] + [str(x) for x in b[1:]])
            if c[be] == "ref" and now != "ref":
                viol.append(("closures: corpus case '%s' (%s): %s no longer follows the reference semantics" % (c["name"], c["note"], be),
                             {"source": src, "n_samples": len(c["rows"]), "inputs": c["rows"], "reference_outputs": c["ref"], be: now}))
            elif c[be] != "ref":
                (cov["corpus_findings_reproduced"] if now != "ref" else cov["corpus_findings_changed"]).append("%s:%s" % (c["name"], be))
    # text witnesses (constructs outside the AST): expected outputs in the header.  findings/: the recorded deviation of a listed
    # finding (a change is noted);  fixed/: a REPAIRED defect, the header holds the values of the reference semantics on both
    # backends and any other answer is a violation
    texts = []
    for sub in ("fixed", "findings"):
        d = os.path.join(CORPUS, sub)
        texts += [(sub, os.path.join(d, fn), fn) for fn in (sorted(os.listdir(d)) if os.path.isdir(d) else []) if fn.endswith(".mmm")]
    cov["corpus_fixed_text_witnesses_ok"] = []
    for sub, path, fn in texts:
        txt = open(path).read()
        hdr = {}
        for line in txt.split("\n"):
            if line.startswith("// expect-"):
                k, _, v = line[len("// expect-"):].partition(":")
                hdr[k.strip()] = json.loads(v)
        if not hdr:
            continue
        n = hdr.get("n", 4)
        for be in ("vm", "wasm"):
            if be not in hdr:
                continue
            res = lmmx.run_impl(sides.iexe, [{"src": txt, "n": n, "state": False, "isolate": True, "backends": [be]}])[0]
            b = lmmx.backend_rows(res.get(be), n) if 'crash' not in res else ('crash', res['crash'])
            got = b[1] if b[0] == 'ok' else [b[0]]
            same = (got == hdr[be]) if b[0] == 'ok' else (hdr[be] == [b[0]])
            if sub == "fixed":
                if same:
                    cov["corpus_fixed_text_witnesses_ok"].append("%s:%s" % (fn, be))
                else:
                    viol.append(("closures: a repaired defect is back: text witness corpus/lmmx/fixed/%s: %s no longer gives the values of the "
                                 "reference semantics" % (fn, be),
                                 {"source": txt, "n_samples": n, "reference_outputs": hdr[be], be: got if b[0] == 'ok' else [str(x) for x in b]}))
                continue
            (cov["corpus_findings_reproduced"] if same else cov["corpus_findings_changed"]).append("%s:%s" % (fn, be))


def unjson_prog(p):
    def e(x):
        if isinstance(x, list):
            if x and isinstance(x[0], str):
                k = x[0]
                if k in ('tup',): return ('tup', [e(a) for a in x[1]])
                if k == 'rec': return ('rec', [(f, e(a)) for f, a in x[1]])
                if k == 'cnamed': return ('cnamed', x[1], [(f, e(a)) for f, a in x[2]])
                if k == 'app': return ('app', e(x[1]), [e(a) for a in x[2]])
                if k == 'lam': return ('lam', [(a, ty(t)) for a, t in x[1]], e(x[2]))
                if k == 'let': return ('let', pat(x[1]), e(x[2]), e(x[3]))
                if k == 'selfs': return ('selfs', shape(x[1]))
                if k == 'con': return ('con', x[1], x[2], e(x[3]) if x[3] is not None else None)
                if k == 'match': return ('match', e(x[1]), [(mpat(m), e(b)) for m, b in x[2]])
                return tuple([k] + [e(a) if isinstance(a, list) else a for a in x[1:]])
        return x
    def pat(q):
        if q[0] == 'pt': return ('pt', [pat(s) for s in q[1]])
        if q[0] == 'pr': return ('pr', [(f, pat(s)) for f, s in q[1]])
        return tuple(q)
    def shape(sh):
        if sh == 'N': return sh
        if sh[0] == 'st': return ('st', [shape(x) for x in sh[1]])
        if sh[0] == 'sr': return ('sr', [(f, shape(x)) for f, x in sh[1]])
        return ('ss', sh[1], [None if x is None else shape(x) for x in sh[2]])
    def mpat(m):
        if m[0] == 'mc': return ('mc', m[1], m[2], pat(m[3]) if m[3] is not None else None)
        if m[0] == 'mt': return ('mt', [mpat(x) for x in m[1]])
        return tuple(m)
    def ty(t):
        if t is None or t == 'F': return t
        if t[0] == 'S': return ('S', t[1])
        if t[0] == 'T': return ('T', [ty(s) for s in t[1]])
        if t[0] == 'R': return ('R', [(f, ty(s)) for f, s in t[1]])
        return ('Fn', [ty(s) for s in t[1]], ty(t[2]))
    gs = []
    for g in p["globals"]:
        if g[0] == 'fun':
            gs.append(('fun', g[1], [(x, ty(t), e(d) if d is not None else None) for x, t, d in g[2]], e(g[3]), ty(g[4]) if g[4] else None))
        else:
            gs.append(('glet', pat(g[1]), e(g[2])))
    q = {"globals": gs, "inputs": list(p["inputs"]), "lets": [(pat(q), e(x)) for q, x in p["lets"]], "outs": [e(x) for x in p["outs"]]}
    if p.get("types"):
        q["types"] = [(t, [None if c is None else ty(c) for c in cs]) for t, cs in p["types"]]
    return q


def run_wide_redundancy(ck, sides, viol, cov, quick):
    """lib/wideself.py (a python evaluator of the property text for tuple / record / sum-typed `self`) is REDUNDANT: the programs
    of its generator, translated into the Lmmx syntax (lmmx_gen.wide_case: same random draws), are run by the extracted reference
    semantics, which must reproduce wideself's expected streams; the translated programs are also run on both backends."""
    import wideself
    rng = ck.rng.fork("lmmx-wide")
    n, ns = (300, 12) if quick else (3000, 32)
    cases, expect = [], []
    for i in range(n):
        c = wideself.gen_case(rng.fork(i), ns)
        p = lmmx_gen.wide_case(rng.fork(i), ns)
        cases.append((p, [[] for _ in range(ns)]))
        expect.append(c)
    mres, ires = sides.run(cases)
    st = {"programs": n, "reference_equals_wideself": 0, "vm_matches_reference": 0, "wasm_matches_reference": 0}
    shapes = {}
    bad = []
    for (p, rows), c, m, r in zip(cases, expect, mres, ires):
        for sh in c["shapes"]:
            shapes[sh] = shapes.get(sh, 0) + 1
        if m.get('big') or m.get('timeout') or m.get('crashed') or any(abs(v) >= 2 ** 53 for row in c["expect"] for v in row):
            st["discarded_not_exact(|v|>=2^53)"] = st.get("discarded_not_exact(|v|>=2^53)", 0) + 1
            continue
        if m.get('ref') != c["expect"]:
            bad.append(("closures: the extracted reference semantics (Lmmx) and the python evaluator lib/wideself.py give different streams "
                        "for a program of wideself's generator (or the translation lmmx_gen.wide_case is out of step with wideself.gen_case)",
                        {"wideself_source": c["src"], "translated_source": lmmx.pp_prog(p), "wideself_expect": c["expect"][:8],
                         "reference": (m.get('ref') or m)[:8] if isinstance(m.get('ref'), list) else m, "model_input": lmmx.model_line(p, rows)}))
            continue
        st["reference_equals_wideself"] += 1
        verdicts, kc = judge(p, rows, m, r)
        for be in ("vm", "wasm"):
            if verdicts[be] == 'ok':
                st[be + "_matches_reference"] += 1
            elif not isinstance(verdicts[be], str):
                bad.append(("closures (wide self): " + verdicts[be][1], {"source": lmmx.pp_prog(p), "reference_outputs": m['ref'], "backend": be}))
    viol.extend(bad[:3])
    st["shapes"] = shapes
    cov["wideself_redundancy"] = st


def run_part(ck, quick=True):
    """violations of the closure part as (what, replay_obj); measured coverage in ck.coverage['lmmx_*']"""
    t0 = time.time()
    viol = []
    for b in prove_part(ck):
        ck.broken.append("lmmx: " + b)
        viol.append(("closures: proof obligation no longer checks: " + b, {"no_input": True}))
    sides, err = build_sides()
    if sides is None:
        return viol + [("closures: " + err, {"no_input": True})]
    cov = {}
    run_corpus(ck, sides, viol, cov)
    run_wide_redundancy(ck, sides, viol, cov, quick)

    rng = ck.rng.fork("lmmx")
    n_cases, n_samples = (3000, 16) if quick else (24000, 24)
    cases3 = lmmx_gen.gen_cases(rng, n_cases, n_samples, ext=True)
    cases = [(p, rows) for p, rows, _ in cases3]
    mres, ires = sides.run(cases)
    st = {}
    def bump(k, n=1): st[k] = st.get(k, 0) + n
    feats = {}
    distinct = set()
    bad = []
    for idx, ((p, rows), m, r) in enumerate(zip(cases, mres, ires)):
        if 'ref' not in m:
            if m.get('big'):
                bump("discarded_not_exact(|v|>=2^60)")
            elif m.get('timeout'):
                bump("discarded_reference_took_longer_than_%ds" % lmmx.MODEL_CASE_TIMEOUT_S)
            elif m.get('crashed'):
                bump("discarded_reference_interpreter_ran_out_of_stack")
            else:
                bump("reference_undefined")
                bad.append((idx, "model", "the reference semantics is undefined (%s) on a generated well-typed program" % json.dumps(m)))
            continue
        if any(abs(v) >= 2 ** 53 for row in m['ref'] for v in row):
            bump("discarded_not_exact(|v|>=2^53)"); continue
        for k, v in lmmx.features(p).items():
            feats[k] = feats.get(k, 0) + v
        if m.get('dyn_stateful'):
            bump("programs_with_stateful_instance_created_during_dsp")
        verdicts, kc = judge(p, rows, m, r)
        if any(FINDINGS[c][0] for c in kc):
            bump("programs_in_a_known_class")
        for be in ("vm", "wasm"):
            v = verdicts[be]
            if v == 'ok':
                bump(be + "_matches_reference")
                distinct.add(idx)
            elif isinstance(v, str):
                bump(be + "_" + v)
            elif v[0] == 'reject':
                bump(be + "_rejects_generated_program")
                bad.append((idx, be, v[1]))
            else:
                bad.append((idx, be, v[1]))
    # a failure must reproduce when the program is run ALONE in a fresh harness process (requests of one process share the
    # compiler's global tables; a failure that needs a particular predecessor is recorded, not reported)
    confirmed = []
    if bad:
        idxs = sorted({i for i, _, _ in bad})
        m1, r1 = sides.run([cases[i] for i in idxs], isolate=True)
        alone = {i: (m, r) for i, m, r in zip(idxs, m1, r1)}
        for idx, be, why in bad:
            m, r = alone[idx]
            if be == "model" or 'ref' not in m:
                confirmed.append((idx, be, why)); continue
            vd, _ = judge(cases[idx][0], cases[idx][1], m, r)
            if isinstance(vd[be], str):
                bump("failed_only_inside_a_shared_harness_process")
                cov.setdefault("unstable_examples", []).append({"backend": be, "what": why[:200], "source": lmmx.pp_prog(cases[idx][0])[:1500]})
            elif be == "vm" and vd[be][0] == 'bad' and vd["wasm"] == 'ok' and "output at sample" in vd[be][1] and sides.f66_class(*cases[idx]):
                bump("vm_exempt:F66(dynamic)")
                cov.setdefault("f66_examples", []).append(lmmx.pp_prog(cases[idx][0])[:1500])
            else:
                confirmed.append((idx, be, vd[be][1]))
    bad = confirmed
    cov["evaluations"] = len(cases)
    cov["samples_per_program"] = n_samples
    cov["stats"] = st
    cov["feature_totals"] = feats
    cov["distinct_matching_programs"] = len(distinct)

    # shrink and report the first few failing programs
    def fails_like(be):
        def f(cs):
            mr, ir = sides.run(cs)
            out = []
            for (q, rw), m2, r2 in zip(cs, mr, ir):
                if 'ref' not in m2 or any(abs(v) >= 2 ** 53 for row in m2['ref'] for v in row):
                    out.append(be == "model" and 'ref' not in m2 and not m2.get('big') and not m2.get('timeout') and not m2.get('crashed'))
                    continue
                if be == "model":
                    out.append(False); continue
                vd, _ = judge(q, rw, m2, r2)
                other = "wasm" if be == "vm" else "vm"
                # keep the other backend's verdict: a candidate that BOTH reject is just an ill-formed program
                ob = lmmx.backend_rows(r2.get(other), len(rw)) if 'crash' not in r2 else ('crash',)
                # a candidate the backend REJECTS counts only when the other backend runs it: otherwise it is just ill formed
                out.append(not isinstance(vd[be], str) and (vd[be][0] != 'reject' or ob[0] == 'ok'))
            return out
        return f
    for idx, be, why in bad[:3]:
        p, rows = cases[idx]
        try:
            small = lmmx_shrink.shrink(p, rows, fails_like(be), typed=True, max_rounds=60)
        except Exception as ex:     # shrinking is best effort
            small = p
        m2, r2 = sides.run([(small, rows)])
        why2 = why
        if 'ref' in m2[0] and be != "model":
            vd, _ = judge(small, rows, m2[0], r2[0])
            if not isinstance(vd[be], str):
                why2 = vd[be][1]
        viol.append(("closures: " + why2,
                     {"source": lmmx.pp_prog(small), "original_source": lmmx.pp_prog(p), "n_samples": len(rows),
                      "inputs": rows if p['inputs'] else None, "reference_outputs": m2[0].get('ref'), "backend": be,
                      "model_input": lmmx.model_line(small, rows),
                      "how": "echo '{\"src\":<source>,\"n\":N,\"inputs\":..}' | .cache/target/lang/debug/lmmm_run ;  "
                             "echo '<model_input>' | .cache/ocaml/lmmx_drv/lmmx_drv"}))
    if len(bad) > 3:
        cov["further_failing_programs"] = len(bad) - 3
    for i in (0, 1, len(cases) // 2):
        if i < len(cases) and 'ref' in mres[i]:
            ck.sample({"source": lmmx.pp_prog(cases[i][0]), "reference_outputs_first_4": mres[i]['ref'][:4],
                       "known_classes": sorted(lmmx.known_classes(cases[i][0]))})
    cov["wall_s"] = round(time.time() - t0, 1)
    for k, v in cov.items():
        ck.coverage["lmmx_" + k] = v
    ck.add("evaluations", len(cases))
    ck.add("distinct_nontrivial", len(distinct))
    return viol


if __name__ == "__main__":
    thorough = "--thorough" in sys.argv
    ck = vplib.Check("lmmx_dev", ["--tier", "thorough" if thorough else "quick"])
    t0 = time.time()
    vs = run_part(ck, quick=not thorough)
    print(json.dumps({k: v for k, v in ck.coverage.items() if k.startswith("lmmx_")}, indent=1, default=str)[:6000])
    print("seed %d: %d violation(s) in %.1f s" % (ck.seed, len(vs), time.time() - t0))
    for what, obj in vs:
        print("VIOLATION:", what)
        print(json.dumps(obj, indent=1)[:3000])
    sys.exit(1 if vs else 0)
