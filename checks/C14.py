"""C14 — the formatter never changes a program, loses no comment, and is idempotent.

P: theorems of coq/theories/Props/C14.v over Fmt/Model.v: a Wadler-style document language with the SET of admissible
   renderings (every flat/broken choice per group, the `pretty` crate's next-command indentation rule; its width algorithm is
   not modelled), the document builder `doc_of` for the WHOLE syntax (literal transcription of cst_print.rs arm by arm:
   expressions, statements, match, type declarations, use / mod / pub, stage directives, macro definitions and calls, quote /
   splice, include, record update, default parameters, all type forms) and the parser's line-break rule (a line break matters
   only directly before a postfix `(` `[` `.` after an expression, and before the comma after a match arm).
C: the extracted model (ocaml/fmt_drv.ml) is run on the REAL green tree (dumped by harness/lang/src/bin/fmt_run.rs) of every
   valid program; the REAL output of mimium_fmt::pretty_print_cst at every width/indent must be one of the model's
   admissible renderings (sound membership test); the hypotheses of the theorems are evaluated per program (emits_all,
   safe_breaks, keeps_breaks = the document forces exactly the line breaks of the source at the sensitive positions, same
   document after re-parsing) and the parser's line-break rule is tested on the real parser (re-layout; and: keeps_breaks +
   emits_all + admitted output must imply an unchanged parse).
S: the three facts of the property are evaluated directly on the implementation for every source x width x indent:
   (i) output parses without errors to the same AST (parse_program dump and parse_to_expr dump, spans ignored),
   (ii) same comment sequence, (iii) fmt(output) == output,
   (iv) same syntax-token sequence modulo line breaks / `;` (both LineBreak trivia) and trailing commas.
   A failing valid program outside every class predicate of KNOWN_FINDINGS.txt is a VIOLATION (shrunk replay).
   Sources: two generators (expression/statement fragment; the rest of the syntax, XGen) with random layout, numbered line
   and block comments (block comments also spanning several lines, in nested positions), all shipped .mmm files, layout /
   comment mutations of them; measured frequency of every construct in coverage["construct:*"].
"""
import concurrent.futures, glob, json, os, re, subprocess, sys, time
from vplib import *

WIDTHS = [1, 20, 40, 80, 200]
INDENTS = [4, 2]

# ------------------------------------------------------------------------------------------------
# the dump of the real green tree:  (Kind child ...)  |  [TokenKind "text" (lead trivia) (trail trivia)]
# trivia items: L"// c"  B"/* c */"  N  W
# python value: ('N', kind, [children]) | ('T', kind, text, lead, trail) with trivia = [('L',text)|('B',text)|('N',)|('W',)]
# ------------------------------------------------------------------------------------------------
def parse_cst(s):
    pos = [0]
    n = len(s)

    def ws():
        while pos[0] < n and s[pos[0]] == ' ':
            pos[0] += 1

    def word():
        st = pos[0]
        while pos[0] < n and s[pos[0]] not in ' ()[]"':
            pos[0] += 1
        return s[st:pos[0]]

    def quoted():
        assert s[pos[0]] == '"'
        pos[0] += 1
        out = []
        while s[pos[0]] != '"':
            c = s[pos[0]]
            if c == '\\':
                pos[0] += 1
                c = {'n': '\n', 'r': '\r', 't': '\t'}.get(s[pos[0]], s[pos[0]])
            out.append(c)
            pos[0] += 1
        pos[0] += 1
        return "".join(out)

    def trivia():
        assert s[pos[0]] == '('
        pos[0] += 1
        out = []
        while True:
            ws()
            c = s[pos[0]]
            if c == ')':
                pos[0] += 1
                return out
            pos[0] += 1
            if c in 'LBX':
                out.append((c, quoted()))
            else:
                out.append((c,))

    def node():
        ws()
        c = s[pos[0]]
        if c == '[':
            pos[0] += 1
            k = word()
            ws()
            t = quoted()
            ws()
            l = trivia()
            ws()
            r = trivia()
            ws()
            assert s[pos[0]] == ']'
            pos[0] += 1
            return ('T', k, t, l, r)
        assert c == '(', (c, pos[0])
        pos[0] += 1
        k = word()
        kids = []
        while True:
            ws()
            if s[pos[0]] == ')':
                pos[0] += 1
                return ('N', k, kids)
            kids.append(node())
    return node()


def walk(t):
    yield t
    if t[0] == 'N':
        for c in t[2]:
            yield from walk(c)


def tokens_of(t):
    return [x for x in walk(t) if x[0] == 'T']


def first_token(t):
    for x in walk(t):
        if x[0] == 'T':
            return x
    return None


DELIMS_OPEN = {"ParenBegin", "BlockBegin", "ArrayBegin"}
DELIMS_CLOSE = {"ParenEnd", "BlockEnd", "ArrayEnd"}
LISTS = {"ParamList", "ArgList", "TupleExpr", "ArrayExpr", "TupleType", "RecordType", "TuplePattern", "RecordPattern"}


# ------------------------------------------------------------------------------------------------
# class predicates of the known findings (evaluated on the real green tree of the SOURCE)
# (the printer defects F6 F6t FM1..FM9 are repaired in cst_print.rs; their witnesses are regression inputs now)
# ------------------------------------------------------------------------------------------------
def list_items(x):
    """children of a delimiter-list node between the delimiters, split at commas"""
    items, cur, seen_open = [], [], False
    for c in x[2]:
        if c[0] == 'T' and c[1] in DELIMS_OPEN and not seen_open:
            seen_open = True
            continue
        if c[0] == 'T' and c[1] in DELIMS_CLOSE:
            break
        if c[0] == 'T' and c[1] == "Comma":
            items.append(cur)
            cur = []
            continue
        if seen_open:
            cur.append(c)
    if cur:
        items.append(cur)
    return items


def cls_tuple_by_nested_trailing_comma(t, toks):
    """`([a,])`: is_tuple_expr (cst_parser.rs) looks for a comma before the matching `)` counting only parentheses, so a comma
    inside `[..]` / `{..}` / `|..|` makes the parenthesis a one-element TUPLE without a comma of its own; when every such comma
    is a trailing comma the printer drops it and the output is a plain parenthesised expression (different AST)"""
    for x in walk(t):
        if x[0] == 'N' and x[1] == "TupleExpr":
            its = list_items(x)
            own = sum(1 for c in x[2] if c[0] == 'T' and c[1] == "Comma")
            if len(its) == 1 and own == 0:
                ts = tokens_of(x)
                depth = -1
                commas = []
                for i, tk in enumerate(ts):
                    if tk[1] == "ParenBegin":
                        depth += 1
                    elif tk[1] == "ParenEnd":
                        depth -= 1
                        if depth < 0:
                            break
                    elif tk[1] == "Comma" and depth == 0:
                        nxt = ts[i + 1][1] if i + 1 < len(ts) else ""
                        commas.append(nxt in DELIMS_CLOSE or nxt == "LambdaArgBeginEnd")
                if commas and all(commas):
                    return True
    return False


# symptoms: parse (output has parse errors) ast (AST differs) comments idem tokens model
ALL = {"parse", "ast", "comments", "idem", "tokens", "expr", "fmt-err"}
CLASSES = {
    # FM10 (tuple-by-nested-trailing-comma) is repaired in the parser (is_tuple_expr counts every bracket kind): no class is
    # excused any more; cls_tuple_by_nested_trailing_comma stays as the description of what a recurrence looks like
}


# ------------------------------------------------------------------------------------------------
# the facts of the property on one answer of the harness
# ------------------------------------------------------------------------------------------------
def comments_of(toks):
    return [t for t in toks if t[0] in "LB"]


def syntax_of(toks):
    """syntax tokens modulo what the printer is entitled to change: line breaks and `;` (both are LineBreak trivia) are
    dropped; a comma directly before a closing delimiter (trailing comma) is dropped; comments are compared separately"""
    sy = [t[1:].split("\x1f") for t in toks if t[0] == 'T']
    out = []
    for i, (k, tx) in enumerate(sy):
        if k == "Comma" and i + 1 < len(sy) and sy[i + 1][0] in DELIMS_CLOSE | {"LambdaArgBeginEnd"}:
            continue
        out.append(tx)
    return out


def symptoms(ans_in, run):
    """set of symptom names for one (width, indent) run"""
    s = set()
    if run["st"] != "ok":
        s.add("fmt-err")
        return s
    if "o_panic" in run:
        s.add("parse")
        return s
    o = run["o"]
    if o["cst_errs"] > 0 or o["expr_errs"] > ans_in["expr_errs"]:
        s.add("parse")
    if not run["ast_same"]:
        s.add("ast")
    if not run.get("expr_same", True):
        s.add("expr")
    if comments_of(o["toks"]) != comments_of(ans_in["toks"]):
        s.add("comments")
    if run["again"] != "same":
        s.add("idem")
    if syntax_of(o["toks"]) != syntax_of(ans_in["toks"]):
        s.add("tokens")
    return s


# ------------------------------------------------------------------------------------------------
# harness runner (one answer line per request; a dead process is restarted after the culprit)
# ------------------------------------------------------------------------------------------------
def run_harness(exe, reqs, timeout=900):
    results = [None] * len(reqs)
    shards = min(NPROC, max(1, len(reqs) // 4))
    idx = list(range(len(reqs)))
    chunks = [idx[i::shards] for i in range(shards)]

    def work(chunk):
        todo = list(chunk)
        while todo:
            text = "\n".join(json.dumps(reqs[i]) for i in todo) + "\n"
            try:
                p = subprocess.run([exe], input=text, stdout=subprocess.PIPE, stderr=subprocess.DEVNULL, text=True, timeout=timeout)
                out, rc = p.stdout, p.returncode
            except subprocess.TimeoutExpired as ex:
                out = ex.stdout.decode(errors="replace") if isinstance(ex.stdout, bytes) else (ex.stdout or "")
                rc = "timeout"
            lines = [l for l in out.split("\n") if l]
            good = 0
            for i, l in zip(todo, lines):
                try:
                    results[i] = json.loads(l)
                    good += 1
                except ValueError:
                    break
            if good >= len(todo):
                break
            results[todo[good]] = {"crash": str(rc)}
            todo = todo[good + 1:]
    with concurrent.futures.ThreadPoolExecutor(max_workers=shards) as ex:
        list(ex.map(work, chunks))
    return results


# ------------------------------------------------------------------------------------------------
# generator of fragment programs: a token list [(text, flags)] then a random layout
# flags: 'post' = this token is a postfix opener (no line break may be put before it without changing the program)
# ------------------------------------------------------------------------------------------------
BINOPS = ["+", "-", "*", "/", "%", "^", "&&", "||", "==", "!=", "<", ">", "<=", ">=", "|>", "@"]
NAMES = ["a", "b", "c", "x", "y", "z", "foo", "bar", "osc", "phase", "gain_db", "t1", "veryLongIdentifierName", "n0"]
FNAMES = ["f", "g", "sin", "mix", "delayline", "make_probe"]


class FGen:
    def __init__(self, rng, risky=False):
        self.r = rng
        self.risky = risky      # also generate the constructs of the known finding classes
        self.out = []
        self.first_in_block = False

    def t(self, s, *flags):
        self.out.append((s, set(flags)))

    def name(self):
        return self.r.choice(NAMES)

    def lit(self):
        r = self.r.below(8)
        if r == 0: self.t(str(self.r.below(1000)))
        elif r == 1: self.t(f"{self.r.below(100)}.{self.r.below(100)}")
        elif r == 2: self.t('"str %d"' % self.r.below(10))
        elif r == 3: self.t("self")
        elif r == 4: self.t("now")
        elif r == 5: self.t("samplerate")
        else: self.t(self.name())

    def args(self, d, lo=0, hi=3, open_="(", close=")", post=False):
        self.t(open_, *(["post"] if post else []))
        n = self.r.range(lo, hi)
        for i in range(n):
            if i:
                self.t(",")
            self.expr(d - 1)
        if n and self.risky and self.r.chance(1, 10):
            self.t(",")     # trailing comma
        self.t(close)

    def primary(self, d):
        r = self.r.below(16) if d > 0 else self.r.below(3)
        if r < 3:
            self.lit()
        elif r < 6:        # call
            self.t(self.r.choice(FNAMES))
            self.args(d, post=True)
            if self.r.chance(1, 8):
                self.args(d, post=True)
        elif r == 6:       # tuple (one element: the comma makes it a tuple)
            if self.r.chance(1, 6):
                self.t("("); self.expr(d - 1); self.t(","); self.t(")")
            else:
                self.args(d, 2, 4)
        elif r == 7:       # array
            self.args(d, 0, 4, "[", "]")
        elif r == 8:       # paren
            self.t("(")
            if self.risky and self.r.chance(1, 6):
                self.t("["); self.lit(); self.t(","); self.t("]")     # tuple only through the nested trailing comma
            else:
                self.expr(d - 1)
            self.t(")")
        elif r == 9:       # field / projection / index
            self.t(self.name())
            for _ in range(self.r.range(1, 3)):
                k = self.r.below(3)
                if k == 0:
                    self.t(".", "post"); self.t(self.name())
                elif k == 1:
                    self.t(".", "post"); self.t(str(self.r.below(3)))
                    break      # `.0.1` would lex as a float
                else:
                    self.t("[", "post"); self.expr(d - 1); self.t("]")
        elif r == 10:      # lambda
            self.t("|")
            n = self.r.range(0 if self.risky else 1, 3)
            for i in range(n):
                if i:
                    self.t(",")
                self.t(self.name())
                if self.r.chance(1, 4):
                    self.t(":"); self.t("float")
            self.t("|")
            if self.r.chance(1, 2):
                self.block(d - 1)
            else:
                self.expr(d - 1, in_lambda=True)
        elif r == 11:      # if
            self.if_(d)
        elif r == 12:      # block
            self.block(d - 1)
        elif r == 13:      # unary minus
            self.t("-")
            self.primary(d - 1)
        elif r == 14:   # record / macro
            if self.r.chance(1, 2):
                self.t("{"); self.t(self.name()); self.t("="); self.expr(d - 1); self.t(","); self.t(self.name()); self.t("="); self.expr(d - 1); self.t("}")
            else:
                self.t(self.r.choice(FNAMES)); self.t("!"); self.args(d)
        else:
            self.lit()

    def if_(self, d):
        self.t("if")
        if self.risky and self.r.chance(1, 3):
            self.expr(d - 1)           # condition without parenthesis
            self.block(d - 1)
        else:
            self.t("("); self.expr(d - 1); self.t(")")
            k = self.r.below(4)
            if k == 0:
                self.block(d - 1)
            elif k == 1 and self.risky:
                if self.r.chance(1, 2):
                    self.args(d, 2, 3)     # then-branch starts with `(`
                else:
                    self.t(self.name()); self.t("="); self.lit()    # assignment as then-branch
            else:
                self.nonopen(d - 1)
        if self.r.chance(3, 4):
            self.t("else")
            k = self.r.below(4)
            if k == 0:
                self.block(d - 1)
            elif k == 1:
                self.if_(d - 1) if d > 1 else self.lit()
            else:
                self.expr(d - 1)

    def nonopen(self, d):
        """an expression that does not start with `(` or `[` or `-`"""
        k = self.r.below(3)
        if k == 0 or d <= 0:
            self.lit()
        elif k == 1:
            self.t(self.r.choice(FNAMES)); self.args(d, post=True)
        else:
            self.lit(); self.t(self.r.choice(BINOPS[:8])); self.expr(d - 1)

    def expr(self, d, in_lambda=False):
        self.primary(d)
        n = 0
        while d > 0 and self.r.chance(2, 5) and n < 4:
            self.t(self.r.choice(BINOPS))
            self.primary(d - 1)
            n += 1

    def stmt(self, d, last):
        r = self.r.below(10)
        if r == 0 and self.r.chance(1, 3):
            self.t("letrec"); self.t(self.name()); self.t("="); self.expr(d)
        elif r < 4:
            self.t("let")
            if self.r.chance(1, 5):
                self.t("("); self.t(self.name()); self.t(",")
                if self.r.chance(3, 4):     # else the one-element tuple pattern `(a,)`
                    self.t(self.name())
                self.t(")")
            elif self.r.chance(1, 8):
                self.t("_")
            else:
                self.t(self.name())
                if self.r.chance(1, 6):
                    self.t(":"); self.t("float")
            self.t("=")
            self.expr(d)
        elif r < 6 and not self.first_in_block:      # `{ x = ..` would be read as a record
            self.t(self.name()); self.t("="); self.expr(d)
        else:
            self.expr(d)
        self.t("\n", "sep")

    def block(self, d):
        self.t("{")
        n = self.r.range(0 if self.risky else 1, 3)
        for i in range(n):
            self.first_in_block = i == 0
            self.stmt(max(d, 0), i == n - 1)
        self.first_in_block = False
        self.t("}")

    def program(self):
        n = self.r.range(1, 3)
        if self.risky and self.r.chance(1, 8):
            for x in ["type", "T%d" % self.r.below(9), "=", "A", "|", "B", "(", "float", ")"]:
                self.t(x)
            self.t("\n", "sep")
        for i in range(n):
            r = self.r.below(6)
            if r < 4:
                self.t("fn"); self.t(self.r.choice(FNAMES) + str(i)); self.t("(")
                k = self.r.below(4)
                for j in range(k):
                    if j:
                        self.t(",")
                    self.t(self.name())
                    if self.risky and self.r.chance(1, 5):
                        self.t(":"); self.t("float")
                self.t(")")
                if self.r.chance(1, 6):
                    self.t("->"); self.t(self.r.choice(["float", "(float,float)", "(float)->float"]))
                self.block(self.r.range(1, 3))
                self.t("\n", "sep")
            else:
                self.stmt(self.r.range(1, 3), False)
        return self.out


# ------------------------------------------------------------------------------------------------
# generator of the REST of the syntax (match, type declarations, use / mod / pub, stage directives, macro definitions and
# calls, quote / splice, include, strings with backslashes / line breaks, record update and incomplete records, default
# parameters, union / record / array / code / function types, lambda return types, placeholders)
# ------------------------------------------------------------------------------------------------
CTORS = ["A", "B", "Nil", "Cons", "Leaf", "Node2", "Some", "None_"]
MODS = ["m", "osc", "util", "fx"]
TNAMES = ["T", "Shape", "L", "Freq", "Pair"]
STRS = ['"x\\\\y"', '"// not comment"', '"/* neither */"', '"tab\\there"', '"q\\n"', '"plain"', '""', '"two\nlines"', '"semi;colon"', '"it\'s"']


class XGen(FGen):
    """FGen + the rest of the syntax.  `ext` = set of enabled extension features:
       match type use mod pub stage macrodef include quote macrocall path record default string lamret placeholder"""

    def __init__(self, rng, risky=False, ext=None):
        super().__init__(rng, risky)
        self.ext = set(ext or [])
        self.stage_macro = False

    def on(self, f, num=1, den=1):
        return f in self.ext and self.r.chance(num, den)

    # ---- types -------------------------------------------------------------------------------
    def type_(self, d, union_ok=False):
        r = self.r.below(12 if d > 0 else 4)
        if r < 3:
            self.t(self.r.choice(["float", "int", "string"]))
        elif r == 3:
            self.t(self.r.choice(TNAMES))
            if self.r.chance(1, 4):
                self.t("::"); self.t(self.r.choice(TNAMES))
        elif r == 4:        # tuple type; `(T,)` is the one-element tuple type, `(T)` a parenthesised type
            self.t("(")
            n = self.r.range(1, 3)
            for i in range(n):
                if i: self.t(",")
                self.type_(d - 1)
            if n == 1 or (self.risky and self.r.chance(1, 8)): self.t(",")
            self.t(")")
        elif r == 5:        # record type
            self.t("{")
            n = self.r.range(1, 3)
            for i in range(n):
                if i: self.t(",")
                self.t(self.name()); self.t(":"); self.type_(d - 1)
            self.t("}")
        elif r == 6:        # function type
            self.t("(")
            n = self.r.range(0, 2)
            for i in range(n):
                if i: self.t(",")
                self.type_(d - 1)
            self.t(")"); self.t("->"); self.type_(d - 1)
        elif r == 7:        # array type
            self.t("["); self.type_(d - 1); self.t("]")
        elif r == 8:        # code type
            self.t("`"); self.type_(d - 1)
        elif r == 9:        # parenthesised type / unit
            self.t("(")
            if self.r.chance(1, 2):
                self.type_(d - 1)
            self.t(")")
        elif r == 10 and union_ok:
            self.t(self.r.choice(["float", "int", "string"]))
            for _ in range(self.r.range(1, 2)):
                self.t("|"); self.t(self.r.choice(["float", "int", "string", "(float, float)"][:3]))
        else:
            self.t("float")

    # ---- patterns of match -------------------------------------------------------------------
    def mpattern(self, d, top=True):
        r = self.r.below(10)
        if r < 3:
            self.t(str(self.r.below(10)))
        elif r == 3:
            self.t(f"{self.r.below(10)}.{self.r.below(10)}")
        elif r == 4:
            self.t("_")
        elif r < 8:
            self.t(self.r.choice(CTORS + ["float", "string", "int"]))
            k = self.r.below(5)
            if k == 0:
                pass
            elif k == 1:
                self.t("("); self.t(self.name()); self.t(")")
            elif k == 2:
                self.t("("); self.t("_"); self.t(")")
            elif k == 3:      # Name(a, b): tuple pattern
                self.t("("); self.t(self.name()); self.t(","); self.t(self.name())
                if self.r.chance(1, 4):
                    self.t(","); self.t("_")
                self.t(")")
            else:             # Name((a, b))
                self.t("("); self.t("("); self.t(self.name()); self.t(","); self.t(self.name()); self.t(")"); self.t(")")
        else:
            if d > 0 and (top is False or "matchparen" in self.ext):
                self.t("(")
                n = self.r.range(1, 3)
                for i in range(n):
                    if i: self.t(",")
                    self.mpattern(d - 1, False)
                if n == 1 and self.r.chance(1, 2): self.t(",")
                self.t(")")
            else:
                self.t("_")

    def match_(self, d):
        self.t("match")
        k = self.r.below(4)
        if k == 0:
            self.t("("); self.expr(d - 1); self.t(")")
        elif k == 1:
            self.t(self.name())
        elif k == 2:
            self.args(d, 2, 3)
        else:
            self.nonopen(d - 1)
        self.t("{")
        n = self.r.range(1, 4)
        for i in range(n):
            first = len(self.out)
            self.mpattern(1)
            self.t("=>")
            if self.r.chance(1, 3):
                self.block(d - 1)
            else:
                self.expr(d - 1)
            if i + 1 < n or self.r.chance(1, 3):
                # separator: comma (line breaks may follow it, none may precede it) or a line break
                if self.r.chance(1, 2):
                    self.t(",", "nonl")
                else:
                    self.t("\n", "sep")
        self.t("}")

    # ---- new primaries -----------------------------------------------------------------------
    def xprimary(self, d):
        """returns True when it produced something"""
        r = self.r.below(12)
        if r == 0 and self.on("match") and d > 0:
            self.match_(d); return True
        if r == 1 and self.on("quote") and d > 0:
            self.t("`")
            if self.r.chance(1, 2): self.block(d - 1)
            else: self.primary(d - 1)
            return True
        if r == 2 and self.on("quote"):
            self.t("$"); self.t(self.name())
            if self.r.chance(1, 3): self.args(d, post=True)
            return True
        if r == 3 and self.on("macrocall"):
            if self.on("path", 1, 3):
                self.t(self.r.choice(MODS)); self.t("::")
            self.t(self.r.choice(FNAMES)); self.t("!"); self.args(d, 0, 3)
            return True
        if r == 4 and self.on("path"):
            self.t(self.r.choice(MODS)); self.t("::")
            if self.r.chance(1, 3):
                self.t(self.r.choice(MODS)); self.t("::")
            self.t(self.r.choice(FNAMES))
            if self.r.chance(2, 3): self.args(d, post=True)
            return True
        if r == 5 and self.on("record") and d > 0:
            k = self.r.below(5)
            self.t("{")
            if k == 0:      # update
                self.t(self.name()); self.t("<-")
                n = self.r.range(1, 3)
                for i in range(n):
                    if i: self.t(",")
                    self.t(self.name()); self.t("="); self.expr(d - 1)
                if self.risky and self.r.chance(1, 6): self.t(",")
            elif k == 1:    # incomplete
                n = self.r.range(0, 2)
                for i in range(n):
                    self.t(self.name()); self.t("="); self.expr(d - 1); self.t(",")
                self.t("..")
            else:
                n = self.r.range(1, 4)
                for i in range(n):
                    if i: self.t(",")
                    self.t(self.name()); self.t("="); self.expr(d - 1)
                if self.risky and self.r.chance(1, 6): self.t(",")
            self.t("}")
            return True
        if r == 6 and self.on("string"):
            self.t(self.r.choice(STRS)); return True
        if r == 7 and self.on("placeholder"):
            self.t(self.r.choice(FNAMES)); self.t("(", "post")
            n = self.r.range(1, 3)
            ph = self.r.below(n)
            for i in range(n):
                if i: self.t(",")
                if i == ph: self.t("_")
                else: self.expr(d - 1)
            self.t(")")
            return True
        if r == 8 and self.on("lamret") and d > 0:
            self.t("|")
            n = self.r.range(0 if self.risky else 1, 3)
            for i in range(n):
                if i: self.t(",")
                self.t(self.name())
                if self.r.chance(1, 2):
                    self.t(":"); self.type_(1)
            self.t("|")
            if self.r.chance(2, 3):
                self.t("->"); self.type_(1, union_ok="lamunion" in self.ext)
            if self.r.chance(1, 2):
                self.block(d - 1)
            else:
                self.expr(d - 1, in_lambda=True)
            return True
        return False

    def primary(self, d):
        if self.ext and self.r.chance(1, 4) and self.xprimary(d):
            return
        super().primary(d)

    # ---- statements --------------------------------------------------------------------------
    def stmt(self, d, last):
        if self.ext and self.r.chance(1, 6):
            r = self.r.below(3)
            if r == 0 and self.on("record"):
                self.t("let"); self.t("{")
                n = self.r.range(1, 3)
                for i in range(n):
                    if i: self.t(",")
                    self.t(self.name()); self.t("="); self.t(self.name())
                self.t("}"); self.t("="); self.expr(d); self.t("\n", "sep"); return
            if r == 1 and self.on("lamret"):
                self.t("let"); self.t(self.name()); self.t(":"); self.type_(2); self.t("="); self.expr(d); self.t("\n", "sep"); return
        super().stmt(d, last)

    def params(self):
        self.t("(")
        k = self.r.below(4)
        for j in range(k):
            if j: self.t(",")
            self.t(self.name())
            if self.r.chance(1, 3):
                self.t(":"); self.type_(1, union_ok=True) if self.on("lamret") else self.t("float")
            if self.on("default", 1, 3):
                self.t("="); self.expr(1)
        if k and self.risky and self.r.chance(1, 8): self.t(",")
        self.t(")")

    def fndecl(self, i, kw="fn"):
        self.t(kw); self.t(self.r.choice(FNAMES) + str(i))
        self.params()
        if self.r.chance(1, 4):
            self.t("->")
            if self.on("lamret"): self.type_(2)
            else: self.t(self.r.choice(["float", "(float,float)", "(float)->float"]))
        self.block(self.r.range(1, 3))
        self.t("\n", "sep")

    def typedecl(self):
        self.t("type")
        k = self.r.below(4)
        if k == 0:
            self.t("alias"); self.t(self.r.choice(TNAMES)); self.t("="); self.type_(2, union_ok=True)
        else:
            if k == 1: self.t("rec")
            self.t(self.r.choice(TNAMES)); self.t("=")
            n = self.r.range(1, 4)
            for i in range(n):
                if i: self.t("|")
                self.t(self.r.choice(CTORS))
                if self.r.chance(1, 2):
                    self.t("(")
                    m = self.r.range(1, 3)
                    for j in range(m):
                        if j: self.t(",")
                        self.type_(1)
                    self.t(")")
        self.t("\n", "sep")

    def use_(self):
        self.t("use"); self.t(self.r.choice(MODS))
        for _ in range(self.r.below(2)):
            self.t("::"); self.t(self.r.choice(MODS))
        k = self.r.below(4)
        self.t("::")
        if k == 0:
            self.t("*")
        elif k == 1:
            self.t("{")
            n = self.r.range(0, 3)
            for i in range(n):
                if i: self.t(",")
                self.t(self.r.choice(FNAMES))
            self.t("}")
        else:
            self.t(self.r.choice(FNAMES))
        self.t("\n", "sep")

    def mod_(self, d):
        self.t("mod"); self.t(self.r.choice(MODS))
        if self.r.chance(1, 6):
            self.t("\n", "sep"); return        # external module: `mod m` + line break / `;`
        self.t("{")
        for i in range(self.r.range(0, 3)):
            self.toplevel(i + 10 * d, d - 1)
        self.t("}")
        self.t("\n", "sep")

    def toplevel(self, i, d=1):
        r = self.r.below(14)
        pub = self.on("pub", 1, 3)
        if r == 0 and self.on("type"):
            if pub: self.t("pub")
            self.typedecl()
        elif r == 1 and self.on("use"):
            if pub: self.t("pub")
            self.use_()
        elif r == 2 and self.on("mod") and d > 0:
            if pub: self.t("pub")
            self.mod_(d)
        elif r == 3 and self.on("stage"):
            self.t("#"); self.t("stage"); self.t("("); self.t(self.r.choice(["main", "macro"])); self.t(")"); self.t("\n", "sep")
        elif r == 4 and self.on("macrodef"):
            self.fndecl(i, "macro")
        elif r == 5 and self.on("include"):
            self.t("include"); self.t("("); self.t('"lib%d.mmm"' % self.r.below(3)); self.t(")"); self.t("\n", "sep")
        elif r < 11:
            if pub: self.t("pub")
            self.fndecl(i)
        else:
            self.stmt(self.r.range(1, 3), False)

    def program(self):
        n = self.r.range(1, 4)
        for i in range(n):
            self.toplevel(i)
        return self.out


def wordish(s):
    return bool(s) and (s[-1].isalnum() or s[-1] in '_"')


def must_space(pt, s):
    """two adjacent tokens that would lex differently when glued"""
    a, b = pt[-1:], s[:1]
    if wordish(pt) and (b.isalnum() or b in '_"'):
        return True
    if pt in BINOPS and s in ("-", "+"):
        return True
    pairs = {("-", "-"), ("-", ">"), ("|", "|"), ("|", ">"), ("/", "/"), ("/", "*"), ("<", "-"), ("<", "="), (">", "="),
             ("=", "="), ("=", ">"), ("!", "="), ("&", "&"), (":", ":"), (".", "."), ("*", "/")}
    if (a, b) in pairs:
        return True
    if a.isdigit() and b == ".":
        return True
    if a == "." and b.isdigit():
        return True
    return False


def layout(rng, toks, comments=True, risky=False, multiline=True):
    """random layout of a token list: spaces, redundant blank lines, line breaks inside brackets / after operators,
    `;` separators, line and block comments (numbered, so that their order is observable); block comments may span
    several lines.  flags: 'sep' statement separator, 'post' postfix opener (no line break before it),
    'nonl' no line break before it (the comma after a match arm)"""
    out = []
    cn = [0]

    def comment(kind):
        cn[0] += 1
        if kind == 'L':
            return f"// c{cn[0]}"
        if multiline and rng.chance(1, 4):
            k = rng.below(3)
            body = ["\n   more", "\n\n * x\n", "\n\t  deep\n      deeper "][k]
            return f"/* c{cn[0]}{body}*/"
        return f"/* c{cn[0]} */"
    prev = None
    for i, (s, fl) in enumerate(toks):
        if "sep" in fl:
            r = rng.below(6)
            sep = "\n" if r < 3 else ("\n\n" if r == 3 else (";" if r == 4 else " \n   "))
            if comments and rng.chance(1, 6):
                sep = " " + comment('L') + "\n" + (sep if sep != ";" else "")
            elif comments and rng.chance(1, 12):
                sep = " " + comment('B') + sep
            out.append(sep)
            prev = None
            continue
        if prev is not None:
            pt = prev[0]
            must = must_space(pt, s)
            r = rng.below(20)
            if "post" in fl or "nonl" in fl:
                gap = "" if r < 16 else " "
                if comments and rng.chance(1, 30):
                    gap = " " + comment('B') + " "
            else:
                if r < 9:
                    gap = " "
                elif r < 13:
                    gap = "" if not must else " "
                elif r < 15:
                    gap = "   "
                elif r < 18:
                    gap = "\n" + " " * rng.below(9)
                    if rng.chance(1, 4):
                        gap = "\n" + gap
                else:
                    gap = " "
                if comments and rng.chance(1, 14):
                    on_reconstructed = pt in (",", "{", "}")
                    if not on_reconstructed or risky or rng.chance(1, 8):
                        if rng.chance(1, 2):
                            gap = " " + comment('B') + gap
                        else:
                            gap = " " + comment('L') + "\n" + " " * rng.below(5)
            if must and gap == "":
                gap = " "
            out.append(gap)
        out.append(s)
        prev = (s, fl)
    src = "".join(out)
    if rng.chance(1, 12):
        src = src.replace("\n", "\r\n")
    if comments and rng.chance(1, 10):
        src = comment('L') + "\n" + src
    if rng.chance(1, 2) and not src.endswith("\n"):
        src += "\n"
    return src


def gen_source(rng, risky=False, ext=None):
    g = XGen(rng, risky, ext) if ext else FGen(rng, risky)
    toks = g.program()
    return layout(rng, toks, comments=True, risky=risky)


# ------------------------------------------------------------------------------------------------
# layout / comment mutations of an existing source (token texts from the harness locate the gaps)
# ------------------------------------------------------------------------------------------------
def gaps_of(src, toks):
    """[(start, end)] of the whitespace / line-break gaps between consecutive non-trivia-or-comment tokens"""
    pos = 0
    spans = []
    for t in toks:
        if t == "N":
            continue
        text = t[1:].split("\x1f", 1)[1] if t[0] == 'T' else t[1:]
        j = src.find(text, pos)
        if j < 0:
            return None
        spans.append((j, j + len(text), t))
        pos = j + len(text)
    gaps = []
    for (a0, a1, ta), (b0, b1, tb) in zip(spans, spans[1:]):
        gaps.append((a1, b0, ta, tb))
    return gaps


def mutate_layout(rng, src, toks, n_mut=None):
    gaps = gaps_of(src, toks)
    if not gaps:
        return None
    n_mut = n_mut or rng.range(1, max(2, len(gaps) // 6))
    chosen = {}
    cn = 0
    for _ in range(n_mut):
        gi = rng.below(len(gaps))
        a, b, ta, tb = gaps[gi]
        g = src[a:b]
        if ta[0] == 'L':
            continue       # the gap after a line comment starts with its line break
        after = ta[1:].split("\x1f", 1)[1] if ta[0] == 'T' else ""
        before_k = tb[1:].split("\x1f", 1)[0] if tb[0] == 'T' else ""
        has_nl = ("\n" in g) or (";" in g)
        r = rng.below(8)
        cn += 1
        if has_nl:
            if r == 0: new = g + "\n"
            elif r == 1: new = "\n" + " " * rng.below(12)
            elif r == 2: new = " // m%d" % cn + g
            elif r == 3: new = " /* m%d */" % cn + g
            elif r == 4: new = g + "/* m%d */ " % cn
            elif r == 5: new = "\n\n\n"
            elif r == 6: new = ";" if g.strip(" \t\r\n") == "" and rng.chance(1, 2) else g
            else: new = g.replace("\n", "\n  ")
        else:
            if r == 0: new = g + "  "
            elif r == 1: new = " /* m%d */ " % cn
            elif r == 2 and g != "": new = " "
            elif r in (3, 4, 5) and before_k not in ("ParenBegin", "ArrayBegin", "Dot") and g != "":
                new = "\n" + " " * rng.below(10)       # a line break where the grammar does not care
            elif r == 6 and (after in (",", "(", "[") or after in BINOPS):
                new = " // m%d\n " % cn
            else:
                new = g
        chosen[gi] = new
    out = []
    last = 0
    for gi, (a, b, _, _) in enumerate(gaps):
        if gi in chosen:
            out.append(src[last:a])
            out.append(chosen[gi])
            last = b
    out.append(src[last:])
    return "".join(out)


# ------------------------------------------------------------------------------------------------
# interactive harness client + shrinker (token-range deletion keeping "valid input, same unexplained symptom")
# ------------------------------------------------------------------------------------------------
class Client:
    def __init__(self, exe):
        self.exe = exe
        self.p = None

    def ask(self, req):
        for _ in range(2):
            if self.p is None or self.p.poll() is not None:
                self.p = subprocess.Popen([self.exe], stdin=subprocess.PIPE, stdout=subprocess.PIPE, stderr=subprocess.DEVNULL, text=True)
            try:
                self.p.stdin.write(json.dumps(req) + "\n")
                self.p.stdin.flush()
                l = self.p.stdout.readline()
                if l:
                    return json.loads(l)
            except (BrokenPipeError, ValueError):
                pass
            self.p = None
        return {"crash": "died"}

    def close(self):
        if self.p is not None:
            try:
                self.p.stdin.close()
                self.p.wait(timeout=5)
            except Exception:
                self.p.kill()


def classes_of(ans_in, findings=None):
    if not CLASSES:
        return []
    t = parse_cst(ans_in["cst"])
    return [n for n, (p, ex) in CLASSES.items() if (findings is None or n in findings) and p(t, ans_in["toks"])]


def unexplained(ans, findings=None):
    """{(w,i): symptoms not explained by a known class}, classes present; None when the input is not a valid program"""
    if "in" not in ans or ans["in"]["cst_errs"] > 0:
        return None, []
    cl = classes_of(ans["in"], findings)
    expl = set()
    for n in cl:
        expl |= CLASSES[n][1]
    bad = {}
    for run in ans["runs"]:
        s = symptoms(ans["in"], run) - expl
        if s:
            bad[(run["w"], run["i"])] = s
    return bad, cl


def shrink(client, src, key, want, findings=None, path=None, budget=400):
    """smallest source found (deleting token ranges / lines) that is still valid and still shows symptom `want` at config `key`
    outside every known class"""
    w, i = key

    def test(s):
        a = client.ask({"m": "fmt", "src": s, "widths": [w], "indents": [i], "cst": True, "path": path})
        bad, _ = unexplained(a, findings)
        return bool(bad) and want in bad.get((w, i), set())
    best = src
    n_tests = 0
    # pieces: split keeping separators
    for splitter in (r'(\n)', r'(\s+|[(),\[\]{}])'):
        parts = [p for p in re.split(splitter, best) if p != ""]
        chunk = max(1, len(parts) // 2)
        while chunk >= 1 and n_tests < budget:
            k = 0
            changed = False
            while k < len(parts) and n_tests < budget:
                cand = parts[:k] + parts[k + chunk:]
                s = "".join(cand)
                n_tests += 1
                if s != best and test(s):
                    parts = cand
                    best = s
                    changed = True
                else:
                    k += chunk
            if not changed:
                chunk //= 2
    return best


# ------------------------------------------------------------------------------------------------
# model side (extracted Coq model, ocaml/fmt_drv.ml)
# ------------------------------------------------------------------------------------------------
def esc(s):
    return s.replace("\\", "\\\\").replace("\n", "\\n").replace("\r", "\\r").replace("\t", "\\t")


def unesc(s):
    out, i = [], 0
    while i < len(s):
        if s[i] == "\\" and i + 1 < len(s):
            i += 1
            out.append({"n": "\n", "r": "\r", "t": "\t"}.get(s[i], s[i]))
        else:
            out.append(s[i])
        i += 1
    return "".join(out)


def leading_comments(toks):
    """cst_print.rs extract_file_leading_comments: the comments before the first syntax token that are followed by a line
    break before that token (the pre-parser attaches them to no token), each followed by a newline; all comments when the
    text has no syntax token"""
    out, pending = [], []
    for t in toks:
        if t[0] == 'T':
            return "".join(out)
        if t[0] in "LB":
            pending.append(t[1:] + "\n")
        elif t == "N":
            out += pending
            pending = []
    return "".join(out + pending)


def model_requests(ans):
    """one driver line per run of a harness answer (cst dump of the source required)"""
    lines = []
    lead = leading_comments(ans["in"]["toks"])
    for run in ans["runs"]:
        if run["st"] != "ok":
            continue
        out = run["out"]
        body = out[len(lead):] if out.startswith(lead) else None
        lines.append((run, "\t".join([str(run["i"]), ans["in"]["cst"], esc(body if body is not None else "\x00"),
                                      run.get("o", {}).get("cst", "-")])))
    return lines


def run_model(exe, lines, timeout=900):
    if not lines:
        return []
    shards = min(NPROC, max(1, len(lines) // 16))
    chunks = [lines[i::shards] for i in range(shards)]
    res = {}

    def work(k):
        text = "\n".join(chunks[k]) + "\n"
        p = subprocess.run([exe], input=text, stdout=subprocess.PIPE, stderr=subprocess.PIPE, text=True, timeout=timeout)
        outs = [l for l in p.stdout.split("\n") if l]
        return p.returncode, outs
    with concurrent.futures.ThreadPoolExecutor(max_workers=shards) as ex:
        for k, (rc, outs) in enumerate(ex.map(work, range(shards))):
            if rc != 0 or len(outs) != len(chunks[k]):
                raise RuntimeError(f"model driver failed rc={rc} answered={len(outs)}/{len(chunks[k])}")
            for j, o in enumerate(outs):
                res[k + j * shards] = o
    return [res[i] for i in range(len(lines))]


def parse_model_answer(l):
    if l.startswith("E"):
        return {"err": l[1:]}
    f = l.split("\t")
    ws = lambda s: [unesc(x) for x in s.split("\x1f")] if s else []
    return {"frag": f[0] == "F1", "admits": f[1] == "A1", "safe": f[2] == "S1", "samedoc": f[3][1:],
            "dwords": ws(f[4]) if len(f) > 4 else [], "cwords": ws(f[5]) if len(f) > 5 else [],
            "keeps": len(f) > 6 and f[6] == "K1"}


# ------------------------------------------------------------------------------------------------
# re-layout preserving exactly what the parser observes (hypothesis of C14_breaks_safe_same_parse_partial)
# ------------------------------------------------------------------------------------------------
NON_EXPR_KEYWORDS = {"fn", "macro", "let", "letrec", "if", "else", "match", "include", "stage", "main", "mod", "use", "pub", "type",
                     "alias", "rec", "float", "int", "string", "struct"}      # Fmt.Model.non_expr_keywords


def m_ends_expr(p):
    c = p[-1:]
    return p not in NON_EXPR_KEYWORDS and bool(c) and (c.isalnum() or c in '_")]}' or ord(c) >= 128)


def m_sensitive(st, p, w):
    """Fmt.Model.sensitive: a line break between p and w can change the parse (postfix openers after an expression; the
    comma after a match arm = a comma at the depth of a `{` that was written directly after the end of an expression).
    st = [p is the name of a function / macro declaration, bracket stack]"""
    return not st[0] and m_ends_expr(p) and (w in ("(", "[", ".") or (w == "," and bool(st[1]) and st[1][-1]))


def m_ctx_step(st, p, w):
    """Fmt.Model.ctx_step (the stack grows at the end)"""
    can_end = p is not None and not st[0] and m_ends_expr(p)
    st[0] = p in ("fn", "macro")
    if w in ("(", "[", "{"):
        st[1].append(w == "{" and can_end)
    elif w in (")", "]", "}"):
        if st[1]:
            st[1].pop()


def relayout(rng, toks):
    """new text with the same syntax tokens and comments and the same line-break flag at every sensitive position
    (Fmt.Model.sensitive); everywhere else a line break is added or removed at random"""
    out = []
    prev = None          # previous syntax token text
    pend_nl = False      # a line break seen since the previous syntax token
    after_line_comment = False
    first = True
    st = [False, []]     # context (Fmt.Model.ctx)
    for t in toks:
        if t == "N":
            pend_nl = True
            continue
        if t[0] in "LB":
            txt = t[1:]
            if not first:
                out.append("\n" if after_line_comment else " ")
            out.append(txt)
            after_line_comment = t[0] == 'L'
            first = False
            continue
        w = t[1:].split("\x1f", 1)[1]
        if not first:
            sens = prev is not None and m_sensitive(st, prev, w)
            if sens:
                nlb = pend_nl
            else:
                nlb = rng.chance(1, 3)
            if after_line_comment:
                # the line break that ends the comment is there anyway; it counts for the parser
                if sens and not pend_nl:
                    return None      # cannot be represented (does not occur: a line comment is followed by a LineBreak token)
                gap = "\n" + " " * rng.below(4)
            elif nlb:
                gap = "\n" * rng.range(1, 2) + " " * rng.below(6)
            else:
                gap = " " * rng.range(1, 2)
            out.append(gap)
        out.append(w)
        m_ctx_step(st, prev, w)
        prev = w
        pend_nl = False
        after_line_comment = False
        first = False
    return "".join(out) + ("\n" if after_line_comment or rng.chance(1, 2) else "")


# ------------------------------------------------------------------------------------------------
# witnesses of the findings: (class, source, what the REAL formatter must show for the finding to be alive)
# (the same sources are the witnesses of the `_refuted` theorems in Props/C14.v, see Fmt/Witness.v)
# ------------------------------------------------------------------------------------------------
WITNESSES = [
]

# the features of XGen
EXT_ALL = set("lamunion match matchparen type use mod pub stage macrodef include quote macrocall path record default string "
              "lamret placeholder".split())

# witnesses of the repaired printer defects (F6 F6t FM1..FM14): every fact must hold on them now
REPAIRED = [
    "macro m(x){ x }\n",                                              # FM11 `macrom(x)`
    "mod m { use a::b\n use c::d }\nmod k { x\n (a) }\n",              # FM12 `mod m {use a::buse c::d}` `mod k {x(a)}`
    "mod m { let x = 1\n fn f(){ x }\n // c\n }\npub mod n { }\nmod o;\nfn dsp(){ 1 }\n",
    "fn dsp(){ match p {\n 0 => f\n (1, 2) => 2.0 } }\n",             # FM13 `0 => f (1, 2) => 2.0`
    "fn dsp(){ match p {\n (0, 1) => f, (1, 2) => 2.0\n (3, _) => g } }\n",
    "let f = |x|->float|string x\n",                                  # FM14 `float|stringx`
    "fn dsp(){ let x = 1\n match x { 0 => 1.0, _ => 2.0 } }\n",
    "type T = A | B(float)\nfn dsp(){ 1.0 }\n",
    "type alias Freq = float\ntype rec L = Nil | Cons(float, L)\nfn dsp(){ 1.0 }\n",
    "if gate {x}",
    "| | x",
    "fn f(x:float){x}",
    "fn f(x:float, y = 2.0)->float{ x }",
    "fn f(){ let {x = p, y = q} = r\n x }",
    "(a, /* c */ b)",
    "fn f(){ 1 } // done\n// about g\nfn g(){ 2 }\n// end\n",
    "/* a */ fn f(){ 1 }\n",
    "if (c)\n (a, b) else d",
    "if (c)\n [a] else [b]",
    "(a,)",
    "- -x",
    "if (a) x = 1 else y",
    # FM10 (parser, is_tuple_expr): a comma inside nested brackets / lambda bars does not make the parenthesis a tuple
    "([a,])",
    "([a, b])",
    "({a = 1,})",
    "(|x, y| x + y)",
    "(f([a, b]), c)",
]


COUNTED_KINDS = {"MatchExpr", "TypeDecl", "UseStmt", "UseTargetMultiple", "UseTargetWildcard", "ModuleDecl", "VisibilityPub",
                 "StageDecl", "MacroExpansion", "BracketExpr", "EscapeExpr", "IncludeStmt", "ParamDefault", "UnionType", "RecordType",
                 "FunctionType", "ArrayType", "CodeType", "QualifiedPath", "RecordExpr", "PlaceHolderLiteral", "ConstructorPattern"}


def constructs_of(ans_in):
    """which of the constructs of interest a valid program contains (measured frequency of the generator)"""
    cst = ans_in.get("cst", "")
    ks = set(re.findall(r"\((\w+) ", cst)) & COUNTED_KINDS
    if "(FunctionDecl [Macro " in cst: ks.add("macro-definition")
    if "[LeftArrow " in cst: ks.add("record-update")
    if "[DoubleDot " in cst: ks.add("incomplete-record")
    if "(MatchArm (MatchPattern (TuplePattern" in cst:
        for x in walk(parse_cst(cst)):
            if x[0] == 'N' and x[1] == "MatchArmList":
                for u, v in zip(x[2], x[2][1:]):
                    ft = first_token(v)
                    if u[0] == 'N' and ft is not None and ft[1] == "ParenBegin":
                        ks.add("match-arm-with-paren-after-line-break")
    toks = ans_in.get("toks", [])
    if any(t[0] == "B" and "\n" in t for t in toks): ks.add("multi-line-block-comment")
    if any(t[0] == "T" and t.startswith("TStr\x1f") and ("\\" in t or "\n" in t) for t in toks): ks.add("string-with-backslash-or-line-break")
    return ks


_QUOTED = re.compile(r'"(?:[^"\\]|\\.)*"')


def tree_comments(cst):
    """the comments of the green-tree dump in leaf order (leading then trailing trivia of every token)"""
    out = []
    for m in _QUOTED.finditer(cst):
        p = m.start()
        if p >= 2 and cst[p - 1] in "LB" and cst[p - 2] in "( ":
            out.append(cst[p - 1] + unesc(m.group(0)[1:-1]))
    return out


def surviving_comments(toks):
    """the comment tokens of the source in order, without those the pre-parser drops (before the first syntax token, followed
    by a line break before it: Fmt.Attach.survivors)"""
    out, pending, seen_syntax = [], [], False
    for t in toks:
        if t[0] == 'T':
            seen_syntax = True
            out += pending
            pending = []
        elif t[0] in "LB":
            (out if seen_syntax else pending).append(t)
        elif t == "N" and not seen_syntax:
            pending = []
    return out if seen_syntax else []


def shipped_sources():
    files = sorted(f for f in glob.glob(os.path.join(REPO, "**", "*.mmm"), recursive=True)
                   if os.sep + "target" + os.sep not in f)
    return files


def run(ck):
    ck.level = "other"
    proved = ck.prove(extra_targets=["theories/Extract/FmtExtract.vo"])
    quick = ck.tier == "quick"

    # ---- build both sides ----
    rc, out, exe_m = ocaml_build("fmt_drv", ["fmt_model"], os.path.join(VERIF, "ocaml", "fmt_drv.ml"))
    model_ok = rc == 0
    if not model_ok:
        ck.broken.append("model-build: " + out[-400:])
    rc, out, bindir = cargo_build("lang", ["fmt_run"])
    if rc != 0:
        ck.broken.append("harness-build: " + out[-800:])
        ck.violation("harness does not build against the repository", {"cargo_output": out[-3000:]}, no_input=True)
        return finish(ck)
    exe = os.path.join(bindir, "fmt_run")
    findings = {f["cls"]: f for f in known_findings("C14")}

    # ---- sources ----
    S = []     # (origin, src, path)
    if ck.replay:
        rp = json.load(open(ck.replay))["replay"]
        if "src" in rp:
            S.append(("replay", rp["src"], rp.get("path")))
    w_idx = {}
    for cls, src, _ in WITNESSES:
        w_idx[cls] = len(S)
        S.append(("witness:" + cls, src, None))
    for src in REPAIRED:
        S.append(("corpus", src, None))
    cdir = os.path.join(VERIF, "corpus", "C14")
    for f in sorted(glob.glob(os.path.join(cdir, "*.mmm"))):
        S.append(("corpus", open(f, errors="replace", newline="").read(), None))
    cases = os.path.join(cdir, "cases.txt")       # regression inputs, separated by a line `%%`
    if os.path.exists(cases):
        for c in open(cases, errors="replace", newline="").read().split("\n%%\n"):
            if c.strip():
                S.append(("corpus", c, None))
    n_gen = 2500 if quick else 30000
    n_risky = 500 if quick else 6000
    n_x = 2500 if quick else 30000
    if ck.replay:          # replaying one input: only the input, the witnesses and the corpus
        n_gen = n_risky = n_x = 0
    rng = ck.rng.fork("gen")
    for i in range(n_gen):
        S.append(("gen", gen_source(rng.fork("g%d" % i), False), None))
    for i in range(n_risky):
        S.append(("gen-risky", gen_source(rng.fork("r%d" % i), True), None))
    # the rest of the syntax (every third program also with the risky constructs)
    ext = EXT_ALL
    xr = ck.rng.fork("genx")
    for i in range(n_x):
        S.append(("gen-x", gen_source(xr.fork("x%d" % i), i % 3 == 0, ext), None))
    # lmmm core programs (well typed), decorated by the layout mutator later
    try:
        import lmmm
        lr = ck.rng.fork("lmmm")
        for i in range(0 if ck.replay else (60 if quick else 600)):
            p = lmmm.Gen(lr.fork("p%d" % i)).program()
            S.append(("lmmm", lmmm.pp_prog(p), None))
    except Exception as ex:       # the shared generator is optional
        ck.coverage["lmmm_generator"] = "unavailable: " + str(ex)[:100]
    files = [] if ck.replay else shipped_sources()
    shipped = []
    for f in files:
        try:
            src = open(f, encoding="utf-8").read()
        except (OSError, UnicodeDecodeError):
            continue
        shipped.append((f, src))
        S.append(("shipped", src, f))
    # (c) layout / comment mutations of the shipped sources and of the lmmm programs (token spans from the harness)
    base = [(o, s, p) for (o, s, p) in S if o in ("shipped", "lmmm")]
    pre = run_harness(exe, [{"m": "parse", "src": s, "path": p} for (_, s, p) in base])
    mr = ck.rng.fork("mut")
    k_mut = 3 if quick else 12
    for (o, s, p), a in zip(base, pre):
        if not a or a.get("cst_errs", 1) > 0:
            continue
        for k in range(k_mut):
            m = mutate_layout(mr.fork("%s%d" % (p or s[:40], k)), s, a["toks"])
            if m and m != s:
                S.append(("mut-" + o, m, p))

    # ---- evaluate, in batches (the answers are large: tokens + green trees of input and outputs) ----
    cnt = {}

    def add(k, n=1):
        cnt[k] = cnt.get(k, 0) + n
    viol = []          # (origin, src, path, {config: symptoms})
    crashes = []
    known_hits = {}
    stale = []
    not_admitted = []  # (origin, src, path, w, i)
    idem_mismatch = []
    emits_mismatch = []
    same_parse_mismatch = []
    attach_bad = []
    keeps_false_all = []
    rl_bad = []
    tot = {"frag": 0, "adm": 0, "unsafe": 0, "unsafe_outside": 0, "samedoc0_good": 0, "relayout": 0,
           "harness_s": 0.0, "model_s": 0.0}
    rr = ck.rng.fork("relayout")
    n_rl = 2 if quick else 4
    BATCH = 1500

    def process(lo, hi):
        batch = S[lo:hi]
        reqs = [{"m": "fmt", "src": s, "widths": WIDTHS, "indents": INDENTS, "cst": True, "path": p} for (_, s, p) in batch]
        t0 = time.time()
        res = run_harness(exe, reqs)
        tot["harness_s"] += time.time() - t0
        good = []
        for j, ((o, s, p), a) in enumerate(zip(batch, res)):
            idx = lo + j
            add("sources")
            add("origin:" + o.split(":")[0])
            if a is None or "crash" in a:
                crashes.append((o, s, p, a))
                continue
            if "in_panic" in a:
                add("parser_panics_on_input")
                continue
            bad, cls = unexplained(a, findings)
            if bad is None:
                add("skipped_invalid_input")
                if o.startswith("witness"):
                    stale.append(o + ": witness is not a valid program any more")
                continue
            add("valid_programs")
            add("runs", len(a["runs"]))
            for k in constructs_of(a["in"]):
                add("construct:" + k)
            # C14_trivia_attached_in_order / `decorated` on the real pre-parser and parser: the leaves of the green tree carry
            # every comment the pre-parser does not drop, once, in source order
            tc, sc = tree_comments(a["in"]["cst"]), surviving_comments(a["in"]["toks"])
            add("tree_comment_order_checked")
            add("tree_comments", len(tc))
            if tc != sc:
                attach_bad.append((o, s, p, tc[:6], sc[:6]))
            allsy = set()
            for run_ in a["runs"]:
                allsy |= symptoms(a["in"], run_)
            if not cls:
                add("valid_outside_every_known_class")
            if not allsy:
                add("programs_all_facts_hold")
            for c in cls:
                add("class:" + c)
                if allsy & CLASSES[c][1]:
                    known_hits.setdefault(c, (s, sorted(allsy)))
            if bad:
                viol.append((o, s, p, bad))
            good.append(j)
            if o == "shipped" or idx % 97 == 0:
                ck.sample({"origin": o, "path": p, "source_head": s[:160], "classes": cls,
                           "facts_failing_somewhere": sorted(allsy)}, cap=8)
            # witnesses: the finding must still be alive on the real code, and the source must be in its class
            if o.startswith("witness:"):
                wcls = o.split(":", 1)[1]
                pred = [w for w in WITNESSES if w[0] == wcls][0][2]
                try:
                    alive = bool(pred(a))
                except Exception:
                    alive = False
                if wcls not in classes_of(a["in"]):
                    ck.broken.append(f"class predicate {wcls} does not hold on its own witness")
                    ck.violation(f"class predicate {wcls} does not hold on its witness", {"src": s}, no_input=True)
                if not alive:
                    stale.append(f"{wcls}: witness {s!r} no longer shows the defect")
                elif wcls in findings:
                    ck.known(findings[wcls], f"{s!r} -> {a['runs'][0].get('out', '')!r}")

        # ---- model side: the real output must be an admissible rendering of the model document ----
        frag_src = set()
        if model_ok:
            lines, owner = [], []
            for j in good:
                for run_, l in model_requests(res[j]):
                    lines.append(l)
                    owner.append((j, run_))
            t0 = time.time()
            try:
                outs = run_model(exe_m, lines)
            except Exception as ex:
                outs = None
                ck.broken.append("model driver: " + str(ex)[:300])
            tot["model_s"] += time.time() - t0
            unsafe_srcs = set()
            keeps_false = {}
            for (j, run_), o_ in zip(owner, outs or []):
                m = parse_model_answer(o_)
                if "err" in m:
                    ck.broken.append("model driver error: " + m["err"][:200])
                    continue
                if not m["frag"]:
                    add("runs_outside_fragment")
                    continue
                tot["frag"] += 1
                frag_src.add(j)
                o, s, p = batch[j]
                if m["admits"]:
                    tot["adm"] += 1
                else:
                    not_admitted.append((o, s, p, run_["w"], run_["i"]))
                if not m["safe"]:
                    tot["unsafe"] += 1
                    unsafe_srcs.add(j)
                sy = symptoms(res[j]["in"], run_)
                # hypothesis emits_all of C14_emits_all_same_tokens, decided by the model (commas are re-created by the printer)
                ea = [w for w in m["dwords"] if w != ","] == [w for w in m["cwords"] if w != ","]
                add("fragment_runs_emits_all_" + ("true" if ea else "false"))
                if ea and ({"comments", "tokens"} & sy) and m["admits"] and not classes_of(res[j]["in"], findings):
                    emits_mismatch.append((o, s, p, run_["w"], run_["i"]))
                add("fragment_runs_emits_all_exact_" + ("true" if m["dwords"] == m["cwords"] else "false"))
                # hypothesis keeps_breaks of C14_breaks_as_source / C14_same_parse_as_source_partial, decided by the model: the
                # document forces exactly the line breaks of the source at the sensitive positions
                add("fragment_runs_keeps_breaks_" + ("true" if m["keeps"] else "false"))
                if not m["keeps"]:
                    keeps_false.setdefault(j, (o, s, p))
                if m["keeps"] and ea and m["admits"] and ({"parse", "ast", "expr"} & sy):
                    same_parse_mismatch.append((o, s, p, run_["w"], run_["i"]))
                if m["samedoc"] == "0" and not sy:
                    tot["samedoc0_good"] += 1
                if m["samedoc"] == "1" and "idem" in sy:
                    # the leading-comment wrapper of pretty_print is outside the document (finding FM5)
                    expl = set()
                    for c in classes_of(res[j]["in"], findings):
                        expl |= CLASSES[c][1]
                    if "idem" not in expl:
                        idem_mismatch.append((o, s, p, run_["w"], run_["i"]))
            for j in unsafe_srcs:
                if not classes_of(res[j]["in"]):
                    tot["unsafe_outside"] += 1
            keeps_false_all.extend(keeps_false.values())

        # ---- parser line-break rule (hypothesis of C14_breaks_safe_same_parse_partial) on the real parser ----
        rl_reqs, rl_owner = [], []
        for j in good:
            o, s, p = batch[j]
            if j not in frag_src:
                continue      # the line-break rule is claimed for the fragment only (match arms are separated by line breaks)
            if o.startswith("gen") or o in ("lmmm", "corpus") or (not quick and o == "shipped"):
                for k in range(n_rl):
                    t = relayout(rr.fork("%d.%d" % (lo + j, k)), res[j]["in"]["toks"])
                    if t is not None:
                        rl_reqs.append({"m": "parse", "src": t, "path": p})
                        rl_owner.append((j, t))
        t0 = time.time()
        rl_res = run_harness(exe, rl_reqs) if rl_reqs else []
        tot["harness_s"] += time.time() - t0
        tot["relayout"] += len(rl_reqs)
        for (j, t), a in zip(rl_owner, rl_res):
            o, s, p = batch[j]
            if a is None or "ast" not in a:
                rl_bad.append((o, s, p, t, "parser crashed"))
            elif a["cst_errs"] != 0 or a["ast"] != res[j]["in"]["ast"]:
                rl_bad.append((o, s, p, t, "different parse"))

    for lo in range(0, len(S), BATCH):
        process(lo, min(len(S), lo + BATCH))

    ck.coverage["harness_s"] = round(tot["harness_s"], 1)
    ck.coverage["model_s"] = round(tot["model_s"], 1)
    ck.coverage["findings_not_reproduced"] = stale
    for c, (s, sy) in known_hits.items():
        if c in findings:
            ck.known(findings[c], f"{s[:120]!r} fails {sy}")
    ck.coverage["fragment_runs"] = tot["frag"]
    ck.coverage["fragment_runs_real_output_admitted_by_model"] = tot["adm"]
    ck.coverage["fragment_runs_model_unsafe_breaks"] = tot["unsafe"]
    ck.coverage["sources_model_unsafe_outside_known_class"] = tot["unsafe_outside"]
    ck.coverage["good_runs_where_idempotence_hypothesis_fails"] = tot["samedoc0_good"]
    ck.coverage["relayout_cases"] = tot["relayout"]
    ck.coverage["relayout_parse_differs"] = len(rl_bad)

    # ---- numbers ----
    for k, v in sorted(cnt.items()):
        ck.coverage[k] = v
    ck.coverage["evaluations"] = cnt.get("runs", 0)
    ck.coverage["distinct_nontrivial"] = cnt.get("valid_programs", 0)
    ck.coverage["widths"] = WIDTHS
    ck.coverage["indent_sizes"] = INDENTS
    ck.coverage["shipped_files"] = len(shipped)
    ck.coverage["known_classes_active"] = sorted(findings)

    # ---- verdicts ----
    client = Client(exe)
    for (o, s, p, a) in crashes[:3]:
        ck.violation("the formatter / parser process died on this input", {"src": s, "path": p, "origin": o, "answer": a,
                     "how": "echo '{\"m\":\"fmt\",\"src\":<src>,\"widths\":[80],\"indents\":[4]}' | .cache/target/lang/debug/fmt_run"})
    seen_min = set()
    viol.sort(key=lambda v: len(v[1]))      # shrink the smallest failing programs
    for (o, s, p, bad) in viol[:40]:
        if len(seen_min) >= 4:
            break
        key = sorted(bad)[0]
        want = sorted(bad[key])[0]
        try:
            small = shrink(client, s, key, want, findings, p, budget=250 if quick else 600)
        except Exception:
            small = s
        if small in seen_min:
            continue
        seen_min.add(small)
        a = client.ask({"m": "fmt", "src": small, "widths": [key[0]], "indents": [key[1]], "cst": True, "path": p})
        r0 = (a.get("runs") or [{}])[0]
        ck.violation("the formatter breaks the property on a valid program outside every known class: " + ",".join(sorted(bad[key])),
                     {"src": small, "path": p, "origin": o, "width": key[0], "indent": key[1], "facts_failing": sorted(bad[key]),
                      "output": r0.get("out"), "output_parse_errors": r0.get("o", {}).get("errs"),
                      "original_src": s if len(s) < 4000 else s[:4000],
                      "all_failing_configs": {f"{k[0]}/{k[1]}": sorted(v) for k, v in bad.items()},
                      "how": "./check C14 --replay <this file>   (or: mimium-fmt FILE --width W --indent-size I)"})
    client.close()
    if viol:
        ck.coverage["programs_violating_outside_known_classes"] = len(viol)
    if not_admitted and not viol:
        o, s, p, w, i = not_admitted[0]
        ck.broken.append("correspondence Fmt.Model.doc_of/renderings vs mimium_fmt::pretty_print_cst")
        ck.violation("the real output is not an admissible rendering of the model document (model and implementation disagree)",
                     {"src": s, "path": p, "width": w, "indent": i, "disagreements": len(not_admitted),
                      "correspondence": "Fmt.Model.{doc_of,is_rendering} vs cst_print.rs cst_to_doc + pretty::render"}, no_input=True)
    if idem_mismatch and not viol:
        o, s, p, w, i = idem_mismatch[0]
        ck.broken.append("correspondence: same model document but different second output")
        ck.violation("output and input have the same model document but the formatter is not idempotent on it",
                     {"src": s, "path": p, "width": w, "indent": i}, no_input=True)
    if emits_mismatch and not viol:
        o, s, p, w, i = emits_mismatch[0]
        ck.broken.append("correspondence: model document emits every token/comment and admits the output, yet tokens/comments differ")
        ck.violation("the model says every token and comment is emitted and the output is a rendering, but the real token/comment sequence differs",
                     {"src": s, "path": p, "width": w, "indent": i}, no_input=True)
    ck.coverage["sources_where_keeps_breaks_fails"] = len(keeps_false_all)
    for (o, s, p) in keeps_false_all[:3]:
        ck.sample({"keeps_breaks_false": True, "origin": o, "path": p, "source_head": s[:300]}, cap=12)
    if attach_bad and not viol:
        o, s, p, tc, sc = attach_bad[0]
        ck.broken.append("hypothesis `decorated` of C14_comments_emitted_once_in_order_partial / C14_trivia_attached_in_order on the real pre-parser")
        ck.violation("the leaves of the real green tree do not carry every non-dropped comment of the source once and in source order",
                     {"src": s, "path": p, "tree_comments_head": tc, "expected_head": sc, "cases": len(attach_bad)}, no_input=True)
    if same_parse_mismatch and not viol:
        o, s, p, w, i = same_parse_mismatch[0]
        ck.broken.append("hypothesis of C14_same_parse_as_source_partial: the model says the output has the tokens of the source and "
                         "the line-break flags of the source at every sensitive position, yet it parses differently")
        ck.violation("same tokens and same line-break flags at the sensitive positions as the source (by the model), but the real parser "
                     "gives a different tree for the real output: the parser's line-break rule is not the modelled one",
                     {"src": s, "path": p, "width": w, "indent": i, "cases": len(same_parse_mismatch)}, no_input=True)
    if rl_bad and not viol:
        o, s, p, t, why = rl_bad[0]
        ck.broken.append("hypothesis of C14_breaks_safe_same_parse_partial (parser looks at line breaks only at sensitive positions)")
        ck.violation("two layouts with the same tokens and the same line-break flags at the sensitive positions parse differently: " + why,
                     {"src": s, "relayout": t, "path": p, "cases": len(rl_bad)}, no_input=True)
    if not proved and not viol:
        ck.violation("a proof obligation of Props/C14.v no longer checks", {"broken": ck.broken}, no_input=True)
    return finish(ck)


def finish(ck):
    ck.finish(
        explanation=("Props/C14.v proves, over ALL admissible layouts of a document (every flat/broken choice per group, so every width and "
                     "indent), that laying out preserves the token and comment sequence; that layouts cannot differ for the parser when no "
                     "optional break lies at a sensitive position (before a postfix opener after an expression, before the comma after a match "
                     "arm), in which case the flags the parser sees are the ones the document forces; and that, when these are the flags of the "
                     "source (keeps_breaks, decided per program) and every token and comment is emitted (emits_all, decided per program, proved "
                     "for the nodes printed by concatenation incl. match and type declarations), every rendering parses like the source for any "
                     "parser that is a function of tokens and those flags; idempotence is proved from a re-parse hypothesis. The document builder "
                     "is a transcription of cst_print.rs for the whole syntax, tied to the code by requiring the REAL output at 5 widths x 2 "
                     "indents to be a member of the model's rendering set (sound membership test). The three facts of the property and token "
                     "preservation are evaluated directly on the real formatter and parser for generated programs (two generators covering "
                     "every construct, with line / block / multi-line block comments), every shipped .mmm and layout/comment mutations of "
                     "them; failures are accepted only inside the class predicates of KNOWN_FINDINGS.txt."),
        trusted_base=["Coq 8.16.1 kernel (coqc, vm_compute; no native_compute)",
                      "extraction: ExtrOcamlBasic + ExtrOcamlString only; OCaml 4.13.1; ocaml/fmt_drv.ml (CST reader, kind tables, trailing-newline wrapper of pretty_print)",
                      "harness/lang/src/bin/fmt_run.rs (AST/CST/token dumps) and the python-side fact oracle + class predicates in checks/C14.py",
                      "the width algorithm of the `pretty` crate is not modelled (only the set it chooses from, incl. its next-command indentation rule)",
                      "the parser is represented by its line-break rule; that the real parser depends on layout only through it is tested (re-layout, and keeps_breaks => same parse), not proved",
                      "the sensitive positions are recognised lexically (previous token can end an expression; bracket context for the match-arm comma): an over-approximation that costs applicability of keeps_breaks (~4% of generated layouts), not soundness",
                      "texts with syntax errors (Error nodes) are outside the model; the file-leading-comment wrapper of pretty_print is replicated in python"],
        rule=("valid = the input parses without CST errors; per source 5 widths x 2 indent sizes; generated programs come from a syntactic "
              "generator of the fragment with random layout and numbered comments (a share deliberately contains the known-class constructs), "
              "shipped = every *.mmm under the repository, mutations = random layout/comment edits at token gaps; distinct_nontrivial = valid programs"))
