"""C14 — the formatter never changes a program, loses no comment, and is idempotent.

P: theorems of coq/theories/Props/C14.v over Fmt/Model.v: a Wadler-style document language with the SET of admissible
   renderings (every flat/broken choice per group; the width algorithm of the `pretty` crate is not modelled), the
   document builder `doc_of` for the expression/statement fragment (literal transcription of cst_print.rs) and the
   parser's line-break rule (a line break matters only directly before a postfix `(` `[` `.`).
C: the extracted model (ocaml/fmt_drv.ml) is run on the REAL green tree (dumped by harness/lang/src/bin/fmt_run.rs) of every
   fragment program; the REAL output of mimium_fmt::pretty_print_cst at every width/indent must be one of the model's
   admissible renderings; the model's predictions (tokens/comments the document does not emit, unsafe break points) are
   compared with what the implementation really does.
S: the three facts of the property are evaluated directly on the implementation for every source x width x indent:
   (i) output parses without errors to the same AST, (ii) same comment sequence, (iii) fmt(output) == output,
   (iv) same syntax-token sequence modulo line breaks / `;` and trailing commas.
"""
import concurrent.futures, glob, json, os, re, subprocess, sys, time
from vplib import *

WIDTHS = [1, 20, 40, 80, 200]
INDENTS = [4, 2]

# ------------------------------------------------------------------------------------------------
# the dump of the real green tree:  (Kind child ...)  |  [TokenKind "text" (lead trivia) (trail trivia)]
# trivia items: L"// c"  B"/* c */"  N  W
# python value: ('N', kind, [children]) | ('T', kind, text, lead, trail) with trivia = [('L',text)|('B',text)|('N',)|('W',)]
# ------------------------------------------------------------------------------------------------
def parse_cst(s):
    pos = [0]
    n = len(s)

    def ws():
        while pos[0] < n and s[pos[0]] == ' ':
            pos[0] += 1

    def word():
        st = pos[0]
        while pos[0] < n and s[pos[0]] not in ' ()[]"':
            pos[0] += 1
        return s[st:pos[0]]

    def quoted():
        assert s[pos[0]] == '"'
        pos[0] += 1
        out = []
        while s[pos[0]] != '"':
            c = s[pos[0]]
            if c == '\\':
                pos[0] += 1
                c = {'n': '\n', 'r': '\r', 't': '\t'}.get(s[pos[0]], s[pos[0]])
            out.append(c)
            pos[0] += 1
        pos[0] += 1
        return "".join(out)

    def trivia():
        assert s[pos[0]] == '('
        pos[0] += 1
        out = []
        while True:
            ws()
            c = s[pos[0]]
            if c == ')':
                pos[0] += 1
                return out
            pos[0] += 1
            if c in 'LBX':
                out.append((c, quoted()))
            else:
                out.append((c,))

    def node():
        ws()
        c = s[pos[0]]
        if c == '[':
            pos[0] += 1
            k = word()
            ws()
            t = quoted()
            ws()
            l = trivia()
            ws()
            r = trivia()
            ws()
            assert s[pos[0]] == ']'
            pos[0] += 1
            return ('T', k, t, l, r)
        assert c == '(', (c, pos[0])
        pos[0] += 1
        k = word()
        kids = []
        while True:
            ws()
            if s[pos[0]] == ')':
                pos[0] += 1
                return ('N', k, kids)
            kids.append(node())
    return node()


def walk(t):
    yield t
    if t[0] == 'N':
        for c in t[2]:
            yield from walk(c)


def tokens_of(t):
    return [x for x in walk(t) if x[0] == 'T']


def has_comment(tok):
    return any(x[0] in 'LB' for x in tok[3] + tok[4])


def first_token(t):
    for x in walk(t):
        if x[0] == 'T':
            return x
    return None


DELIMS_OPEN = {"ParenBegin", "BlockBegin", "ArrayBegin"}
DELIMS_CLOSE = {"ParenEnd", "BlockEnd", "ArrayEnd"}
LISTS = {"ParamList", "ArgList", "TupleExpr", "ArrayExpr", "TupleType", "RecordType", "TuplePattern", "RecordPattern"}
WORD = re.compile(r'[A-Za-z0-9_"]')


# ------------------------------------------------------------------------------------------------
# class predicates of the known findings (evaluated on the real green tree of the SOURCE)
# each returns True when the source belongs to the class
# ------------------------------------------------------------------------------------------------
def cls_match_expr(t, toks):
    return any(x[0] == 'N' and x[1] == "MatchExpr" for x in walk(t))


def cls_type_decl(t, toks):
    return any(x[0] == 'N' and x[1] == "TypeDecl" for x in walk(t))


def cls_if_cond_word(t, toks):
    """an `if` whose condition starts with a word-like token (no `(`): printed `ifcond`"""
    for x in walk(t):
        if x[0] == 'N' and x[1] == "IfExpr":
            seen_if = False
            for c in x[2]:
                if c[0] == 'T' and c[1] == "If":
                    seen_if = True
                    continue
                if seen_if:
                    ft = first_token(c)
                    if ft is not None and WORD.match(ft[2][:1] or " "):
                        return True
                    break
    return False


def cls_lambda_no_params(t, toks):
    """`| |` printed as `||` (the OpOr token)"""
    for x in walk(t):
        if x[0] == 'N' and x[1] == "LambdaExpr":
            ks = [c for c in x[2]]
            for a, b in zip(ks, ks[1:]):
                if a[0] == 'T' and b[0] == 'T' and a[1] == b[1] == "LambdaArgBeginEnd":
                    return True
    return False


def list_items(x):
    """children of a delimiter-list node between the delimiters, split at commas"""
    items, cur, seen_open = [], [], False
    for c in x[2]:
        if c[0] == 'T' and c[1] in DELIMS_OPEN and not seen_open:
            seen_open = True
            continue
        if c[0] == 'T' and c[1] in DELIMS_CLOSE:
            break
        if c[0] == 'T' and c[1] == "Comma":
            items.append(cur)
            cur = []
            continue
        if seen_open:
            cur.append(c)
    if cur:
        items.append(cur)
    return items


def cls_multi_node_list_item(t, toks):
    """an item of a (..)/[..]/{..} list printed by print_grouped_list consists of more than one green child
    (typed / defaulted parameter, record-pattern field, record-type field, assignment in a tuple):
    every child is printed as an item of its own, separated by commas"""
    for x in walk(t):
        if x[0] == 'N' and x[1] in LISTS:
            if any(len(it) > 1 for it in list_items(x)):
                return True
    return False


def dropped_trivia_tokens(t):
    """tokens whose trivia the printer never looks up (or looks up only partly)"""
    out = []

    def go(x, parent):
        if x[0] == 'T':
            return
        k = x[1]
        for c in x[2]:
            if c[0] == 'T':
                if c[1] == "Comma" and k in LISTS | {"LambdaExpr", "RecordExpr", "MacroExpansion", "UseTargetMultiple"}:
                    out.append((c, "both"))
                elif k == "BlockExpr" and c[1] == "BlockBegin":
                    out.append((c, "lead"))
                elif k == "BlockExpr" and c[1] == "BlockEnd":
                    out.append((c, "both"))
                elif k == "UseTargetMultiple" and c[1] in ("BlockBegin", "BlockEnd"):
                    out.append((c, "both"))
            else:
                go(c, x)
    go(t, None)
    return out


def cls_comment_on_unprinted_trivia(t, toks):
    """a comment sits in the trivia of a token that the printer re-creates from a constant (`,` of every list, `{`/`}` of a
    block, `{`/`}`/`,` of a use-list) instead of emitting it with its trivia"""
    for tok, which in dropped_trivia_tokens(t):
        tr = tok[3] if which == "lead" else tok[3] + tok[4]
        if any(z[0] in 'LB' for z in tr):
            return True
    return False


def cls_empty_block_comment(t, toks):
    return False


def cls_leading_block_comment(t, toks):
    """a comment before the first syntax token that is NOT followed by a line break is emitted twice (once by
    extract_file_leading_comments, once as leading trivia of the first token)"""
    ts = tokens_of(t)
    return bool(ts) and any(z[0] in 'LB' for z in ts[0][3])


def cls_if_then_open(t, toks):
    """`if c <linebreak> (..)` / `[..]`: the then-branch starts with `(` or `[` and is separated from the condition only by
    the softline, which the flat layout prints as a space: `if(c) (a, b)` re-parses as the call `(c)(a, b)`"""
    for x in walk(t):
        if x[0] == 'N' and x[1] == "IfExpr":
            kids = [c for c in x[2] if not (c[0] == 'T' and c[1] in ("If", "Else"))]
            if len(kids) >= 2:
                ft = first_token(kids[1])
                if ft is not None and ft[1] in ("ParenBegin", "ArrayBegin"):
                    return True
    return False


def cls_single_tuple_trailing_comma(t, toks):
    """`(a,)`: the printer drops the trailing comma that makes it a tuple"""
    for x in walk(t):
        if x[0] == 'N' and x[1] == "TupleExpr":
            its = list_items(x)
            ncommas = sum(1 for c in x[2] if c[0] == 'T' and c[1] == "Comma")
            if len(its) == 1 and ncommas >= 1:
                return True
    return False


# symptoms: parse (output has parse errors) ast (AST differs) comments idem tokens model
ALL = {"parse", "ast", "comments", "idem", "tokens", "expr", "fmt-err"}
CLASSES = {
    "match-expression": (cls_match_expr, ALL),
    "type-declaration": (cls_type_decl, ALL),
    "if-condition-without-parenthesis": (cls_if_cond_word, ALL - {"comments"}),
    "lambda-without-parameters": (cls_lambda_no_params, ALL - {"comments"}),
    "multi-node-list-item": (cls_multi_node_list_item, ALL - {"comments"}),
    "comment-on-reconstructed-token": (cls_comment_on_unprinted_trivia, {"comments", "idem"}),
    "comment-before-first-token-on-its-line": (cls_leading_block_comment, {"comments", "idem"}),
    "if-then-branch-starts-with-bracket": (cls_if_then_open, ALL - {"comments"}),
    "one-element-tuple": (cls_single_tuple_trailing_comma, ALL - {"comments"}),
}


# ------------------------------------------------------------------------------------------------
# the facts of the property on one answer of the harness
# ------------------------------------------------------------------------------------------------
def comments_of(toks):
    return [t for t in toks if t[0] in "LB"]


def syntax_of(toks):
    """syntax tokens modulo what the printer is entitled to change: line breaks and `;` (both are LineBreak trivia) are
    dropped; a comma directly before a closing delimiter (trailing comma) is dropped; comments are compared separately"""
    sy = [t[1:].split("\x1f") for t in toks if t[0] == 'T']
    out = []
    for i, (k, tx) in enumerate(sy):
        if k == "Comma" and i + 1 < len(sy) and sy[i + 1][0] in DELIMS_CLOSE | {"LambdaArgBeginEnd"}:
            continue
        out.append(tx)
    return out


def symptoms(ans_in, run):
    """set of symptom names for one (width, indent) run"""
    s = set()
    if run["st"] != "ok":
        s.add("fmt-err")
        return s
    if "o_panic" in run:
        s.add("parse")
        return s
    o = run["o"]
    if o["cst_errs"] > 0 or o["expr_errs"] > ans_in["expr_errs"]:
        s.add("parse")
    if not run["ast_same"]:
        s.add("ast")
    if not run.get("expr_same", True):
        s.add("expr")
    if comments_of(o["toks"]) != comments_of(ans_in["toks"]):
        s.add("comments")
    if run["again"] != "same":
        s.add("idem")
    if syntax_of(o["toks"]) != syntax_of(ans_in["toks"]):
        s.add("tokens")
    return s


# ------------------------------------------------------------------------------------------------
# harness runner (one answer line per request; a dead process is restarted after the culprit)
# ------------------------------------------------------------------------------------------------
def run_harness(exe, reqs, timeout=900):
    results = [None] * len(reqs)
    shards = min(NPROC, max(1, len(reqs) // 4))
    idx = list(range(len(reqs)))
    chunks = [idx[i::shards] for i in range(shards)]

    def work(chunk):
        todo = list(chunk)
        while todo:
            text = "\n".join(json.dumps(reqs[i]) for i in todo) + "\n"
            try:
                p = subprocess.run([exe], input=text, stdout=subprocess.PIPE, stderr=subprocess.DEVNULL, text=True, timeout=timeout)
                out, rc = p.stdout, p.returncode
            except subprocess.TimeoutExpired as ex:
                out = ex.stdout.decode(errors="replace") if isinstance(ex.stdout, bytes) else (ex.stdout or "")
                rc = "timeout"
            lines = [l for l in out.split("\n") if l]
            good = 0
            for i, l in zip(todo, lines):
                try:
                    results[i] = json.loads(l)
                    good += 1
                except ValueError:
                    break
            if good >= len(todo):
                break
            results[todo[good]] = {"crash": str(rc)}
            todo = todo[good + 1:]
    with concurrent.futures.ThreadPoolExecutor(max_workers=shards) as ex:
        list(ex.map(work, chunks))
    return results
