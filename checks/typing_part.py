"""Type unifier part of C04 / C03 (imported by checks/C04.py):  run_part(ck, quick) -> list of (what, replay_obj).

P: coq/theories/Props/C04_typing.v over Typing/Model.v (literal transcription of get_root, occur_check, unify_vec,
   unify_types, unify_types_args, substitute_type for the fragment Primitive/Array/Tuple/Function/Ref/Code/Boxed/
   Intermediate/Unknown): the occurs check keeps the store acyclic, unification and resolution terminate within an
   explicit fuel bound on acyclic stores, successful unification makes the two types resolve equally (up to boxing, for
   tuple-free results), and the occurs check used before commit 4da95e9 breaks the invariant (witness).
C: extracted model (ocaml/typing_drv.ml) vs the real unifier through hook H3 `typing::verif_unify`
   (harness/lang/src/bin/unify_run.rs) on generated SEQUENCES of unify calls over shared type variables: result of every
   call, then parent pointer, level, resolution and substitute_type of every variable.
S: the property itself on the implementation's answers: after every sequence each variable resolves to a finite type
   (bounded chase in the harness, then the type checker's own substitute_type must return a variable-free type equal to
   the chase); a crash / stack overflow / timeout of the harness process is a violation with the sequence as replay.
"""
import os, re, subprocess, time
import vplib
from vplib import VERIF, log

OCAML = [("typing_drv", ["typing_model"], "ocaml/typing_drv.ml")]
HARNESS = [("lang", ["unify_run"], True)]
COQ_TARGETS = ["theories/Props/C04_typing.vo", "theories/Extract/TypingExtract.vo"]
PROPS = "C04_typing"
BATCH_TIMEOUT_S = 120      # a whole batch of a few thousand sequences takes a second or two
CASE_TIMEOUT_S = 10
MAX_CRASHES = 4            # crashes / hangs of the harness after which the rest of the stream is skipped

PRIMS = ["U", "I", "N", "S"]


# ------------------------------------------------------------------------------------------------
# types as nested tuples: ("U",) ("I",) ("N",) ("S",) ("K",) ("A",t) ("R",t) ("C",t) ("B",t) ("F",a,r) ("T",[..]) ("v",k)
# ------------------------------------------------------------------------------------------------
def show(t):
    k = t[0]
    if k in "UINSK":
        return k
    if k == "v":
        return "v%d" % t[1]
    if k == "F":
        return "F(%s,%s)" % (show(t[1]), show(t[2]))
    if k == "T":
        return "T(%s)" % ",".join(show(x) for x in t[1])
    return "%s(%s)" % (k, show(t[1]))


def children(t):
    k = t[0]
    if k in "ARCB":
        return [t[1]]
    if k == "F":
        return [t[1], t[2]]
    if k == "T":
        return list(t[1])
    return []


def rebuild(t, ch):
    k = t[0]
    if k in "ARCB":
        return (k, ch[0])
    if k == "F":
        return ("F", ch[0], ch[1])
    if k == "T":
        return ("T", list(ch))
    return t


def tvars(t):
    if t[0] == "v":
        return {t[1]}
    s = set()
    for c in children(t):
        s |= tvars(c)
    return s


def tsize(t):
    return 1 + sum(tsize(c) for c in children(t))


class TGen:
    def __init__(self, rng, nvars):
        self.r = rng
        self.n = nvars

    def leaf(self, pvar=3):
        r = self.r
        if self.n and r.chance(pvar, 6):
            return ("v", r.below(self.n))
        if r.chance(1, 40):
            return ("K",)
        return (r.choice(PRIMS),)

    def ty(self, d, pvar=3, vars_from=0):
        """random type of depth <= d; variables drawn from vars_from..n-1"""
        r = self.r
        if d <= 0 or r.chance(1, 3):
            t = self.leaf(pvar)
            if t[0] == "v" and t[1] < vars_from:
                if vars_from >= self.n:
                    return (r.choice(PRIMS),)
                return ("v", r.range(vars_from, self.n - 1))
            return t
        c = r.below(12)
        sub = lambda: self.ty(d - 1, pvar, vars_from)
        if c < 2:
            return ("A", sub())
        if c < 6:
            return ("F", sub(), sub())
        if c < 9:
            return ("T", [sub() for _ in range(r.choice([0, 1, 1, 2, 2, 2, 3]))])
        if c == 9:
            return ("R", sub())
        if c == 10:
            return ("C", sub())
        return ("B", sub())

    def punch(self, t, p_num, p_den):
        """replace random subterms of t by variables (the result unifies with t when the variables are free)"""
        r = self.r
        if self.n and t[0] != "v" and r.chance(p_num, p_den):
            return ("v", r.below(self.n))
        ch = children(t)
        if not ch:
            return t
        return rebuild(t, [self.punch(c, p_num, p_den) for c in ch])

    def wrap_var(self, v, d):
        """a type that contains variable v strictly inside (for cyclic attempts)"""
        r = self.r
        inner = ("v", v) if d <= 0 or r.chance(1, 2) else self.wrap_var(v, d - 1)
        other = lambda: self.ty(1)
        c = r.below(9)
        if c == 0:
            return ("A", inner)
        if c == 1:
            return ("C", inner)
        if c == 2:
            return ("R", inner)
        if c == 3:
            return ("B", inner)
        if c == 4:
            return ("F", inner, other())
        if c == 5:
            return ("F", other(), inner)
        if c == 6:
            return ("F", inner, inner)
        if c == 7:
            return ("T", [other(), inner])
        return ("T", [inner, other(), other()])


def gen_case(rng):
    """one sequence: (levels, items) with items = ('p',k,ty) | ('u',t1,t2) | ('a',t1,t2)"""
    r = rng
    n = r.choice([1, 2, 2, 3, 3, 4, 4, 5, 6, 8])
    levels = [r.below(4) for _ in range(n)]
    g = TGen(r, n)
    items = []
    if r.chance(1, 4):
        # acyclic initial bindings: the parent of variable k mentions only variables > k
        for k in range(n - 1):
            if r.chance(1, 2):
                items.append(("p", k, g.ty(2, 4, vars_from=k + 1)))
    style = r.below(10)
    nops = r.range(1, 8)
    for _ in range(nops):
        op = "a" if r.chance(1, 4) else "u"
        c = style if style < 8 else r.below(8)
        if c <= 2:
            # mostly unifiable: two views of one skeleton
            sk = g.ty(3, 2)
            t1, t2 = g.punch(sk, 1, 4), g.punch(sk, 1, 4)
        elif c == 3:
            # direct cyclic attempt  a ~ ...a...
            v = r.below(n)
            t1, t2 = ("v", v), g.wrap_var(v, 2)
            if r.chance(1, 2):
                t1, t2 = t2, t1
        elif c == 4:
            # a link of a chain through several variables:  v_i ~ wrap(v_{i+1}) ..., closing the loop at some point
            v, w = r.below(n), r.below(n)
            t1, t2 = ("v", v), g.wrap_var(w, 1)
            if r.chance(1, 3):
                t1, t2 = t2, t1
        elif c == 5:
            # variable against variable / variable against a small type
            t1 = ("v", r.below(n))
            t2 = ("v", r.below(n)) if r.chance(1, 2) else g.ty(1)
        elif c == 6:
            # function types: argument position uses unify_types_args, cyclic through argument or result
            v = r.below(n)
            t1 = ("F", ("v", v), g.ty(1))
            t2 = ("F", g.ty(2), ("v", r.below(n)))
        else:
            # independent types: mostly clashes, coercions (boxed, one-element tuples, unit = ())
            t1, t2 = g.ty(2), g.ty(2)
        items.append((op, t1, t2))
    return levels, items


def render(case):
    levels, items = case
    out = [",".join(str(l) for l in levels)]
    for it in items:
        if it[0] == "p":
            out.append("p%d=%s" % (it[1], show(it[2])))
        else:
            out.append("%s%s~%s" % (it[0], show(it[1]), show(it[2])))
    return ";".join(out)


# fixed sequences run first on every run (regressions; the witnesses of the Coq refutation theorems among them)
FIXED = [
    ("old-occurs-check witness |x| x(x) (C04_old_occurs_check_refuted): must be err2 now", "0,0;uv0~F(v0,v1)", "err2"),
    ("old-occurs-check: variable in the result only", "0,0;uv0~F(v1,v0)", "err2"),
    ("old-occurs-check: code type", "0;uv0~C(v0)", "err2"),
    ("old-occurs-check: reference type", "0;uv0~R(v0)", "err2"),
    ("cycle through three variables", "0,0,0;uv0~F(v1,N);uv1~A(v2);uv2~C(v0)", "ok1 ok1 err2"),
    ("cycle through the argument position", "0,0;av0~F(T(v0),N)", "err2"),
    ("tuple element errors are dropped (C04_unify_tuple_elements_refuted; finding F44/F41 class)", ";uT(I,N)~T(N,N)", "ok1"),
    ("boxing coercion", "0;uB(v0)~N;uN~B(B(N))", "ok1 ok1"),
    ("one-element tuple and unit", "0,0;uT(v0)~N;uU~T();uv1~T(T(I))", "ok1 ok1 ok1"),
]


def corpus_sequences():
    """corpus/C04/typing/*.seq: one sequence per line ('#' starts a comment); run after FIXED on every run"""
    d = os.path.join(VERIF, "corpus", "C04", "typing")
    out = []
    if os.path.isdir(d):
        for fn in sorted(os.listdir(d)):
            if fn.endswith(".seq"):
                for l in open(os.path.join(d, fn)):
                    l = l.split("#")[0].strip()
                    if l:
                        out.append(l)
    return out


# ------------------------------------------------------------------------------------------------
# running both sides
# ------------------------------------------------------------------------------------------------
def run_model(exe, lines, old=False):
    rc, out, _ = vplib.sh([exe] + (["--old"] if old else []), input="\n".join(lines) + "\n", timeout=BATCH_TIMEOUT_S * 3)
    res = [l for l in out.split("\n") if l.startswith("#")]
    if rc != 0 or len(res) != len(lines):
        raise RuntimeError("model driver failed rc=%s answers=%d/%d: %s" % (rc, len(res), len(lines), out[-400:]))
    return [l.split(" ", 1)[1] if " " in l else "" for l in res]


def run_impl(exe, lines, args=(), timeout=BATCH_TIMEOUT_S):
    """supervised: returns one answer per line; an answer is ('ok', text) or ('crash', description, partial output)"""
    answers = []
    i = 0
    crashes = 0
    while i < len(lines):
        chunk = lines[i:]
        try:
            p = subprocess.run([exe] + list(args), input=("\n".join(chunk) + "\n").encode(), stdout=subprocess.PIPE,
                               stderr=subprocess.PIPE, timeout=(timeout if crashes == 0 else 30) if len(chunk) > 1 else CASE_TIMEOUT_S)
            rc, out, err = p.returncode, p.stdout.decode(errors="replace"), p.stderr.decode(errors="replace")
        except subprocess.TimeoutExpired as ex:
            rc, out, err = 124, (ex.stdout or b"").decode(errors="replace"), "timeout"
        parts = out.split("\n")
        complete, partial = parts[:-1], parts[-1]
        for l in complete:
            answers.append(("ok", l.split(" ", 1)[1] if " " in l else ""))
        i += len(complete)
        if i >= len(lines):
            break
        if rc == 0:
            raise RuntimeError("harness ended early without an error: " + out[-300:] + err[-300:])
        if rc == 124 and len(chunk) > 1 and not complete:
            # the batch timed out on its first case or was merely slow: retry that case alone
            try:
                p1 = subprocess.run([exe] + list(args), input=(chunk[0] + "\n").encode(), stdout=subprocess.PIPE,
                                    stderr=subprocess.PIPE, timeout=CASE_TIMEOUT_S)
                if p1.returncode == 0:
                    l = p1.stdout.decode(errors="replace").split("\n")[0]
                    answers.append(("ok", l.split(" ", 1)[1] if " " in l else ""))
                    i += 1
                    continue
                rc, partial, err = p1.returncode, p1.stdout.decode(errors="replace"), p1.stderr.decode(errors="replace")
            except subprocess.TimeoutExpired as ex:
                partial = (ex.stdout or b"").decode(errors="replace")
        kind = "timeout" if rc == 124 else ("stack overflow" if "overflowed its stack" in err else "process died rc=%s" % rc)
        answers.append(("crash", kind + ": " + err.strip()[-160:], partial))
        i += 1
        crashes += 1
        if crashes >= MAX_CRASHES:
            # the same defect over and over (e.g. a deadlock costs the whole batch time limit each time): the cases seen so far are the
            # failing inputs; the rest of the stream is not run
            answers += [("skipped", "")] * (len(lines) - i)
            break
    return answers


VAR_RE = re.compile(r"(\d+):L(\d+):P([^:]*):R([^:]*):S([^;]*);")


def property_violation(ans):
    """the property evaluated on the implementation's own answer (None = holds)"""
    if ans[0] != "ok":
        return "the unifier / resolution did not return: " + ans[1]
    text = ans[1]
    if "!input-error" in text:
        return None
    head, _, tail = text.partition("|")
    if "panic" in head:
        return "unify panicked"
    for m in VAR_RE.finditer(tail):
        k, _lv, _p, r, s = m.groups()
        if r == "!cycle":
            return "variable %s does not resolve to a finite type (parent pointers form a cycle)" % k
        if s.startswith("!"):
            return "substitute_type of variable %s: %s" % (k, s)
        if "v" in s:
            return "substitute_type left a type variable in the type of variable %s" % k
        if re.sub(r"v\d+", "K", r) != s:
            return "substitute_type of variable %s differs from the resolution by parent pointers" % k
    return None


def parse_line(line):
    parts = line.split(";")
    levels = [int(x) for x in parts[0].split(",") if x.strip() != ""]
    return levels, [p for p in parts[1:] if p.strip() != ""]


# ------------------------------------------------------------------------------------------------
# shrinking (on the textual items; types are re-parsed into tuples)
# ------------------------------------------------------------------------------------------------
def parse_ty(s, pos=0):
    c = s[pos]
    if c in "UINSK":
        return (c,), pos + 1
    if c == "v":
        m = re.match(r"\d+", s[pos + 1:])
        return ("v", int(m.group(0))), pos + 1 + len(m.group(0))
    if c in "ARCB":
        t, p = parse_ty(s, pos + 2)
        return (c, t), p + 1
    if c == "F":
        a, p = parse_ty(s, pos + 2)
        r, p = parse_ty(s, p + 1)
        return ("F", a, r), p + 1
    if c == "T":
        p = pos + 2
        l = []
        if s[p] == ")":
            return ("T", []), p + 1
        while True:
            t, p = parse_ty(s, p)
            l.append(t)
            if s[p] == ",":
                p += 1
            else:
                return ("T", l), p + 1
    raise ValueError(s[pos:])


def parse_item(it):
    if it[0] == "p":
        k, _, rest = it[1:].partition("=")
        return ("p", int(k), parse_ty(rest)[0])
    a, p = parse_ty(it, 1)
    b, _ = parse_ty(it, p + 1)
    return (it[0], a, b)


def shrink_type(t):
    """smaller candidates for t"""
    out = []
    for c in children(t):
        out.append(c)
    if t[0] not in "UINSKv":
        out.append(("N",))
    ch = children(t)
    for i, c in enumerate(ch):
        for c2 in shrink_type(c):
            out.append(rebuild(t, ch[:i] + [c2] + ch[i + 1:]))
    if t[0] == "T" and len(t[1]) > 0:
        for i in range(len(t[1])):
            out.append(("T", t[1][:i] + t[1][i + 1:]))
    return out


SHRINK_WALL_S = 90         # a failing case that is a hang costs CASE_TIMEOUT_S per attempt: shrinking is bounded in time too


def shrink(case, fails, budget=250):
    levels, items = case
    changed = True
    t_end = time.time() + SHRINK_WALL_S
    fails0 = fails
    def fails(c):
        return time.time() < t_end and fails0(c)
    while changed and budget > 0 and time.time() < t_end:
        changed = False
        for i in range(len(items)):
            cand = (levels, items[:i] + items[i + 1:])
            budget -= 1
            if cand[1] and fails(cand):
                items = cand[1]
                changed = True
                break
        if changed:
            continue
        for i, it in enumerate(items):
            slots = [2] if it[0] == "p" else [1, 2]
            for sl in slots:
                for t2 in shrink_type(it[sl]):
                    if budget <= 0:
                        break
                    new = list(it)
                    new[sl] = t2
                    cand = (levels, items[:i] + [tuple(new)] + items[i + 1:])
                    budget -= 1
                    if fails(cand):
                        items = cand[1]
                        changed = True
                        break
                if changed:
                    break
            if changed:
                break
        if not changed and any(levels):
            cand = ([0] * len(levels), items)
            budget -= 1
            if fails(cand):
                levels = cand[0]
                changed = True
    return levels, items


# ------------------------------------------------------------------------------------------------
# the part
# ------------------------------------------------------------------------------------------------
def prove_part(ck):
    """builds Props/C04_typing.vo (full proofs) and audits Print Assumptions of every theorem; [] when all is well"""
    if os.environ.get("VERIF_DEV_NOPROVE") == "1":
        return []
    bad = []
    rc, out, dt = vplib.coq_make([COQ_TARGETS[0]], timeout=1500)
    ck.coverage["typing_coq_build_s"] = round(dt, 1)
    if rc != 0:
        return ["coq: " + vplib.first_coq_error(out).replace("\n", " | ")[:600]]
    thms, exs = vplib.props_theorems(PROPS)
    ck.coverage["typing_theorems"] = thms
    ck.coverage["typing_examples"] = exs
    try:
        ax = vplib.coq_print_assumptions(PROPS, thms)
    except RuntimeError as ex:
        return ["audit: " + str(ex)[:400]]
    open_ = {k: v for k, v in ax.items() if v}
    if open_ or set(ax) != set(thms):
        bad.append("audit: theorems of Props/C04_typing.v are not closed under the global context: %r" % open_)
    ck.coverage["typing_print_assumptions"] = {k: (v or ["Closed under the global context"]) for k, v in ax.items()}
    ck.obligations += len(thms) + len(exs)
    if not bad:
        ck.discharged += len(thms) + len(exs)
    return bad


def run_part(ck, quick=True):
    """returns the violations of the unifier part as (what, replay_obj); coverage is recorded in ck.coverage['typing_*']"""
    t0 = time.time()
    viol = []
    for b in prove_part(ck):
        ck.broken.append("typing: " + b)
        viol.append(("type unifier: proof obligation no longer checks: " + b, {"no_input": True}))
    rc, out, _ = vplib.coq_make([COQ_TARGETS[1]], timeout=900)
    if rc != 0:
        return viol + [("type unifier: extraction of the model failed: " + vplib.first_coq_error(out)[:300], {"no_input": True})]
    rc, out, model = vplib.ocaml_build("typing_drv", ["typing_model"], os.path.join(VERIF, "ocaml", "typing_drv.ml"))
    if rc != 0:
        return viol + [("type unifier: model driver does not build: " + out[-300:], {"no_input": True})]
    rc, out, bindir = vplib.cargo_build("lang", ["unify_run"])
    if rc != 0:
        return viol + [("type unifier: harness unify_run does not build (hook H3 typing::verif_unify missing?): "
                        + out[-400:], {"no_input": True})]
    impl = os.path.join(bindir, "unify_run")

    rng = ck.rng.fork("typing")
    ncases = 10000 if quick else 150000
    lines = [f[1] for f in FIXED] + corpus_sequences() + [render(gen_case(rng)) for _ in range(ncases)]
    m_ans = run_model(model, lines)
    i_ans = run_impl(impl, lines)
    cov = {"sequences": len(lines), "unify_calls": 0, "ok": 0, "err_mismatch": 0, "err_length": 0, "err_circular": 0,
           "variables": 0, "bound_variables": 0, "distinct_answers": 0, "max_resolved_len": 0}
    seen = set()

    def fails_kind(line):
        """'' when fine, else a short description (used for reporting and for shrinking)"""
        ma = run_model(model, [line])[0]
        ia = run_impl(impl, [line])[0]
        pv = property_violation(ia)
        if pv:
            return "P:" + pv
        if ia[0] == "ok" and ia[1] != ma:
            return "C:model and implementation differ"
        return ""

    reported = 0
    for idx, line in enumerate(lines):
        ia, ma = i_ans[idx], m_ans[idx]
        if ia[0] == "skipped":
            cov["skipped_after_repeated_crashes"] = cov.get("skipped_after_repeated_crashes", 0) + 1
            continue
        pv = property_violation(ia)
        diff = ia[0] == "ok" and ia[1] != ma
        if idx < len(FIXED) and ia[0] == "ok":
            want = FIXED[idx][2]
            got = ia[1].partition("|")[0].strip()
            if got != want:
                viol.append(("type unifier: regression sequence '%s' answers '%s' (expected '%s')" % (FIXED[idx][0], got, want),
                             {"sequence": line, "implementation": ia[1], "model": ma}))
        if ia[0] == "ok":
            head, _, tail = ia[1].partition("|")
            for tok in head.split():
                cov["unify_calls"] += 1
                if tok.startswith("ok"):
                    cov["ok"] += 1
                elif tok.startswith("err"):
                    cov["err_mismatch"] += tok.count("0")
                    cov["err_length"] += tok.count("1")
                    cov["err_circular"] += tok.count("2")
            for m in VAR_RE.finditer(tail):
                cov["variables"] += 1
                if m.group(3) != "-":
                    cov["bound_variables"] += 1
                cov["max_resolved_len"] = max(cov["max_resolved_len"], len(m.group(4)))
            seen.add(ia[1])
            if idx % 500 == 7:
                ck.sample({"sequence": line, "answer": ia[1][:300]})
        if not (pv or diff):
            continue
        if reported >= 5:
            continue
        reported += 1
        kind = ("P:" + pv) if pv else "C:model and implementation differ"
        case = (parse_line(line)[0], [parse_item(x) for x in parse_line(line)[1]])
        small = shrink(case, lambda c: fails_kind(render(c))[:1] == kind[:1])
        sline = render(small)
        sm = run_model(model, [sline])[0]
        si = run_impl(impl, [sline])[0]
        sk = fails_kind(sline) or kind
        obj = {"sequence": sline, "original_sequence": line, "implementation": list(si), "model": sm,
               "how": "echo '<sequence>' | .cache/target/lang/debug/unify_run   (model: .cache/ocaml/typing_drv/typing_drv)"}
        if sk.startswith("P:"):
            forced = run_impl(impl, [sline], args=["--force-subst"])[0]
            obj["substitute_type_forced"] = list(forced)
            viol.append(("type unifier: after this sequence of unify calls " + sk[2:], obj))
        else:
            viol.append(("type unifier: model (Typing/Model.v) and implementation answer differently", obj))
    cov["distinct_answers"] = len(seen)
    cov["wall_s"] = round(time.time() - t0, 1)
    for k, v in cov.items():
        ck.coverage["typing_" + k] = v
    ck.add("evaluations", len(lines))
    ck.add("distinct_nontrivial", len(seen))
    return viol
