"""C17 — module privacy and name resolution.

P: theorems of coq/theories/Props/C17.v over Modules/Model.v (all inline module trees, unbounded).
C: extracted model vs the real compiler on generated module trees x reference forms x positions:
   ModuleInfo after flattening (exact), what convert_qualified_names rewrites the probe reference to and how many
   PrivateMemberAccess errors it pushes (exact), outcome of the whole pipeline (error class / value of dsp() on the VM).
S: the property itself evaluated on the implementation's answers with an independent oracle written against the
   module tree (privacy, path denotation, local shadowing).
"""
import json, os, struct, subprocess, sys
from vplib import *

MODS = ["ma", "mab", "mb"]      # `ma` is a STRING prefix of `mab` (but not an ancestor): module paths must be compared segment-wise
FNS = ["fa", "fb", "fc", "fd"]
LETS = ["va", "vb", "fa"]          # `fa` on purpose: a module `let` collides with functions of that name
LOCAL_BASE = 100


# ------------------------------------------------------------------------------------------------
# trees:  ('fn',pub,name,[params],expr) ('let',name,expr) ('mod',pub,name,[items]) ('use',pub,[path],tgt)
#         tgt = '.' | '*' | [names]
# exprs:  ('c',n) ('v',name) ('q',[segs]) ('let',name,e1,e2) ('rec',name,e1,e2) ('lam',[params],e) ('app',f,[args])
# ------------------------------------------------------------------------------------------------
def tok_expr(e):
    k = e[0]
    if k == 'c':
        return f"c{e[1]}"
    if k == 'v':
        return "v:" + e[1]
    if k == 'q':
        return "q:" + "::".join(e[1])
    if k in ('let', 'rec'):
        return f"{k} {e[1]} {tok_expr(e[2])} {tok_expr(e[3])}"
    if k == 'lam':
        return f"lam ({','.join(e[1])}) {tok_expr(e[2])}"
    if k == 'app':
        return f"app {len(e[2])} {tok_expr(e[1])}" + "".join(" " + tok_expr(a) for a in e[2])
    raise ValueError(e)


def tok_items(items):
    out = []
    for it in items:
        k = it[0]
        if k == 'fn':
            out.append(f"fn {int(it[1])} {it[2]} ({','.join(it[3])}) {tok_expr(it[4])}")
        elif k == 'let':
            out.append(f"let {it[1]} {tok_expr(it[2])}")
        elif k == 'mod':
            out.append(f"mod {int(it[1])} {it[2]} {{ {tok_items(it[3])} }}")
        elif k == 'use':
            t = it[3]
            ts = t if isinstance(t, str) else "{" + ",".join(t) + "}"
            out.append(f"use {int(it[1])} {'::'.join(it[2]) if it[2] else '-'} {ts}")
    return " ".join(out)


def src_expr(e, stmt_ok):
    """mimium text; stmt_ok: we are directly in a `{ }` body where `let x = ..` lines are allowed"""
    k = e[0]
    if k == 'c':
        return f"{e[1]}.0"
    if k == 'v':
        return e[1]
    if k == 'q':
        return "::".join(e[1])
    if k in ('let', 'rec'):
        kw = 'let' if k == 'let' else 'letrec'
        s = f"{kw} {e[1]} = {src_expr(e[2], False)}\n{src_expr(e[3], True)}"
        return s if stmt_ok else "{ " + s + " }"
    if k == 'lam':
        return f"|{', '.join(e[1]) if e[1] else ' '}| {src_expr(e[2], False)}"
    if k == 'app':
        f = e[1]
        fs = src_expr(f, False)
        if f[0] not in ('v', 'q'):
            fs = "(" + fs + ")"
        return fs + "(" + ", ".join(src_expr(a, False) for a in e[2]) + ")"
    raise ValueError(e)


def src_items(items, ind=""):
    out = []
    for it in items:
        k = it[0]
        if k == 'fn':
            out.append(f"{ind}{'pub ' if it[1] else ''}fn {it[2]}({', '.join(it[3])}){{\n{src_expr(it[4], True)}\n}}")
        elif k == 'let':
            out.append(f"{ind}let {it[1]} = {src_expr(it[2], False)}")
        elif k == 'mod':
            out.append(f"{ind}{'pub ' if it[1] else ''}mod {it[2]} {{\n{src_items(it[3], ind + ' ')}\n{ind}}}")
        elif k == 'use':
            t = it[3]
            p = "::".join(it[2])
            if t == '.':
                s = p
            elif t == '*':
                s = p + "::*"
            else:
                s = p + "::{" + ", ".join(t) + "}"
            out.append(f"{ind}{'pub ' if it[1] else ''}use {s}")
    return "\n".join(out)


def to_tuple(x):
    if isinstance(x, list) and x and isinstance(x[0], str) and x[0] in ('fn', 'let', 'mod', 'use', 'c', 'v', 'q', 'rec', 'lam', 'app'):
        return tuple(to_tuple_field(x, i) for i in range(len(x)))
    return x


def to_tuple_field(x, i):
    v = x[i]
    k = x[0]
    if k == 'mod' and i == 3:
        return [to_tuple(y) for y in v]
    if k == 'fn' and i == 4 or k == 'let' and i in (2, 3) or k == 'rec' and i in (2, 3) or k == 'lam' and i == 2 or k == 'app' and i == 1:
        return to_tuple(v) if isinstance(v, list) else v
    if k == 'app' and i == 2:
        return [to_tuple(y) for y in v]
    return v


# ------------------------------------------------------------------------------------------------
# generator
# ------------------------------------------------------------------------------------------------
class Gen:
    def __init__(self, rng, weird):
        self.rng = rng
        self.weird = weird
        self.c = 0
        self.budget = 12

    def const(self):
        self.c += 1
        return self.c

    def thunk(self):
        return ('lam', [], ('c', self.const()))

    def items(self, depth, path, allfns):
        rng = self.rng
        out = []
        used_f, used_m = set(), set()
        n = rng.range(1, 4)
        for _ in range(n):
            if self.budget <= 0:
                break
            r = rng.below(100)
            if r < 55:
                nm = rng.choice(FNS)
                if nm in used_f:
                    continue
                used_f.add(nm)
                self.budget -= 1
                out.append(('fn', rng.chance(1, 2), nm, [], ('c', self.const())))
                allfns.append(path + [nm])
            elif r < 80 and depth < 3:
                nm = rng.choice(MODS)
                if nm in used_m:
                    continue
                used_m.add(nm)
                self.budget -= 1
                out.append(('mod', rng.chance(1, 2), nm, self.items(depth + 1, path + [nm], allfns)))
            elif r < 88:
                if depth > 0 and not self.allow_mod_let:
                    continue
                self.budget -= 1
                out.append(('let', rng.choice(LETS), self.thunk()))
            else:
                u = self.use(path, allfns)
                if u:
                    out.append(u)
        return out

    def some_path(self, path, allfns):
        rng = self.rng
        r = rng.below(10)
        if allfns and r < 6:
            return list(rng.choice(allfns))
        if allfns and r < 8:
            p = list(rng.choice(allfns))       # relative spelling: drop a prefix
            k = rng.below(len(p))
            return p[k:] if len(p[k:]) >= 1 else p
        return [rng.choice(MODS) for _ in range(rng.range(0, 2))] + [rng.choice(FNS + LETS)]

    def use(self, path, allfns):
        rng = self.rng
        p = self.some_path(path, allfns)
        pub = rng.chance(1, 3)
        r = rng.below(10)
        if r < 5:
            if len(p) < 2 and not self.weird:
                return None
            return ('use', pub, p, '.')
        if len(p) < 2:
            return None
        if r < 8:
            return ('use', pub, p[:-1], '*')
        names = [p[-1]] + [rng.choice(FNS) for _ in range(rng.below(2))]
        return ('use', pub, p[:-1], names)


def gen_tree(rng, weird=False, allow_mod_let=True):
    g = Gen(rng, weird)
    g.allow_mod_let = allow_mod_let
    allfns = []
    items = g.items(0, [], allfns)
    # a few trailing top-level uses (after the modules they mention: the common, valid shape)
    for _ in range(rng.below(3)):
        u = g.use([], allfns)
        if u:
            items.append(u)
    if weird and rng.chance(1, 2):
        u = g.use([], allfns)
        if u:
            items.insert(0, u)           # a use before the module exists: external file load attempted
    return items, allfns, g


def positions(items, path=()):
    """all (module path, index) insertion points"""
    out = [(path, i) for i in range(len(items) + 1)]
    for it in items:
        if it[0] == 'mod':
            out += positions(it[3], path + (it[2],))
    return out


def insert_at(items, path, idx, new):
    if not path:
        return items[:idx] + [new] + items[idx:]
    out = []
    done = False
    for it in items:
        if not done and it[0] == 'mod' and it[2] == path[0]:
            out.append(('mod', it[1], it[2], insert_at(it[3], path[1:], idx, new)))
            done = True
        else:
            out.append(it)
    return out


def ref_forms(rng, tree, ppath, allfns, g, how_many):
    """reference expressions (callee position), each a function tail: returns list of (body_expr, info)
    info = {'kind': 'bare'|'qual', 'ref': name | segs, 'local': const or None, 'wrap': ..}"""
    forms = []
    ds = decls(tree)
    quals = [list(p) for p in allfns if len(p) >= 2]
    # names that have a chance to be in scope as bare names
    chain = [d['name'] for d in ds if d['kind'] == 'fn' and is_prefix(d['mod'], ppath)]
    lets = [d['name'] for d in ds if d['kind'] == 'let']
    imported = [n for ns in all_uses(tree) for n in ns]
    wild = [d['name'] for d in ds if d['kind'] == 'fn' and any(tuple(w) == d['mod'] for w in wildcards(tree))]
    bare = chain * 2 + lets * 2 + imported * 3 + wild * 3 + FNS[:3] + LETS[:2]
    rel = []
    for p in quals:
        if is_prefix(ppath, p) and len(p) - len(ppath) >= 2:
            rel.append(p[len(ppath):])
            rel.append(p[len(ppath):])
        for k in range(1, len(p) - 1):
            rel.append(p[k:])
    exports = [list(up) + [n] for (up, _, names) in pub_uses(tree) for n in names if up]
    cands = [('bare', n) for n in bare] + [('qual', q) for q in quals * 3] + [('qual', q) for q in rel] + [('qual', q) for q in exports * 4]
    if quals:
        q = list(rng.choice(quals))
        cands.append(('qual', q[:-1] + [rng.choice(FNS)]))
    cands.append(('qual', [rng.choice(MODS), rng.choice(FNS)]))
    picked = [rng.choice(cands) for _ in range(how_many)]
    for kind, x in picked:
        ref = ('v', x) if kind == 'bare' else ('q', x)
        call = ('app', ref, [])
        w = rng.below(14)
        info = {'kind': kind, 'ref': x, 'local': None, 'wrap': 'plain'}
        if w < 8:
            body = call
        elif w == 8 and kind == 'bare':
            c = LOCAL_BASE + g.const()
            body = ('let', x, ('lam', [], ('c', c)), call)
            info.update(local=c, wrap='let-shadow')
        elif w == 9 and kind == 'bare':
            c = LOCAL_BASE + g.const()
            body = ('app', ('lam', [x], call), [('lam', [], ('c', c))])
            info.update(local=c, wrap='param-shadow')
        elif w == 10:
            # the reference FOLLOWS a local `let`; the binder is sometimes the name of a module `let` (the repaired half of F17b:
            # the module context of that `let` must not reach the continuation)
            c = LOCAL_BASE + g.const()
            bn = pick_binder(rng, 'zz', kind, x)
            body = ('let', bn, ('lam', [], ('c', c)), call)
            info.update(wrap='let-other', binder=bn)
        elif w == 11:
            # the reference sits IN THE INITIALISER of a local `let` / the body of a local `letrec`; when the binder shares its name
            # with a module `let` the reference is resolved inside that module (what is left of F17b)
            bn = pick_binder(rng, 'gg', kind, x)
            body = ('let', bn, ('lam', [], call), ('app', ('v', bn), []))
            info.update(wrap='in-let-lambda', binder=bn, shift=bn)
        elif w == 12:
            bn = pick_binder(rng, 'gg', kind, x)
            body = ('rec', bn, ('lam', [], call), ('app', ('v', bn), []))
            info.update(wrap='in-letrec', binder=bn, shift=bn)
        else:
            body = ('app', ('lam', ['yy'], call), [('c', 0)])
            info.update(wrap='in-lambda')
        forms.append((body, info))
    return forms


def pick_binder(rng, default, kind, x):
    """name of a local binder: mostly `default`, sometimes one of LETS (a possible module `let` name), never the referenced name itself"""
    if rng.below(3) == 0:
        bn = rng.choice(LETS)
        if not (kind == 'bare' and x == bn):
            return bn
    return default


def wildcards(items):
    out = []
    for it in items:
        if it[0] == 'use' and it[3] == '*':
            out.append(list(it[2]))
        elif it[0] == 'mod':
            out += wildcards(it[3])
    return out


def items_at(items, path):
    for p in path:
        items = [it for it in items if it[0] == 'mod' and it[2] == p][0][3]
    return items


def build_case(items, path, idx, body, as_let):
    """program = tree with the probe inserted at (path, idx) + dsp at the end"""
    if as_let:
        probe = ('let', 'prb', body)
        call = ('v', 'prb')
    else:
        probe = ('fn', True, 'prb', [], body)
        call = ('app', ('v', 'prb') if not path else ('q', list(path) + ['prb']), [])
    prog = insert_at(items, path, idx, probe)
    prog = prog + [('fn', False, 'dsp', [], call)]
    return prog


# ------------------------------------------------------------------------------------------------
# independent oracle: declarations of the tree
# ------------------------------------------------------------------------------------------------
def decls(items, path=(), privmods=()):
    """[(const, kind, module path, name, pub, private module prefixes on the way)]"""
    out = []
    for it in items:
        if it[0] == 'fn' and it[4][0] == 'c':
            out.append({'c': it[4][1], 'kind': 'fn', 'mod': path, 'name': it[2], 'pub': it[1], 'privmods': privmods})
        elif it[0] == 'let' and it[2][0] == 'lam' and it[2][2][0] == 'c':
            out.append({'c': it[2][2][1], 'kind': 'let', 'mod': path, 'name': it[1], 'pub': False, 'privmods': privmods})
        elif it[0] == 'mod':
            sub = path + (it[2],)
            out += decls(it[3], sub, privmods + ((sub,) if not it[1] else ()))
    return out


def is_prefix(a, b):
    return len(a) <= len(b) and tuple(b[:len(a)]) == tuple(a)


def pub_uses(items, path=()):
    """[(module path of the use, use path, alias names)] of the `pub use` statements"""
    out = []
    for it in items:
        if it[0] == 'use' and it[1] and it[3] != '*':
            names = [it[2][-1]] if it[3] == '.' else list(it[3])
            base = it[2][:-1] if it[3] == '.' else it[2]
            out.append((path, list(base), names))
        elif it[0] == 'mod':
            out += pub_uses(it[3], path + (it[2],))
    return out


def mod_let_context(items, name, path=()):
    """module path under which convert_expr converts the initialiser / body of a binder called `name`: module `let`s are keyed by their
    BARE name in module_context_map, the latest one (in flattening order) wins; None when no module `let` has that name"""
    res = None
    for it in items:
        if it[0] == 'let' and path and it[1] == name:
            res = path
        elif it[0] == 'mod':
            r = mod_let_context(it[3], name, path + (it[2],))
            if r is not None:
                res = r
    return res


def cls_pub_use_private(tree, ppath, info, d):
    """class of F9: some `pub use` exports a name equal to the private member's own qualified name, or the reference is a
    qualified path that spells (absolutely, or relative to the probe's module) the name exported by some `pub use` and
    following the re-exports from there ends at the private member d"""
    ds = decls(tree)
    fnpaths = {x['mod'] + (x['name'],) for x in ds if x['kind'] == 'fn'}
    exports = {}
    for (upath, base, names) in pub_uses(tree):
        for n in names:
            exports[tuple(upath) + (n,)] = (tuple(upath), tuple(base) + (n,))
    dpath = d['mod'] + (d['name'],)
    if dpath in exports:
        return True          # `pub use` exporting under the private member's own name: its visibility entry is overwritten
    if info['kind'] != 'qual':
        return False
    segs = tuple(info['ref'])
    for k in (segs, tuple(ppath) + segs):
        seen = set()
        while k in exports and k not in seen:
            seen.add(k)
            upath, t = exports[k]
            k = t if (t in fnpaths or t in exports) else (upath + t if (upath + t in fnpaths or upath + t in exports) else t)
            if k == dpath:
                return True
    return False


def oracle(tree, ppath, info, as_let, c):
    """property evaluated on an accepted program: returns (verdict, detail) with verdict in
    'ok' | 'F8' | 'F9' | 'F17a' | 'F17b' | 'violation:<what>'.
    Class of F17b (binder-shares-name-with-module-let): the reference sits in the initialiser of a `let` / the body of a `letrec` whose
    binder has the name of a `let` written inside some module E, what the property forbids from the reference's own position happened,
    and the same answer is what the property allows for a reference written inside E."""
    v = oracle_at(tree, ppath, info, as_let, c)
    if v[0].startswith('violation') and info.get('shift') is not None and info['local'] is None:
        eff = mod_let_context(tree, info['shift'])
        if eff is not None and not oracle_at(tree, eff, info, as_let, c)[0].startswith('violation'):
            return ('F17b', f"{v[0][10:]} ({v[1]}): the binder `{info['shift']}` is also a `let` of module {'::'.join(eff)}")
    return v


def oracle_at(tree, ppath, info, as_let, c):
    ds = decls(tree)
    if info['local'] is not None:
        return ('ok', '') if c == info['local'] else ('violation:local-binding-not-shadowing', f"expected local {info['local']} got {c}")
    hit = [d for d in ds if d['c'] == c]
    if not hit:
        return ('violation:value-of-no-definition', str(c))
    d = hit[0]
    outside = d['mod'] != () and not is_prefix(d['mod'], ppath)
    if d['kind'] == 'fn' and not d['pub'] and outside:
        if cls_pub_use_private(tree, ppath, info, d):
            return ('F9', f"private {'::'.join(d['mod'] + (d['name'],))} from {'::'.join(ppath) or '<top>'}")
        return ('violation:private-member-reached', f"{'::'.join(d['mod'] + (d['name'],))} from {'::'.join(ppath) or '<top>'}")
    if d['kind'] == 'let' and outside:
        return ('F8', f"let {d['name']} of module {'::'.join(d['mod'])} from {'::'.join(ppath) or '<top>'}")
    # denotation
    if info['kind'] == 'qual':
        segs = tuple(info['ref'])
        fns = {d2['mod'] + (d2['name'],): d2 for d2 in ds if d2['kind'] == 'fn'}
        cand = None
        if segs in fns:
            cand = fns[segs]
        elif tuple(ppath) + segs in fns:
            cand = fns[tuple(ppath) + segs]
        reexport = any(n == segs[-1] for (_, _, names) in pub_uses(tree) for n in names)
        if cand is not None and cand['c'] != c and not reexport:
            return ('violation:path-denotes-other-definition', f"{'::'.join(segs)} denotes {cand['c']} got {c}")
        if cand is None and not reexport:
            # accepted although the path names nothing
            return ('violation:path-denotes-nothing', '::'.join(segs))
    else:
        nm = info['ref']
        aliased = any(it for it in all_uses(tree) if nm in it)
        if d['name'] != nm and not aliased:
            return ('violation:bare-name-resolved-to-other-name', f"{nm} -> {d['name']}")
    for pm in d['privmods']:
        if not is_prefix(pm[:-1], ppath):
            return ('F17a', f"{'::'.join(d['mod'] + (d['name'],))} through private module {'::'.join(pm)} from {'::'.join(ppath) or '<top>'}")
    return ('ok', '')


def all_uses(items):
    out = []
    for it in items:
        if it[0] == 'use' and it[3] != '*':
            out.append([it[2][-1]] if it[3] == '.' else list(it[3]))
        elif it[0] == 'mod':
            out += all_uses(it[3])
    return out


# ------------------------------------------------------------------------------------------------
def parse_b(part):
    """'B OK <x>' / 'B ERR p= u= [o=]' -> dict"""
    t = part.strip().split()
    if len(t) >= 3 and t[1] == 'OK':
        return {'ok': t[2]}
    if len(t) >= 2 and t[1] == 'ERR':
        d = {'p': 0, 'u': 0, 'o': 0}
        for x in t[2:5]:
            if '=' in x and x[0] in 'puo':
                try:
                    d[x[0]] = int(x[2:])
                except ValueError:
                    pass
        return d
    return {'bad': part}


def bits_to_float(h):
    if h == 'NaN':
        return float('nan')
    return struct.unpack('>d', bytes.fromhex(h))[0]


def compare(model_line, impl_line):
    """returns None when they agree, else a short reason"""
    pm = model_line.split(" | ")
    pi = impl_line.split(" | ")
    if len(pm) != 3 or len(pi) != 3:
        return "shape"
    if pm[0] != pi[0]:
        return "ModuleInfo"
    if pm[1] != pi[1]:
        return "resolution"
    bm, bi = parse_b(pm[2]), parse_b(pi[2])
    next_ = int(pm[1].split()[3])
    if next_ > 0:
        return None if ('o' in bi and bi['o'] >= 1) else "external-load-class"
    if 'ok' in bm:
        if 'ok' in bi and bits_to_float(bi['ok']) == float(int(bm['ok'])):
            return None
        return "outcome"
    if 'p' in bm:
        if 'p' not in bi:
            return "outcome"
        if bm['p'] != bi['p']:
            return "private-error-count"
        if bm['p'] == 0 and not (bi['u'] > 0 and bm['u'] > 0):
            return "unresolved-class"
        return None
    return "model-stuck"



# ------------------------------------------------------------------------------------------------
# programs with SEVERAL references (response to seeded change C17c: a memo of resolved paths filled by a legal reference and consulted by a
# later illegal one).  The resolution model above judges one probe reference in a tree of constant functions; here earlier references
# (legal ones, from inside the module: absolute path, relative path, bare name, through `use`) precede the judged reference to the same member.
# Oracle, independent of the model: a reference from OUTSIDE a module to a member not declared `pub` (by qualified path, `use`, multi-import,
# wildcard import) must be rejected; the same program with the member declared `pub` must be accepted and play the expected value.
def gen_context_case(rng):
    outer = rng.choice(["vault", "ma", "mb"])
    nested = rng.chance(1, 3)
    inner = rng.choice(["deep", "mab"])
    member = rng.choice(["secret", "fa", "fb"])
    val = rng.range(2, 90)
    mpath = [outer] + ([inner] if nested else [])
    qual = "::".join(mpath + [member])
    inside_forms = {"absolute": qual + "()", "bare": member + "()", "relative": (inner + "::" + member + "()") if nested else member + "()",
                    "none": "1.0"}
    inside = rng.choice(["absolute", "absolute", "absolute", "bare", "relative", "none"])
    inside_where = rng.choice(["same", "nested-child", "parent"]) if nested else rng.choice(["same", "nested-child"])
    route = rng.choice(["qualified", "qualified", "use", "multi", "wildcard"])
    outside_where = rng.choice(["dsp", "topfn", "sibling-mod"])
    order = rng.choice(["inside-first", "inside-first", "outside-first"])

    def render(pub):
        vis = "pub " if pub else ""
        helper_expr = inside_forms[inside]
        if inside_where == "nested-child" and inside == "bare":
            helper_expr = qual + "()"          # a child module does not see the parent's private names by bare name
        helper = "pub fn open(){ %s + 0.0 }" % helper_expr
        member_decl = "%sfn %s(){ %d.0 }" % (vis, member, val)
        if nested:
            body_inner = [member_decl] + ([helper] if inside_where == "same" else []) + \
                         (["pub mod kid { pub fn open(){ %s + 0.0 } }" % (qual + "()")] if inside_where == "nested-child" else [])
            body_outer = ["pub mod %s {\n    %s\n  }" % (inner, "\n    ".join(body_inner))] + \
                         (["pub fn open(){ %s + 0.0 }" % (qual + "()" if inside != "none" else "1.0")] if inside_where == "parent" else [])
        else:
            body_outer = [member_decl] + ([helper] if inside_where == "same" else []) + \
                         (["pub mod kid { pub fn open(){ %s + 0.0 } }" % (qual + "()")] if inside_where == "nested-child" else [])
        module = "mod %s {\n  %s\n}\n" % (outer, "\n  ".join(body_outer))
        if route == "qualified":
            imp, ref = "", qual + "()"
        elif route == "use":
            imp, ref = "use %s\n" % qual, member + "()"
        elif route == "multi":
            imp, ref = "use %s::{%s}\n" % ("::".join(mpath), member), member + "()"
        else:
            imp, ref = "use %s::*\n" % "::".join(mpath), member + "()"
        if outside_where == "dsp":
            user, call = "", ref
        elif outside_where == "topfn":
            user, call = "fn user(){ %s }\n" % ref, "user()"
        else:
            user, call = "mod other {\n  %spub fn user(){ %s }\n}\n" % (imp.replace("\n", "\n  ") if imp else "", ref), "other::user()"
            imp = ""
        parts = [module, imp + user] if order == "inside-first" else [imp + user, module]
        if route != "qualified" and order == "outside-first" and outside_where != "sibling-mod":
            parts = [module, imp + user]           # a `use` must follow the module it names
        return "".join(parts) + "fn dsp(){\n  %s\n}\n" % call
    return {"private": render(False), "public": render(True), "value": float(val),
            "desc": "member %s, inside reference %s (%s), outside route %s from %s, %s" % (qual, inside, inside_where, route, outside_where, order)}

def run(ck):
    ck.level = "proof"
    proved = ck.prove(tables=[], extra_targets=["theories/Extract/ModulesExtract.vo"])
    rc, out, exe_m = ocaml_build("modules_drv", ["modules_model"], os.path.join(VERIF, "ocaml", "modules_drv.ml"))
    model_ok = rc == 0
    if not model_ok:
        ck.broken.append("model-build: " + out[-400:])
    rc, out, bindir = cargo_build("lang", ["modules_run"])
    if rc != 0:
        ck.broken.append("harness-build: " + out[-800:])
        ck.violation("harness does not build against /repo", {"cargo_output": out[-3000:]}, no_input=True)
        return finish(ck)
    exe_i = os.path.join(bindir, "modules_run")

    # ---- cases ----
    cases = []   # (tree_without_probe, ppath, idx, body, info, as_let, program)
    corpus = os.path.join(VERIF, "corpus", "C17", "cases.jsonl")
    n_corpus = 0
    witnesses = []   # (name, model tokens, mimium source, expected value)
    if os.path.exists(corpus):
        for l in open(corpus):
            l = l.strip()
            if not l or l.startswith("#"):
                continue
            o = json.loads(l)
            if "witness" in o:
                witnesses.append((o["witness"], o["tokens"], o["source"], o["expect"], o.get("repaired")))
                continue
            tree = [to_tuple(x) for x in o["tree"]]
            body = to_tuple(o["body"])
            prog = build_case(tree, tuple(o["ppath"]), o["idx"], body, o.get("as_let", False))
            cases.append((tree, tuple(o["ppath"]), o["idx"], body, o["info"], o.get("as_let", False), prog))
            n_corpus += 1
    if ck.replay:
        o = json.load(open(ck.replay))["replay"]
        if "tree" in o:
            tree = [to_tuple(x) for x in o["tree"]]
            body = to_tuple(o["body"])
            prog = build_case(tree, tuple(o["ppath"]), o["idx"], body, o.get("as_let", False))
            cases.append((tree, tuple(o["ppath"]), o["idx"], body, o["info"], o.get("as_let", False), prog))
    n_trees = 600 if ck.tier == "quick" else 6000
    refs_per_pos = 5 if ck.tier == "quick" else 8
    rng = ck.rng.fork("trees")
    n_weird = 0
    for t in range(n_trees):
        weird = (t % 6 == 5)
        n_weird += weird
        tree, allfns, g = gen_tree(rng, weird=weird, allow_mod_let=(t % 3 != 0))
        for (ppath, idx) in positions(tree):
            for (body, info) in ref_forms(rng, tree, ppath, allfns, g, refs_per_pos + (3 if idx >= len(items_at(tree, ppath)) else 0)):
                as_let = (not ppath) and rng.chance(1, 6) and info['wrap'] == 'plain'
                prog = build_case(tree, ppath, idx, body, as_let)
                cases.append((tree, ppath, idx, body, info, as_let, prog))
    model_in = "\n".join([w[1] for w in witnesses] + [tok_items(c[6]) for c in cases]) + "\n"
    impl_in = "#builtins\n" + "\n".join([w[2].replace("\n", "\\n") for w in witnesses] + [src_items(c[6]).replace("\n", "\\n") for c in cases]) + "\n"

    def runexe(exe, text):
        p = subprocess.run([exe], input=text, stdout=subprocess.PIPE, stderr=subprocess.DEVNULL, text=True, timeout=3000,
                           cwd=os.path.join(CACHE))
        return p.returncode, p.stdout.split("\n")
    rc_i, out_i = runexe(exe_i, impl_in)
    if rc_i != 0 or len(out_i) < len(cases) + len(witnesses) + 1:
        ck.violation("implementation harness crashed", {"rc": rc_i, "answered": len(out_i), "cases": len(cases)}, no_input=True)
        return finish(ck)
    builtins = set(out_i[0].split())
    out_i = out_i[1:]
    pool = set(MODS + FNS + LETS + ["prb", "dsp", "zz", "gg", "yy"])
    if pool & builtins:
        ck.violation("identifier pool of the generator collides with builtin names (model is run with no builtins)",
                     {"collision": sorted(pool & builtins)}, no_input=True)
        return finish(ck)
    if model_ok:
        rc_m, out_m = runexe(exe_m, model_in)
    else:
        rc_m, out_m = 1, []
    # ---- witnesses of the refuted theorems / fixtures: literal programs, replayed on the real compiler and on the model ----
    nw = len(witnesses)
    wit_bad = []
    regressed = []   # regression inputs of REPAIRED defects that misbehave again: concrete failing inputs
    for j, (name, toks, src, expect, repaired) in enumerate(witnesses):
        bi = parse_b(out_i[j].split(" | ")[-1]) if " | " in out_i[j] else {'bad': out_i[j]}
        got = bits_to_float(bi['ok']) if 'ok' in bi else ("private-error" if bi.get('p', 0) > 0 else "error")
        if got != expect and repaired:
            regressed.append((name, repaired, src, expect, got))
        elif got != expect:
            wit_bad.append((name, src, expect, out_i[j]))
        elif model_ok and rc_m == 0 and j < len(out_m) and compare(out_m[j], out_i[j]):
            wit_bad.append((name + " (model differs: %s)" % compare(out_m[j], out_i[j]), src, out_m[j], out_i[j]))
    out_i = out_i[nw:]
    out_m = out_m[nw:]
    ck.coverage["witness_programs_replayed"] = nw

    findings = {f["id"]: f for f in known_findings("C17")}
    disagreements, prop_fail = [], []
    cls_count = {}
    accepted = rejected_p = rejected_u = 0
    for i, c in enumerate(cases):
        tree, ppath, idx, body, info, as_let, prog = c
        li = out_i[i]
        if model_ok and rc_m == 0 and i < len(out_m):
            why = compare(out_m[i], li)
            if why:
                disagreements.append((i, why, out_m[i], li))
        bi = parse_b(li.split(" | ")[-1]) if " | " in li else {'bad': li}
        if 'bad' in bi:
            prop_fail.append((i, "violation:implementation-panic", li))
            continue
        if 'ok' in bi:
            accepted += 1
            v = bits_to_float(bi['ok'])
            verdict, detail = oracle(tree, ppath, info, as_let, int(v) if v == int(v) else v)
            cls_count[verdict] = cls_count.get(verdict, 0) + 1
            if verdict == 'ok':
                pass
            elif verdict in findings:
                ck.known(findings[verdict], detail + " | " + src_items(prog).replace("\n", " ; "))
            else:
                prop_fail.append((i, verdict, detail))
        elif bi.get('p', 0) > 0:
            rejected_p += 1
        else:
            rejected_u += 1

    ck.coverage["evaluations"] = len(cases)
    ck.coverage["distinct_nontrivial"] = len(set(tok_items(c[6]) for c in cases))
    ck.coverage["trees"] = n_trees
    ck.coverage["weird_trees"] = n_weird
    ck.coverage["corpus_cases"] = n_corpus
    ck.coverage["accepted"] = accepted
    ck.coverage["rejected_private"] = rejected_p
    ck.coverage["rejected_other"] = rejected_u
    ck.coverage["oracle_verdicts"] = cls_count
    ck.coverage["model_vs_impl_disagreements"] = len(disagreements)
    ck.coverage["exhaustive"] = False
    for i in [0, len(cases) // 3, len(cases) // 2, len(cases) - 1]:
        if 0 <= i < len(cases):
            ck.sample({"program": src_items(cases[i][6]), "implementation": out_i[i],
                       "model": out_m[i] if model_ok and i < len(out_m) else None})

    def replay_obj(i, extra):
        tree, ppath, idx, body, info, as_let, prog = cases[i]
        o = {"tree": tree, "ppath": list(ppath), "idx": idx, "body": body, "info": info, "as_let": as_let,
             "source": src_items(prog), "implementation": out_i[i],
             "how": "./check C17 --replay <this file>   (or: write `source` on one line with newlines as \\n and pipe it to .cache/target/lang/debug/modules_run)"}
        o.update(extra)
        return o

    # ---- several references per program (implementation only) ----
    rc_l, out_l, bindir_l = cargo_build("lang", ["lmmm_run"])
    ctx_fail = []
    if rc_l == 0:
        sys.path.insert(0, os.path.join(VERIF, "lib"))
        import lmmm as _lm
        ccases = [gen_context_case(ck.rng.fork(("context", i))) for i in range(150 if ck.tier == "quick" else 2000)]
        cres = _lm.run_impl(os.path.join(bindir_l, "lmmm_run"), [{"src": c[k], "n": 1, "state": False, "backends": ["vm"]} for c in ccases for k in ("private", "public")])
        cst = {"context_cases": len(ccases), "context_private_rejected": 0, "context_public_accepted": 0, "context_public_rejected_for_other_reasons": 0}
        for i, c in enumerate(ccases):
            rp, ru = cres[2 * i].get("vm", cres[2 * i]), cres[2 * i + 1].get("vm", cres[2 * i + 1])
            if "samples" in ru and ru["samples"] and "out" in ru["samples"][0]:
                got = _lm.bits_to_float(ru["samples"][0]["out"][0])
                if got != c["value"]:
                    ctx_fail.append(("a reference to a PUBLIC member does not denote the definition its path names: got %s, expected %s (%s)" % (got, c["value"], c["desc"]), c["public"]))
                    continue
                cst["context_public_accepted"] += 1
                if "samples" in rp:
                    ctx_fail.append(("violation:private-member-reached (a program with several references: %s)" % c["desc"], c["private"]))
                else:
                    cst["context_private_rejected"] += 1
            else:
                cst["context_public_rejected_for_other_reasons"] += 1
        ck.coverage.update(cst)
    for what, src in ctx_fail[:3]:
        ck.violation("property fails on the implementation: " + what, {"source": src, "how": "echo '{\"src\":<source>,\"n\":1}' | .cache/target/lang/debug/lmmm_run"})
    prop_fail = prop_fail + [(None, w, None) for w, _ in ctx_fail] if False else prop_fail
    for (i, verdict, detail) in prop_fail[:5]:
        ck.violation("property fails on the implementation: " + verdict, replay_obj(i, {"detail": detail}))
    for (name, what, src, expect, got) in regressed[:3]:
        ck.violation("property fails on the implementation: %s (regression input '%s' of a repaired defect: expected %s, got %s)"
                     % (what, name, expect, got), {"source": src, "expected": expect, "got": got,
                                                    "how": "write `source` on one line with newlines as \\n and pipe it to .cache/target/lang/debug/modules_run"})
    for (name, src, expect, got) in wit_bad[:3]:
        ck.broken.append("witness " + name)
        ck.violation("witness/fixture program '%s' no longer behaves as recorded (the theorem of that name in Props/C17.v is about the model, "
                     "the model no longer describes the code)" % name, {"source": src, "expected": expect, "implementation": got}, no_input=True)
    if disagreements and not prop_fail and not ctx_fail and not regressed:
        i, why, m_, i_ = disagreements[0]
        ck.broken.append("correspondence Modules.Model vs program.rs/convert_qualified_names.rs: " + why)
        ck.violation("model and implementation disagree (%s); no clause of the property fails on the explored inputs" % why,
                     replay_obj(i, {"model": m_, "disagreements": len(disagreements), "kinds": sorted(set(d[1] for d in disagreements))}),
                     no_input=True)
    if not proved and not prop_fail and not disagreements and not ctx_fail and not regressed:
        ck.violation("a proof obligation of Props/C17.v no longer checks", {"broken": ck.broken}, no_input=True)
    return finish(ck)


def finish(ck):
    ck.finish(
        explanation=("Theorems of Props/C17.v are proved in Coq for ALL inline module trees over a Gallina transcription of "
                     "program.rs (flattening, ModuleInfo) and convert_qualified_names.rs (both passes); the transcription is tied to /repo "
                     "by running the extracted model and the real compiler on generated module trees x reference forms x positions and "
                     "comparing the ModuleInfo maps, the rewritten probe reference, the PrivateMemberAccess count and the pipeline outcome "
                     "(error class / dsp() value on the VM); the property is additionally evaluated on the implementation's answers with an "
                     "independent oracle over the module tree."),
        trusted_base=["Coq 8.16.1 kernel (coqc, vm_compute; no native_compute)",
                      "extraction: ExtrOcamlBasic + ExtrOcamlString only; OCaml 4.13.1; ocaml/modules_drv.ml driver",
                      "harness/lang/src/bin/modules_run.rs and the python generator/oracle in checks/C17.py",
                      "symbols are modelled as lists of '$'-free segments (Modules/Mangle.v proves the join injective); identifiers containing '$' cannot be written in source",
                      "external file modules, type aliases/declarations in modules, macros/stages are outside the model"],
        rule=("random inline module trees (depth <= 3, <= 12 members, random visibility, uses of existing/relative/nonexistent paths, "
              "every definition a distinct constant); for every insertion point of every module a probe function (or top-level let) with "
              "sampled reference forms: bare / absolute / relative / dangling qualified paths, shadowed by let or parameter, nested in "
              "lambda / let / letrec; distinct = distinct programs"))
