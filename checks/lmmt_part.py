"""Type-system part of C03 (to be imported by checks/C03.py):  run_part(ck, quick) -> list of (what, replay_obj).

P: coq/theories/Props/C03_types.v over Lmmt/{Types,Check}.v and Lmmx/{Syntax,Ref}.v — an executable, syntax-directed type
   checker `tc_prog` for the core language with closures, and TYPE SOUNDNESS of the reference semantics: an accepted
   program never reaches a Stuck answer of `xrun` (for every fuel, every input of the declared arity), and every output row
   has exactly word_size(return type of dsp) numbers.
C: the extracted checker (ocaml/lmmt_drv.ml) against the REAL type checker (compiler/typing.rs through harness lmmm_run,
   request field "typecheck"): (a) every program of lib/lmmx_gen.py is accepted by both; (b) NEAR-MISS programs (type-changing
   mutations of generated programs at the AST level): the two checkers must agree on accept / reject.
S: the property itself on the implementation's answers: a program the real checker accepts must compile and run on both
   backends without panic / crash and yield rows of the declared number of words; a program it accepts although the
   reference semantics is stuck is looked at on the backends.
"""
import json, os, sys, time, subprocess
if __name__ == "__main__":
    sys.path.insert(0, os.path.join(os.path.dirname(os.path.abspath(__file__)), "..", "lib"))
import vplib
from vplib import VERIF, log
import lmmx, lmmx_gen, lmmx_shrink

OCAML = [("lmmt_drv", ["lmmt_model"], "ocaml/lmmt_drv.ml")]
HARNESS = lmmx.HARNESS
EXTRACT_TARGET = "theories/Extract/LmmtExtract.vo"
COQ_TARGETS = ["theories/Props/C03_types.vo", EXTRACT_TARGET]
PROPS = "C03_types"
FUEL = 300


# ------------------------------------------------------------------------------------------------
# annotations and the model protocol
# ------------------------------------------------------------------------------------------------
def ty_sx(t):
    if t is None or t == 'F': return "F"
    if t == 'U': return "U"
    if t[0] == 'T': return "(T %s)" % " ".join(ty_sx(x) for x in t[1])
    if t[0] == 'R': return "(R %s)" % " ".join("(%d %s)" % (f, ty_sx(x)) for f, x in sorted(t[1]))
    if t[0] == 'Fn': return "(Fn (%s) %s)" % (" ".join(ty_sx(x) for x in t[1]), ty_sx(t[2]))
    if t[0] == 'S': return "(S %d)" % t[1]
    raise ValueError(t)


def annotations(p):
    """(parameter annotations {binder: type}, return annotations {function: type}) the program text carries; a parameter
    without annotation is a number (the generator omits `:float` only)"""
    par, ret = {}, {}
    for g in p['globals']:
        if g[0] == 'fun':
            for x, t, _ in g[2]:
                if t is not None and t != 'F':
                    par[x] = t
            if g[4] is not None:
                ret[g[1]] = g[4]
    for b in lmmx.all_bodies(p):
        for s in lmmx.subexprs(b):
            if s[0] == 'lam':
                for x, t in s[1]:
                    if t is not None and t != 'F':
                        par[x] = t
    return par, ret


def ann_sx(p):
    par, ret = annotations(p)
    sums = " ".join("(%d %s)" % (tid, " ".join("-" if c is None else ty_sx(c) for c in cs)) for tid, cs in p.get('types', []))
    return "(ann (par %s) (ret %s) (sums %s))" % (" ".join("(%d %s)" % (x, ty_sx(t)) for x, t in sorted(par.items())),
                                                 " ".join("(%d %s)" % (x, ty_sx(t)) for x, t in sorted(ret.items())), sums)


def model_line(p, rows, fuel=FUEL):
    n = len(rows)
    k = len(p['inputs'])
    flat = " ".join(str(v) for r in rows for v in r)
    return "%d %d %d %s | %s | %s" % (fuel, n, k, flat, ann_sx(p), lmmx.prog_sx(p))


def run_model(exe, cases, fuel=FUEL, case_timeout=20):
    """cases: list of (prog, rows) -> list of dicts (answers of ocaml/lmmt_drv.ml); sharded over processes"""
    import concurrent.futures, select
    lines = [model_line(p, rows, fuel) for p, rows in cases]
    if not lines:
        return []
    shards = min(vplib.NPROC, max(1, len(lines) // 16))
    chunks = [lines[i::shards] for i in range(shards)]

    def work(chunk):
        out = []
        def start():
            return subprocess.Popen([exe], stdin=subprocess.PIPE, stdout=subprocess.PIPE, stderr=subprocess.DEVNULL, text=True, bufsize=1,
                                    preexec_fn=lmmx.lmmm._big_stack)
        pr = start()
        try:
            for line in chunk:
                pr.stdin.write(line + "\n")
                pr.stdin.flush()
                ready, _, _ = select.select([pr.stdout], [], [], case_timeout)
                if not ready:
                    pr.kill(); pr.wait()
                    # the checker itself is linear; only the run can take long: ask again without running
                    pr = start()
                    h, a, b = line.split("|")
                    f = h.split()
                    pr.stdin.write("%s 0 %s | %s | %s\n" % (f[0], f[2], a, b)); pr.stdin.flush()
                    ans = json.loads(pr.stdout.readline())
                    ans["run"] = {"timeout": True}
                    out.append(ans)
                    continue
                ans = pr.stdout.readline()
                if not ans:
                    raise RuntimeError("model driver failed rc=%s after %d answers" % (pr.poll(), len(out)))
                out.append(json.loads(ans))
        finally:
            try:
                pr.stdin.close()
            except Exception:
                pass
            pr.kill(); pr.wait()
        return out
    res = [None] * len(lines)
    with concurrent.futures.ThreadPoolExecutor(max_workers=shards) as ex:
        for si, ans in enumerate(ex.map(work, chunks)):
            for j, a in enumerate(ans):
                res[si + j * shards] = a
    return res


# ------------------------------------------------------------------------------------------------
# a python view of the types of a WELL-TYPED generated program (used only to choose mutation sites and to recognise the
# classes in which the real checker is more general than the monomorphic fragment; never to decide accept / reject)
# ------------------------------------------------------------------------------------------------
def bind_pat_ty(q, t, env):
    if q[0] == 'pv':
        env[q[1]] = t
    elif q[0] == 'pt' and t is not None and t[0] == 'T':
        for s, ts in zip(q[1], t[1]):
            bind_pat_ty(s, ts, env)
    elif q[0] == 'pr' and t is not None and t[0] == 'R':
        d = dict(t[1])
        for f, s in q[1]:
            bind_pat_ty(s, d.get(f), env)


def ty_of_shape(sh):
    if sh == 'N': return 'F'
    if sh[0] == 'st': return ('T', [ty_of_shape(x) for x in sh[1]])
    if sh[0] == 'sr': return ('R', sorted((f, ty_of_shape(x)) for f, x in sh[1]))
    return ('S', sh[1])


def bind_mpat_ty(m, t, env, sums):
    if m[0] == 'mc' and m[3] is not None and t is not None and t[0] == 'S':
        pay = sums.get(t[1], [])
        if m[2] < len(pay) and pay[m[2]] is not None:
            bind_pat_ty(m[3], pay[m[2]], env)
    elif m[0] == 'mt' and t is not None and t[0] == 'T':
        for x, tx in zip(m[1], t[1]):
            bind_mpat_ty(x, tx, env, sums)


def synth(e, env, out, root, path):
    """type of e (None when unknown); appends (root, path, e, type) for every subexpression to `out`"""
    k = e[0]
    t = None
    ch = lmmx_shrink.children(e)
    def sub(i, env2=None):
        return synth(ch[i], env if env2 is None else env2, out, root, path + (i,))
    if k in ('lit', 'now', 'sr', 'self'):
        t = 'F'
    elif k == 'var':
        t = env.get(e[1])
        if t is not None and t[0] == 'FUN':
            t = ('Fn', list(t[1]), t[2])
    elif k in ('bin', 'neg', 'mem', 'delay'):
        for i in range(len(ch)): sub(i)
        t = 'F'
    elif k == 'let':
        ta = sub(0)
        env2 = dict(env)
        bind_pat_ty(e[1], ta, env2)
        t = sub(1, env2)
    elif k == 'if':
        sub(0); t = sub(1); sub(2)
    elif k == 'tup':
        t = ('T', [sub(i) for i in range(len(ch))])
    elif k == 'proj':
        tt = sub(0)
        t = tt[1][e[2]] if tt is not None and tt[0] == 'T' and e[2] < len(tt[1]) else None
    elif k == 'rec':
        t = ('R', sorted((f, sub(i)) for i, (f, _) in enumerate(e[1])))
    elif k == 'fld':
        tt = sub(0)
        t = dict(tt[1]).get(e[2]) if tt is not None and tt[0] == 'R' else None
    elif k == 'lam':
        env2 = dict(env)
        for x, ty in e[1]:
            env2[x] = 'F' if ty is None else ty
        rt = sub(0, env2)
        t = ('Fn', ['F' if ty is None else ty for _, ty in e[1]], rt)
    elif k == 'app':
        tf = sub(0)
        for i in range(1, len(ch)): sub(i)
        t = tf[2] if tf is not None and tf[0] == 'Fn' else None
    elif k == 'cnamed':
        for i in range(len(ch)): sub(i)
        tf = env.get(e[1])
        t = tf[2] if tf is not None and tf[0] == 'FUN' else None
    elif k == 'pipe':
        sub(0); tf = sub(1)
        t = tf[2] if tf is not None and tf[0] == 'Fn' else None
    elif k == 'asg':
        sub(0); t = 'U'
    elif k == 'seq':
        sub(0); t = sub(1)
    elif k == 'selfs':
        t = ty_of_shape(e[1])
    elif k == 'con':
        if ch: sub(0)
        t = ('S', e[1])
    elif k == 'match':
        ts = sub(0)
        for i, (m, _) in enumerate(e[2]):
            env2 = dict(env)
            bind_mpat_ty(m, ts, env2, env.get('__sums__', {}))
            ta = sub(i + 1, env2)
            if i == 0: t = ta
    out.append((root, path, e, t))
    return t


def sites_of(p):
    """every subexpression of the program with its type: (root, path, expr, type).  root = ('fun', i) body of global i,
    ('glet', i), ('let', j) dsp let j, ('out', j)"""
    out = []
    env = {'__sums__': dict(p.get('types', []))}
    for i, g in enumerate(p['globals']):
        if g[0] == 'fun':
            env2 = dict(env)
            ptys = ['F' if t is None else t for _, t, _ in g[2]]
            for (x, _, _), t in zip(g[2], ptys):
                env2[x] = t
            rt = synth(g[3], env2, out, ('fun', i), ())
            env[g[1]] = ('FUN', ptys, rt, [d is not None for _, _, d in g[2]], [x for x, _, _ in g[2]])
        else:
            t = synth(g[2], env, out, ('glet', i), ())
            bind_pat_ty(g[1], t, env)
    env = dict(env)
    for x in p['inputs']:
        env[x] = 'F'
    for j, (q, e) in enumerate(p['lets']):
        t = synth(e, env, out, ('let', j), ())
        bind_pat_ty(q, t, env)
    for j, e in enumerate(p['outs']):
        synth(e, env, out, ('out', j), ())
    return out, env


def replace_at(e, path, new):
    if not path:
        return new
    ch = lmmx_shrink.children(e)
    ch[path[0]] = replace_at(ch[path[0]], path[1:], new)
    return lmmx_shrink.rebuild(e, ch)


def with_root(p, root, f):
    """copy of p with the expression at `root` replaced by f(old)"""
    q = {"globals": list(p['globals']), "inputs": list(p['inputs']), "lets": list(p['lets']), "outs": list(p['outs'])}
    if p.get('types'): q['types'] = p['types']
    k, i = root
    if k == 'fun':
        g = p['globals'][i]
        q['globals'][i] = ('fun', g[1], g[2], f(g[3]), g[4])
    elif k == 'glet':
        g = p['globals'][i]
        q['globals'][i] = ('glet', g[1], f(g[2]))
    elif k == 'let':
        q['lets'][i] = (p['lets'][i][0], f(p['lets'][i][1]))
    else:
        q['outs'][i] = f(p['outs'][i])
    return q


TUP12 = ('tup', [('lit', 1), ('lit', 2)])


def tup_of(e):
    return ('tup', [e, ('lit', 0)])


def mutants_at(site, env, fresh):
    """[(kind, replacement expression)] for one site"""
    root, path, e, t = site
    k = e[0]
    out = []
    if k == 'app':
        tf = None
        out.append(('call-number', ('app', ('lit', 1), e[2])))
        if e[2]:
            out.append(('drop-arg', ('app', e[1], e[2][:-1])))
            for i, a in enumerate(e[2]):
                out.append(('arg-tuple', ('app', e[1], e[2][:i] + [TUP12] + e[2][i + 1:])))
        out.append(('add-arg', ('app', e[1], e[2] + [('lit', 0)])))
    if k == 'pipe':
        out.append(('pipe-number', ('pipe', e[1], ('lit', 1))))
        out.append(('pipe-tuple', ('pipe', TUP12, e[2])))
    if k == 'cnamed':
        f = env.get(e[1])
        for i, (x, a) in enumerate(e[2]):
            out.append(('named-drop', ('cnamed', e[1], e[2][:i] + e[2][i + 1:])))
            out.append(('named-tuple', ('cnamed', e[1], e[2][:i] + [(x, TUP12)] + e[2][i + 1:])))
            out.append(('named-unknown', ('cnamed', e[1], e[2][:i] + [(fresh, a)] + e[2][i + 1:])))
            out.append(('named-duplicate', ('cnamed', e[1], e[2] + [(x, a)])))
    if t == 'F' and k not in ('lit',):
        out.append(('proj-number', ('proj', e, 0)))
        out.append(('field-number', ('fld', e, 0)))
    if k == 'if':
        out.append(('if-arms', ('if', e[1], e[2], tup_of(e[3]))))
        out.append(('if-cond-tuple', ('if', tup_of(e[1]), e[2], e[3])))
    if k == 'asg':
        out.append(('assign-tuple', ('asg', e[1], tup_of(e[2]))))
    if k == 'mem':
        out.append(('mem-tuple', ('mem', tup_of(e[1]))))
    if k == 'delay':
        out.append(('delay-tuple', ('delay', e[1], tup_of(e[2]), e[3])))
        out.append(('delay-time-tuple', ('delay', e[1], e[2], tup_of(e[3]))))
    if k == 'fld':
        out.append(('wrong-field', ('fld', e[1], 7)))
    if k == 'proj':
        out.append(('proj-range', ('proj', e[1], e[2] + 5)))
    if k == 'bin':
        out.append(('binop-tuple', ('bin', e[1], e[2], tup_of(e[3]))))
    if k == 'neg':
        out.append(('neg-tuple', ('neg', tup_of(e[1]))))
    if k == 'var' and t is not None:
        out.append(('unbound', ('var', fresh)))
    if k == 'let' and e[1][0] == 'pv':
        out.append(('pattern-tuple', ('let', ('pt', [e[1], ('pw',)]), e[2], e[3])))
        out.append(('pattern-record', ('let', ('pr', [(0, e[1])]), e[2], e[3])))
    if k == 'let' and e[1][0] == 'pt':
        out.append(('pattern-longer', ('let', ('pt', e[1][1] + [('pw',)]), e[2], e[3])))
    if k == 'let' and e[1][0] == 'pr':
        out.append(('pattern-field', ('let', ('pr', e[1][1][:-1] + [(7, e[1][1][-1][1])]), e[2], e[3])))
    if k == 'lam':
        for i, (x, ty) in enumerate(e[1]):
            nt = ('T', ['F', 'F']) if (ty is None or ty == 'F') else 'F'
            out.append(('lambda-annotation', ('lam', e[1][:i] + [(x, nt)] + e[1][i + 1:], e[2])))
        out.append(('lambda-extra-param', ('lam', e[1] + [(fresh, None)], e[2])))
    if k == 'tup' and len(e[1]) >= 2:
        if len(e[1]) >= 3:          # (a) is a parenthesised expression, not a tuple
            out.append(('tuple-shorter', ('tup', e[1][:-1])))
        out.append(('tuple-longer', ('tup', e[1] + [('lit', 0)])))
    if k == 'rec' and len(e[1]) >= 2:
        out.append(('record-drop-field', ('rec', e[1][:-1])))
        out.append(('record-rename-field', ('rec', e[1][:-1] + [(7, e[1][-1][1])])))
    if k == 'var' and t is not None and t[0] == 'Fn':
        out.append(('function-for-number', ('lit', 1)))
    if t == 'F' and k in ('lit', 'var'):
        out.append(('number-for-function', ('lam', [(fresh, None)], ('var', fresh))))
    sums = env.get('__sums__', {})
    if k == 'con':
        pay = sums.get(e[1], [])
        if e[3] is not None:
            out.append(('ctor-missing-payload', ('con', e[1], e[2], None)))
            out.append(('ctor-payload-type', ('con', e[1], e[2], tup_of(e[3]) if pay[e[2]] == 'F' else ('lit', 1))))
        else:
            out.append(('ctor-extra-payload', ('con', e[1], e[2], ('lit', 1))))
        others = [i for i, c in enumerate(pay) if i != e[2] and (c is None) == (e[3] is None) and c != pay[e[2]]]
        if others and e[3] is not None:
            out.append(('ctor-other-payload', ('con', e[1], others[0], e[3])))
    if k == 'match':
        arms = e[2]
        wild = [i for i, (m, _) in enumerate(arms) if m == ('mw',)]
        kinds = {m[0] for m, _ in arms}
        if wild and len(arms) >= 2:
            # on a TUPLE scrutinee the real checker still asks for no exhaustiveness (what is left of finding T7)
            out.append(('match-drop-wildcard-arm' + ('-tuple' if 'mt' in kinds else ''), ('match', e[1], [a for i, a in enumerate(arms) if i not in wild])))
        if 'mc' in kinds and not wild and 'mt' not in kinds and len(arms) >= 2:
            out.append(('match-drop-constructor-arm', ('match', e[1], arms[:-1])))
        if len(arms) >= 2:
            out.append(('match-arms-type', ('match', e[1], arms[:-1] + [(arms[-1][0], tup_of(arms[-1][1]))])))
        if kinds <= {'ml', 'mw'}:
            out.append(('match-scrutinee-tuple', ('match', tup_of(e[1]), arms)))
            if sums:
                tid = sorted(sums)[0]
                out.append(('match-constructor-pattern-on-number', ('match', e[1], [(('mc', tid, 0, None), arms[0][1])] + arms[1:])))
            out.append(('match-tuple-pattern-on-number', ('match', e[1], [(('mt', [('ml', 0), ('mw',)]), arms[0][1])] + arms[1:])))
        if 'mc' in kinds and 'mt' not in kinds:
            i = next(i for i, (m, _) in enumerate(arms) if m[0] == 'mc')
            if not lmmx.mpat_vars(arms[i][0]):
                out.append(('match-literal-pattern-on-sum', ('match', e[1], arms[:i] + [(('ml', 0), arms[i][1])] + arms[i + 1:])))
            m = arms[i][0]
            pay = sums.get(m[1], [])
            if m[3] is None and m[2] < len(pay) and pay[m[2]] is None:
                out.append(('match-binder-for-no-payload', ('match', e[1], arms[:i] + [(('mc', m[1], m[2], ('pv', fresh)), arms[i][1])] + arms[i + 1:])))
            if m[3] is not None and m[3][0] == 'pv':
                out.append(('match-payload-pattern-tuple', ('match', e[1], arms[:i] + [(('mc', m[1], m[2], ('pt', [m[3], ('pw',)])), arms[i][1])] + arms[i + 1:])))
        if 'mt' in kinds:
            i = next(i for i, (m, _) in enumerate(arms) if m[0] == 'mt')
            m = arms[i][0]
            out.append(('match-tuple-pattern-longer', ('match', e[1], arms[:i] + [(('mt', m[1] + [('mw',)]), arms[i][1])] + arms[i + 1:])))
    return out


def fresh_id(p):
    m = 0
    def pat_ids(q):
        return lmmx.pat_vars(q)
    for g in p['globals']:
        if g[0] == 'fun':
            m = max([m, g[1]] + [x for x, _, _ in g[2]])
        else:
            m = max([m] + pat_ids(g[1]))
    for q, _ in p['lets']:
        m = max([m] + pat_ids(q))
    m = max([m] + list(p['inputs']))
    for b in lmmx.all_bodies(p):
        for s in lmmx.subexprs(b):
            if s[0] in ('var', 'asg'): m = max(m, s[1])
            if s[0] == 'lam': m = max([m] + [x for x, _ in s[1]])
            if s[0] == 'let': m = max([m] + pat_ids(s[1]))
            if s[0] == 'cnamed': m = max([m, s[1]] + [x for x, _ in s[2]])
            if s[0] == 'match': m = max([m] + [x for mp, _ in s[2] for x in lmmx.mpat_vars(mp)])
    return m + 1


def program_mutants(p, rng):
    """[(kind, program)]: mutations of declarations rather than of one expression"""
    out = []
    n = fresh_id(p)
    funs = [(i, g) for i, g in enumerate(p['globals']) if g[0] == 'fun']
    def setg(i, g):
        q = dict(p); q['globals'] = list(p['globals']); q['globals'][i] = g
        return q
    for i, g in funs:
        for j, (x, t, d) in enumerate(g[2]):
            nt = ('T', ['F', 'F']) if (t is None or t == 'F') else 'F'
            out.append(('param-annotation', setg(i, ('fun', g[1], g[2][:j] + [(x, nt, d)] + g[2][j + 1:], g[3], g[4]))))
            if d is not None:
                out.append(('default-tuple', setg(i, ('fun', g[1], g[2][:j] + [(x, t, TUP12)] + g[2][j + 1:], g[3], g[4]))))
        if not any(d is not None for _, _, d in g[2]):
            out.append(('extra-param', setg(i, ('fun', g[1], g[2] + [(n, None, None)], g[3], g[4]))))
            if g[2]:
                out.append(('fewer-params', setg(i, ('fun', g[1], g[2][:-1], g[3], g[4]))))
    def add_fun(body, call):
        q = dict(p)
        q['globals'] = list(p['globals']) + [('fun', n, [(n + 1, None, None)], body, None)]
        q['outs'] = [('bin', 'add', p['outs'][0], call)] + list(p['outs'][1:])
        return q
    y = n + 2
    lam = ('lam', [(y, None)], ('bin', 'add', ('var', y), ('var', n + 1)))
    # fn fN(v){ let s = self  {fa = |y| y + v, fb = |y| y + v} }   ... + (fN(1).fa)(2)
    out.append(('self-returns-record-of-functions',
                add_fun(('let', ('pv', n + 3), ('self',), ('rec', [(0, lam), (1, lam)])),
                        ('app', ('fld', ('app', ('var', n), [('lit', 1)]), 0), [('lit', 2)]))))
    # fn fN(v){ let g = |y| y + v  let s = self  g }   ... + fN(1)(2)
    out.append(('self-returns-closure',
                add_fun(('let', ('pv', n + 4), lam, ('let', ('pv', n + 3), ('self',), ('var', n + 4))),
                        ('app', ('app', ('var', n), [('lit', 1)]), [('lit', 2)]))))
    # fn fN(v){ |y| y + v + self }: self of the returned lambda is fine, the function itself does not use self
    out.append(('closure-with-own-self',
                add_fun(('lam', [(y, None)], ('bin', 'add', ('bin', 'add', ('var', y), ('var', n + 1)), ('self',))),
                        ('app', ('app', ('var', n), [('lit', 1)]), [('lit', 2)]))))
    # fn fN(v){ let (a, b) = self  (a + v, b) }   ... + fN(1).0
    out.append(('self-returns-tuple-read-as-number',
                add_fun(('let', ('pt', [('pv', n + 3), ('pv', n + 4)]), ('self',),
                         ('tup', [('bin', 'add', ('var', n + 3), ('var', n + 1)), ('var', n + 4)])),
                        ('proj', ('app', ('var', n), [('lit', 1)]), 0))))
    # the same with `self` read at the function's (tuple) type: a well-typed program
    out.append(('self-returns-tuple',
                add_fun(('let', ('pt', [('pv', n + 3), ('pv', n + 4)]), ('selfs', ('st', ['N', 'N'])),
                         ('tup', [('bin', 'add', ('var', n + 3), ('var', n + 1)), ('var', n + 4)])),
                        ('proj', ('app', ('var', n), [('lit', 1)]), 0))))
    # fn fN(a:float, a:float){ a }  (never called)   /   let g = |a:float, a:float| { a }  (never called)
    q = dict(p); q['globals'] = list(p['globals']) + [('fun', n, [(n + 1, None, None), (n + 1, None, None)], ('var', n + 1), None)]
    out.append(('duplicate-parameter', q))
    q = dict(p); q['lets'] = list(p['lets']) + [(('pv', n), ('lam', [(n + 1, None), (n + 1, None)], ('var', n + 1)))]
    out.append(('duplicate-parameter', q))
    if funs:
        i, g = funs[rng.below(len(funs))]
        q = dict(p); q['lets'] = list(p['lets']) + [(('pw',), ('asg', g[1], ('var', g[1])))]
        out.append(('assign-function-name', q))
    return out


def gen_mutants(p, rng, k):
    """k mutants of the well-typed program p: (kind, program)"""
    sites, env = sites_of(p)
    n = fresh_id(p)
    cands = []
    def root_expr(root):
        k, i = root
        return p['globals'][i][3] if k == 'fun' else p['globals'][i][2] if k == 'glet' else p['lets'][i][1] if k == 'let' else p['outs'][i]
    def parent_of(site):
        root, path = site[0], site[1]
        if not path:
            return None
        e = root_expr(root)
        for j in path[:-1]:
            e = lmmx_shrink.children(e)[j]
        return e
    for s in sites:
        for kind, new in mutants_at(s, env, n):
            if kind == 'ctor-missing-payload':
                # directly the scrutinee of a match: the repaired part of finding T9 (the patterns ask for the sum type)
                par = parent_of(s)
                if par is not None and par[0] == 'match' and s[1][-1] == 0:
                    kind = 'ctor-missing-payload-scrutinee'
            cands.append((kind, s, new))
    by_kind = {}
    for c in cands:
        by_kind.setdefault(c[0], []).append(c)
    pm = program_mutants(p, rng)
    for kind, q in pm:
        by_kind.setdefault(kind, []).append((kind, None, q))
    kinds = sorted(by_kind)
    out = []
    for _ in range(k):
        if not kinds:
            break
        kind = kinds[rng.below(len(kinds))]
        c = by_kind[kind][rng.below(len(by_kind[kind]))]
        if c[1] is None:
            out.append((kind, c[2]))
        else:
            root, path = c[1][0], c[1][1]
            out.append((kind, with_root(p, root, lambda old: replace_at(old, path, c[2]))))
    return out


# ------------------------------------------------------------------------------------------------
# source text with EVERY parameter annotated (lmmx.pp_prog leaves number parameters of lambdas to inference; a mutant must
# stay in the annotated fragment, otherwise the real checker re-infers the parameter from its new use)
# ------------------------------------------------------------------------------------------------
class PPA(lmmx.PP):
    def e(self, e, ind="  "):
        if e[0] == 'lam':
            ps = ", ".join("%s:%s" % (lmmx.vname(x), lmmx.pp_ty('F' if t is None else t)) for x, t in e[1])
            return "|%s| { %s }" % (ps if ps else " ", self.block(e[2], ind + "  "))
        return lmmx.PP.e(self, e, ind)


SHUFFLE = vplib.Rng(20260926)     # permutes only the (meaningless) textual order of record fields / named arguments


def pp_prog(p):
    """the source text sent to the real compiler: every parameter annotated; record literals, record patterns and named
    arguments in a pseudo-random textual order that is a function of the program alone (the model sees the canonical order:
    the verdict must not depend on the order the fields are written in)"""
    pr = PPA(lmmx.fun_ids(p), SHUFFLE.fork(lmmx.prog_sx(p)))
    out = []
    for tid, ctors in p.get('types', []):
        out.append("type %s = %s" % (lmmx.tname(tid), " | ".join(lmmx.cname(tid, i) + ("" if t is None else "(" + lmmx.pp_ty(t) + ")")
                                                                 for i, t in enumerate(ctors))))
    for g in p['globals']:
        if g[0] == 'fun':
            _, name, params, body, ret = g
            ps = []
            for x, t, d in params:
                s = lmmx.vname(x) + ":" + lmmx.pp_ty('F' if t is None else t)
                if d is not None:
                    s += " = " + pr.e(d)
                ps.append(s)
            rt = "" if ret is None else " -> " + lmmx.pp_ty(ret)
            out.append("fn %s(%s)%s{\n  %s\n}" % (lmmx.fname(name), ", ".join(ps), rt, pr.block(body, "  ")))
        else:
            out.append("let %s = %s" % (lmmx.pp_pat(g[1], pr.shuffled), pr.e(g[2])))
    body = ""
    for q, e in p['lets']:
        if q[0] == 'pw' and e[0] in ('asg',):
            body += "  " + pr.stmt(e, "  ") + "\n"
        else:
            body += "  let %s = %s\n" % (lmmx.pp_pat(q, pr.shuffled), pr.e(e))
    if len(p['outs']) == 1:
        body += "  " + pr.e(p['outs'][0])
    else:
        body += "  (" + ", ".join(pr.e(e) for e in p['outs']) + ")"
    out.append("fn dsp(%s){\n%s\n}" % (", ".join(lmmx.vname(x) + ':float' for x in p['inputs']), body))
    return "\n".join(out) + "\n"


# ------------------------------------------------------------------------------------------------
# findings (defects of the REAL type checker found by this part; each has a witness in corpus/lmmt/cases.json that is run
# first).  A mutant kind listed in TOLERATED may be accepted by the real checker although even the lenient configuration of
# the model rejects it; what the backends then do is attributed to the finding.  Every other mutant obeys the SANDWICH
#     tc_prog (strict, proved sound)  accepts  =>  typing.rs accepts  =>  tc_prog (lenient) accepts
# and the lenient configuration is lenient exactly where typing.rs still is (T0-T5, T7 on tuples, T9 function values).
# ------------------------------------------------------------------------------------------------
FINDINGS = {
    "T0": "typing/unification.rs unify_vec DROPS the errors of the elements when two tuples of equal length are unified (it returns "
          "Ok unless sub- and supertype relations are mixed); the argument list of a call with two or more arguments is compared as "
          "a tuple, every binary operator is such a call: any type mismatch inside a tuple element or in an argument of a "
          "multi-argument call is accepted (fn f(a:float, b:(float,float)){ a + b.1 } fn dsp(){ f(1.0, 2.0) }: VM plays 1.0, WASM "
          "module invalid; root cause of C03/F40 and C04/F44)",
    "T1": "typing.rs infer_field_access / extend_record_with_field: a field that a LET-BOUND record does not have is added to the "
          "record's type instead of being reported (let r = {fa = 1.0, fb = 2.0}  r.fc: accepted; VM panics 'range end index' "
          "(site of F37), WASM plays the bits of an address); the same for a record pattern naming a missing field "
          "(let {fa = x, fc = y} = {fa = 1.0, fb = 2.0}: VM 'value extfun y number not found', site of F38) and for record literals "
          "that lack a field of the expected record (their fields are typed has_default = true)",
    "T2": "typing.rs Expr::Feed checks bty.contains_function() on the unresolved type: a function using self whose result is a LET-BOUND "
          "closure (type still an Intermediate variable) is accepted although 'Function that uses self cannot return function type' "
          "(fn f(x:float){ let g = |y:float| { y + x }  let s = self  g }  fn dsp(){ f(1.0)(2.0) }: VM panics 'Invalid indirect callable', WASM plays)",
    "T3": "the operands of delay are not checked to be numbers: delay(2.0, (3.0, 4.0), 1.0) and delay(2.0, 1.0, (3.0, 4.0)) are accepted "
          "(both backends silently use the first word)",
    "T4": "a user-defined function name is accepted as the target of an assignment (fn f(x:float){ x } fn dsp(){ f = f  1.0 }; the fix a15ee7b "
          "covers builtins, externals and type names only); no effect on the backends",
    "T5": "auto spread (a number -> number function applied to a tuple) of a LET-BOUND lambda is accepted and the VM code generator panics "
          "'value reg(N) not found' (site of F38): let g = |x:float| { x + 1.0 }  g((1.0, 2.0)).0 ; WASM plays",
    "TS": "(not a defect) `self` has an inferred type in the real checker; the model needs it written at the function's type (XSelfS): the "
          "mutant reads a tuple-valued self with the number form of `self`",
    "T6": "REPAIRED (fix: match arms of different types are a type error): typing.rs Expr::Match dropped the error of unifying the arms "
          "((match now { 0 => 1.0, _ => (2.0, 3.0) }) + 1.0 played 2 3 3); the lenient configuration rejects the mutants of kind match-arms-type too",
    "T7": "what is left: check_match_exhaustiveness takes every TUPLE pattern for a wildcard: a match on a tuple without `_` arm is accepted; when "
          "no arm applies the VM runs the LAST arm's code and WASM plays 0.0 (fn g(p){ match p { (0, 0) => 1.0, (1, _) => 2.0 } } fn dsp(){ "
          "g((now, 0.0)) }: VM 1 2 2, WASM 1 2 0; the reference semantics is stuck: E_NOMATCH).  REPAIRED for a number scrutinee (fix: a match "
          "on a number without a `_` arm is reported as not exhaustive)",
    "T8": "REPAIRED (fix: match patterns are checked against the type of the scrutinee): a constructor or tuple pattern on a number, a tuple "
          "pattern of another width, a literal pattern on a sum value, a binder for a constructor without payload, a tuple payload pattern on a "
          "number payload are rejected again.  Left (not generated): a bare identifier that is no declared constructor, in a tuple pattern over "
          "a scrutinee whose type is not yet known, is taken for constructor number 0 (fn u(p){ match p { (a, 0) => 5.0, _ => 7.0 } })",
    "T9": "what is left: a constructor that carries a payload used as a first-class FUNCTION value (type T = A | B(float)  let v = B ; ap(B, 2.0)) "
          "is well typed (float -> T) but the VM code generator panics (`value constructor B(tag=1, ..) not found`, `Option::unwrap()` on "
          "None) and WASM plays 0; same family as C04/F55.  REPAIRED: B without its payload as the scrutinee of a match is a type error",
    "DEF": "default parameter values are not visited by the type check (C04/F42, F50): fn f(x:float, y:float = (1.0, 2.0))",
    "F40": "C03/F40: arithmetic between a number and a tuple (broadcasting) used as a number",
}

# how the backends are known to fail on programs that only the (unsound) real checker accepts
FAILURE_SIGNATURES = (r"range (end|start) index \d+ out of range for slice|value (reg\(\d+\)|extfun .*) not found|Invalid indirect callable|"
                      r"invalid number of return value|Failed to load WASM module|Failed to call function|^crash:|value constructor .* not found|value function \d+ not found|called `Option::unwrap\(\)` on a `None` value|"
                      # mirgen re-infers the type of a sub-expression of a program the checker should not have accepted (seen for a tuple piped
                      # into a let-bound lambda, T5, thorough tier seed 5)
                      r"type inference failed for expr")

TOLERATED = {
    "wrong-field": "T1", "pattern-field": "T1", "pattern-record": "T1", "record-drop-field": "T1", "record-rename-field": "T1",
    "self-returns-closure": "T2", "self-returns-tuple-read-as-number": "TS",
    "delay-tuple": "T3", "delay-time-tuple": "T3", "assign-function-name": "T4",
    "arg-tuple": "T5", "pipe-tuple": "T5", "default-tuple": "DEF", "binop-tuple": "F40", "neg-tuple": "F40",
    "match-drop-wildcard-arm-tuple": "T7",
    "ctor-other-payload": "T0",
}

# The repaired leniencies (T6, T7 on numbers, T8, the scrutinee part of T9) need no list here: the LENIENT configuration of tc_prog
# follows the repaired typing.rs (Lmmt/Check.v: tc_mpat is the same function in both configurations, the arms must have one type,
# a match on a number needs `_`; Props/C03_types.v C03_types_lenient_rejects_T6/T7/T8/T9), so a mutant of these kinds that typing.rs
# accepts again is outside the sandwich strict <= real <= lenient and is reported as such.
# What is left of T9 is INSIDE the lenient configuration (a payload constructor without its payload is a function value): the kind is
# not tolerated, it only names the finding the backend failures of such programs are attributed to.
ATTRIBUTED = {"ctor-missing-payload": "T9"}

def free_self(p):
    """`self` has an INFERRED type in the real checker (the function's result type).  It is pinned to a number only where it is an
    operand of an operator / mem / delay; anywhere else (result of the function, if arm, tuple / record component, let-bound,
    argument) a mutation can change the type that is inferred for it, which leaves the annotated (monomorphic) fragment"""
    def go(e):
        for c in lmmx_shrink.children(e):
            if c[0] == 'selfs' or (c[0] == 'self' and e[0] not in ('bin', 'neg', 'mem', 'delay')):
                return True
            if go(c):
                return True
        return False
    return any(b[0] in ('self', 'selfs') or go(b) for b in lmmx.all_bodies(p))


def prove_part(ck):
    """builds Props/C03_types.vo (full proofs) and audits Print Assumptions of every theorem; [] when all is well"""
    if os.environ.get("VERIF_DEV_NOPROVE") == "1":
        return []
    if not os.path.exists(os.path.join(vplib.COQ, "theories", "Props", PROPS + ".v")):
        return ["Props/%s.v is missing" % PROPS]
    bad = []
    rc, out, dt = vplib.coq_make([COQ_TARGETS[0]], timeout=1500)
    ck.coverage["lmmt_coq_build_s"] = round(dt, 1)
    if rc != 0:
        return ["coq: " + vplib.first_coq_error(out).replace("\n", " | ")[:600]]
    hits = [h for h in vplib.coq_audit_sources() if "/Lmmt/" in h or "C03_types" in h or "LmmtExtract" in h]
    if hits:
        return ["audit: forbidden construct: " + "; ".join(hits[:5])]
    thms, exs = vplib.props_theorems(PROPS)
    ck.coverage["lmmt_theorems"] = thms
    ck.coverage["lmmt_examples"] = exs
    need = {"C03_types_sound", "C03_types_never_stuck", "C03_types_sound_reachable", "C03_types_preservation", "C03_types_lenient_upper_bound"}
    if not need <= set(thms):
        bad.append("Props/%s.v no longer states %s" % (PROPS, sorted(need - set(thms))))
    try:
        ax = vplib.coq_print_assumptions(PROPS, thms + exs)
    except RuntimeError as ex:
        return ["audit: " + str(ex)[:400]]
    open_ = {k: v for k, v in ax.items() if v}
    if open_ or set(ax) != set(thms + exs):
        bad.append("audit: theorems of Props/%s.v are not closed under the global context: %r" % (PROPS, open_))
    ck.coverage["lmmt_print_assumptions"] = {k: (v or ["Closed under the global context"]) for k, v in ax.items()}
    ck.obligations += len(thms) + len(exs)
    if not bad:
        ck.discharged += len(thms) + len(exs)
    return bad


def build_sides():
    if os.environ.get("LMMT_DEV_EXE"):      # development only: a privately built model driver
        rc, out, bindir = vplib.cargo_build("lang", ["lmmm_run"])
        return os.environ["LMMT_DEV_EXE"], os.path.join(bindir, "lmmm_run"), None
    rc, out, _ = vplib.coq_make([EXTRACT_TARGET], timeout=900)
    if rc != 0:
        return None, None, "extraction of the type checker failed: " + vplib.first_coq_error(out)[:300]
    rc, out, mexe = vplib.ocaml_build("lmmt_drv", ["lmmt_model"], os.path.join(VERIF, "ocaml", "lmmt_drv.ml"))
    if rc != 0:
        return None, None, "model driver does not build: " + out[-300:]
    rc, out, bindir = vplib.cargo_build("lang", ["lmmm_run"])
    if rc != 0:
        return None, None, "harness lmmm_run does not build: " + out[-400:]
    return mexe, os.path.join(bindir, "lmmm_run"), None


def outcome(b):
    """'ok' | 'reject:<msg>' | 'compile-panic:<msg>' | 'run-panic:<msg>' of one backend answer"""
    if b is None:
        return 'missing'
    if 'compile' in b:
        return 'reject:' + str(b['compile'])[:160]
    if 'compile_panic' in b:
        return 'compile-panic:' + str(b['compile_panic'])[:160]
    for s in b.get('samples', []):
        if 'panic' in s:
            return 'run-panic:' + s['panic'][:160]
    return 'ok'


def backend_outcomes(r):
    if 'crash' in r:
        return {"vm": "crash:%s" % r['crash'], "wasm": "crash:%s" % r['crash']}
    return {"vm": outcome(r.get("vm")), "wasm": outcome(r.get("wasm"))}


def real_verdict(r):
    v = r.get("typecheck")
    if v is None:
        return "crash" if 'crash' in r else "missing"
    return "panic" if v.startswith("panic") else v


def requests(progs, rows_of, typecheck_only):
    reqs = []
    for p, rows in zip(progs, rows_of):
        r = {"src": pp_prog(p), "n": len(rows), "state": False, "typecheck": True}
        if typecheck_only:
            r["backends"] = []
        if p['inputs']:
            r["inputs"] = [[float(v) for v in row] for row in rows]
        reqs.append(r)
    return reqs


def out_rows(b):
    return [[lmmx.bits_to_float(h) for h in s['out']] for s in b['samples']]


def replay_of(p, rows, m, real, outs=None, kind=None):
    o = {"source": pp_prog(p), "n_samples": len(rows), "inputs": rows if p['inputs'] else None, "model_input": model_line(p, rows),
         "model_answer": m, "real_typecheck": real,
         "how": "echo '{\"src\":<source>,\"n\":N,\"typecheck\":true}' | .cache/target/lang/debug/lmmm_run ;  "
                "echo '<model_input>' | .cache/ocaml/lmmt_drv/lmmt_drv"}
    if outs is not None:
        o["backends"] = outs
    if kind is not None:
        o["mutation"] = kind
    return o


def run_corpus(ck, mexe, iexe, viol, cov):
    import lmmx_part
    path = os.path.join(os.environ.get("LMMT_CORPUS") or os.path.join(VERIF, "corpus", "lmmt"), "cases.json")
    if not os.path.exists(path):
        viol.append(("types: corpus/lmmt/cases.json is missing", {"no_input": True}))
        return
    cs = json.load(open(path))
    progs = [lmmx_part.unjson_prog(c["prog"]) for c in cs]
    rows = [c["rows"] for c in cs]
    mres = run_model(mexe, list(zip(progs, rows)))
    reqs = requests(progs, rows, False)
    for q in reqs:
        q["isolate"] = True
    ires = lmmx.run_impl(iexe, reqs)
    cov["corpus_cases"] = len(cs)
    cov["corpus_findings_reproduced"] = []
    cov["corpus_findings_changed"] = []
    for c, p, m, r in zip(cs, progs, mres, ires):
        ex = c["expect"]
        got_m = {"tc": m.get("tc"), "lenient": m.get("lenient"), "run": (sorted(m.get("run", {}).items()) or [[None, None]])[0][0]}
        if "stuck" in m.get("run", {}):
            got_m["stuck"] = m["run"]["stuck"]
        want_m = {k: ex[k] for k in ("tc", "lenient", "run", "stuck") if k in ex}
        if {k: got_m.get(k) for k in want_m} != want_m:
            viol.append(("types: the model no longer answers corpus case '%s' as recorded (%s)" % (c["name"], c["note"]),
                         {"source": pp_prog(p), "recorded": want_m, "model": m, "no_input": True}))
            continue
        rv = real_verdict(r)
        outs = backend_outcomes(r)
        def same(be):
            return outs[be].startswith(ex[be])
        if c.get("finding"):
            ok = rv == ex["real"] and same("vm") and same("wasm")
            (cov["corpus_findings_reproduced"] if ok else cov["corpus_findings_changed"]).append(
                "%s:%s" % (c["finding"], c["name"]) + ("" if ok else " now real=%s vm=%s wasm=%s" % (rv, outs["vm"][:60], outs["wasm"][:60])))
        else:
            if rv != ex["real"]:
                viol.append(("types: corpus case '%s' (%s): the real type checker answers %s, the model %s" % (c["name"], c["note"], rv, m.get("tc")),
                             replay_of(p, c["rows"], m, rv, outs)))
            elif rv == "ok" and not (same("vm") and same("wasm")):
                viol.append(("types: corpus case '%s' (%s): accepted by the real type checker and by tc_prog but %s" %
                             (c["name"], c["note"], "; ".join("%s: %s" % kv for kv in outs.items() if kv[1] != 'ok')[:300]),
                             replay_of(p, c["rows"], m, rv, outs)))


def run_part(ck, quick=True, site_class=None):
    """violations of the type-system part as (what, replay_obj); measured coverage in ck.coverage['lmmt_*'].
    site_class: checks/C03.py site_class (panic message -> id of a listed C03 finding); taken from there when not given"""
    t0 = time.time()
    viol = []
    for b in prove_part(ck):
        ck.broken.append("lmmt: " + b)
        viol.append(("types: proof obligation no longer checks: " + b, {"no_input": True}))
    mexe, iexe, err = build_sides()
    if mexe is None:
        return viol + [("types: " + err, {"no_input": True})]
    cov = {}
    run_corpus(ck, mexe, iexe, viol, cov)

    rng = ck.rng.fork("lmmt")
    n_progs, n_mut, n_samples = (1000, 3, 4) if quick else (6000, 4, 6)
    cases3 = lmmx_gen.gen_cases(rng, n_progs, n_samples, tag="lmmt", dyn_share=0, ext=True)
    items = []          # (kind | None, prog, rows)
    for i, (p, rows, _) in enumerate(cases3):
        items.append((None, p, rows))
        for kind, q in gen_mutants(p, rng.fork(("mut", i)), n_mut):
            items.append((kind, q, rows))
    progs = [q for _, q, _ in items]
    rws = [rows for _, _, rows in items]
    mres = run_model(mexe, list(zip(progs, rws)))
    tres = lmmx.run_impl(iexe, requests(progs, rws, True))
    st = {}
    def bump(k, n=1): st[k] = st.get(k, 0) + n
    kinds = {}
    def kbump(kind, k): kinds.setdefault(kind, {}); kinds[kind][k] = kinds[kind].get(k, 0) + 1
    bad = []            # (index, what)
    torun = []
    for i, ((kind, p, rows), m, r) in enumerate(zip(items, mres, tres)):
        if 'tc' not in m:
            bad.append((i, "the model driver fails on a generated program: %s" % json.dumps(m)[:200])); continue
        rv = real_verdict(r)
        mv, lv = m['tc'], m.get('lenient')
        run = m.get('run', {})
        if rv in ("panic", "crash", "missing"):
            bad.append((i, "the real type checker %s on %s" % ("panics: " + str(r.get("typecheck"))[:200] if rv == "panic" else "crashes",
                                                               "a generated program" if kind is None else "a mutant (%s)" % kind)))
            continue
        if kind is None:
            bump("generated_programs")
            if mv != "ok":
                bad.append((i, "tc_prog rejects a generated (well-typed by construction) program")); continue
            if rv != "ok":
                bad.append((i, "the real type checker rejects a generated (well-typed by construction) program")); continue
            bump("generated_accepted_by_both")
        else:
            bump("mutants")
            kbump(kind, "model=%s real=%s" % (mv if mv == lv else mv + "(lenient:" + lv + ")", rv))
            if mv == "ok" and lv != "ok":
                bad.append((i, "the lenient configuration of tc_prog rejects a program its strict configuration accepts (mutation: %s)" % kind)); continue
            if mv == "ok" and rv != "ok":
                bad.append((i, "tc_prog accepts a program the real type checker rejects (mutation: %s)" % kind)); continue
            if rv == "ok" and lv != "ok" and kind not in TOLERATED and not kind.startswith("self-returns") and free_self(p):
                bump("mutants_discarded_self_has_an_inferred_type"); kbump(kind, "discarded(self inferred)")
                continue
            if rv == "ok" and lv != "ok" and kind not in TOLERATED:
                bad.append((i, "the real type checker accepts a program that tc_prog rejects even in its lenient configuration "
                               "(mutation: %s; not a documented leniency of typing.rs)" % kind)); continue
            if mv == rv == "ok": bump("mutants_accepted_by_both")
            elif mv != "ok" and rv != "ok": bump("mutants_rejected_by_both")
            elif lv == "ok": bump("mutants_real_accepts_within_lenient_configuration(%s)" % ATTRIBUTED.get(kind, "T0"))
            else: bump("mutants_real_accepts_tolerated_kind")
            if mv != "ok" and rv == "ok" and "stuck" in run:
                bump("mutants_real_accepts_but_reference_is_stuck")
        # soundness theorem on the extracted code: an accepted program is never stuck, rows have the declared width
        if mv == "ok":
            if "stuck" in run:
                bad.append((i, "C03_types_sound fails on the extracted code: tc_prog accepts, xrun is Stuck %s" % run["stuck"])); continue
            if "ok" in run and any(len(row) != m["ret_words"] for row in run["ok"]):
                bad.append((i, "C03_types_sound fails on the extracted code: an output row has not %d words" % m["ret_words"])); continue
            bump("accepted_runs_" + (list(run) or ["none"])[0])
        if rv == "ok":
            torun.append(i)
    # the property itself on the implementation: what the real checker accepts must compile and run on both backends
    breqs = requests([progs[i] for i in torun], [rws[i] for i in torun], False)
    for q in breqs:
        del q["typecheck"]
    bres = lmmx.run_impl(iexe, breqs)
    known = {f["id"]: f for f in vplib.known_findings("C03")}
    attributed = {}
    import re
    if site_class is None:
        try:
            import importlib.util as _ilu
            _sp = _ilu.spec_from_file_location("check_C03_sites", os.path.join(VERIF, "checks", "C03.py"))
            _c03 = _ilu.module_from_spec(_sp); _sp.loader.exec_module(_c03)
            site_class = _c03.site_class
        except Exception:
            site_class = lambda msg: None
    for i, r in zip(torun, bres):
        kind, p, rows = items[i]
        m = mres[i]
        outs = backend_outcomes(r)
        fine = all(v == 'ok' for v in outs.values())
        words = None
        if fine:
            widths = {len(row) for be in ("vm", "wasm") for row in out_rows(r[be])}
            io = (r["vm"].get("io") or [None, None])[1]
            if m["tc"] == "ok" and (widths - {m["ret_words"]} or (io is not None and io != m["ret_words"])):
                bad.append((i, "dsp yields %s words per sample, its type declares %d" % (sorted(widths), m["ret_words"]))); continue
            bump("accepted_by_real_runs_on_both_backends")
            if m["tc"] == "ok" and "ok" in m.get("run", {}):
                ref = [[float(v) for v in row] for row in m["run"]["ok"]]
                bump("both_accept_vm_equals_reference" if out_rows(r["vm"]) == ref else "both_accept_vm_differs_from_reference(C02_classes)")
            continue
        why = "; ".join("%s: %s" % kv for kv in outs.items() if kv[1] != 'ok')
        if m["tc"] == "ok":
            # accepted by BOTH checkers: a C03 violation unless inside a listed class of C03 (panic site) / a C02 class of lmmx
            fid = site_class(why)
            kc = lmmx.known_classes(p)
            if fid in known:
                ck.known(known[fid], "program accepted by tc_prog and typing.rs: " + why[:160]); bump("known_finding_" + fid); continue
            if "X7" in known and "crash" in why and kind is not None:
                pass
            # compile failures of a backend inside a class of the C02 part (witnesses in corpus/lmmx, reported there on every run):
            # MG (what is left of it): VM `value reg(N) not found` for a lambda that captures the payload binder of a match at global
            # scope.  (W10 is repaired and no longer excused.)
            lc = sorted(c for c in kc if c in ("MG",))
            if lc and all(v == 'ok' or re.search(r"value reg\(\d+\) not found", v) for v in outs.values()):
                bump("both_accept_backend_compile_failure_in_lmmx_class(%s)" % "+".join(lc)); continue
            bad.append((i, "a program accepted by the real type checker (and by tc_prog) does not compile / run: " + why[:300])); continue
        fid = TOLERATED.get(kind) or ATTRIBUTED.get(kind) or "T0"
        if not all(v == 'ok' or re.search(FAILURE_SIGNATURES, v) for v in outs.values()):
            bad.append((i, "a program only the real type checker accepts (mutation: %s, finding %s) fails on a backend in a way not seen "
                           "before for the findings of this part: %s" % (kind, fid, why[:300]))); continue
        attributed.setdefault(fid, {})
        sig = re.sub(r"\d+", "N", why)[:90]
        attributed[fid][sig] = attributed[fid].get(sig, 0) + 1
        bump("accepted_by_real_only_fails_on_a_backend(finding_%s)" % fid)
        if fid in known:
            ck.known(known[fid], why[:200])
    # failures must reproduce alone (requests of one harness process share the compiler's global tables)
    confirmed = []
    for i, what in bad[:12]:
        kind, p, rows = items[i]
        m1 = run_model(mexe, [(p, rows)])[0]
        rq = requests([p], [rows], False)[0]; rq["isolate"] = True
        r1 = lmmx.run_impl(iexe, [rq])[0]
        if m1 != mres[i] or real_verdict(r1) != real_verdict(tres[i]):
            bump("failed_only_inside_a_shared_harness_process"); continue
        confirmed.append((i, what, m1, r1))
    for i, what, m1, r1 in confirmed[:4]:
        kind, p, rows = items[i]
        viol.append(("types: " + what, replay_of(p, rows, m1, real_verdict(r1), backend_outcomes(r1), kind)))
    if len(bad) > 4:
        cov["further_failing_programs"] = len(bad) - 4
    cov["stats"] = st
    cov["mutation_kinds"] = {k: kinds[k] for k in sorted(kinds)}
    cov["backend_failures_of_programs_only_the_real_checker_accepts"] = attributed
    cov["findings"] = {k: v[:160] for k, v in FINDINGS.items()}
    for i in (0, 1):
        if i < len(items):
            ck.sample({"source": pp_prog(items[i][1]), "mutation": items[i][0], "model": mres[i], "real_typecheck": real_verdict(tres[i])})
    cov["wall_s"] = round(time.time() - t0, 1)
    for k, v in cov.items():
        ck.coverage["lmmt_" + k] = v
    ck.add("evaluations", len(items))
    ck.add("distinct_nontrivial", st.get("mutants", 0))
    return viol


if __name__ == "__main__":
    thorough = "--thorough" in sys.argv
    ck = vplib.Check("lmmt_dev", ["--tier", "thorough" if thorough else "quick"])
    t0 = time.time()
    vs = run_part(ck, quick=not thorough)
    print(json.dumps({k: v for k, v in ck.coverage.items() if k.startswith("lmmt_") and k not in ("lmmt_print_assumptions", "lmmt_findings")}, indent=1, default=str)[:9000])
    print("seed %d: %d violation(s) in %.1f s" % (ck.seed, len(vs), time.time() - t0))
    for what, obj in vs:
        print("VIOLATION:", what)
        print(json.dumps(obj, indent=1)[:3000])
    sys.exit(1 if vs else 0)
