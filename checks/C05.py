"""C05 — compile-time state layout matches run-time state accesses.

P: Props/C05.v (C05_layout_exact, C05_run_layout_exact, C05_wf_compiles, C05_branch_refuted) over Lmmm/{Compile,Machine}.v.
C: the extracted model (compile + cursor machine) vs the real compiler + VM (hook H1 trace, published skeleton, flat words,
   cursor) and WASM runtime (flat words) on generated programs.
S: the property's own predicates evaluated on the real VM/WASM answers (independent of the model).
"""
import json, os
from vplib import *
import lmmm
from lmmm import *

import importlib.util as _ilu0, sys as _sys0
if os.path.join(VERIF, "checks") not in _sys0.path:
    _sys0.path.insert(0, os.path.join(VERIF, "checks"))
def _load_part(name):
    sp = _ilu0.spec_from_file_location("part_" + name, os.path.join(VERIF, "checks", name + ".py"))
    m = _ilu0.module_from_spec(sp); sp.loader.exec_module(m)
    return m
mir_part = _load_part("mir_part")
OCAML = lmmm.OCAML + mir_part.OCAML
HARNESS = lmmm.HARNESS + mir_part.HARNESS


def run(ck):
    ck.level = "proof"
    proved = ck.prove(tables=["statetree_consts"], extra_targets=[lmmm.EXTRACT_TARGET])
    mexe, iexe = build_sides(ck)
    if iexe is None:
        ck.violation("harness does not build against /repo", {"broken": ck.broken}, no_input=True)
        return finish(ck)
    quick = ck.tier == "quick"
    n_cases, n_samples = (320, 12) if quick else (4000, 40)
    cases = load_corpus("lmmm") + gen_cases(ck, n_cases, n_samples, tag="C05")
    mres = run_model(mexe, cases) if mexe else [None] * len(cases)
    ires = run_impl(iexe, impl_requests(cases))
    findings = {f["id"]: f for f in known_findings("C05")}

    stats = {}
    def bump(k, n=1): stats[k] = stats.get(k, 0) + n
    viol = []      # (what, case index, detail)
    disag = []     # model vs implementation
    feats = {}
    seen_sk = set()
    for idx, ((p, rows), m, r) in enumerate(zip(cases, mres, ires)):
        cls = classes_of(p)
        for k, v in features(p).items():
            feats[k] = feats.get(k, 0) + v
        src = pp_prog(p)
        if 'crash' in r:
            if "F3" in cls and "F3" in findings:
                bump("crash_in_F3_class"); ck.known(findings["F3"], src.replace("\n", " ")[:160]); continue
            viol.append(("harness process died (memory corruption / abort) while running an accepted program", idx, {"rc": str(r['crash'])}))
            continue
        vm, ws = r.get('vm'), r.get('wasm')
        # ---------------- direct predicates on the implementation ----------------
        bad = []
        if ws is None or 'samples' not in ws:
            bump("wasm_rejected"); continue
        if vm is not None:
            if 'samples' not in vm:
                bump("vm_rejected")
                bad.append(("vm-rejects-wasm-accepts", vm))
            else:
                if vm['skel'] != ws['skel']:
                    bad.append(("skeleton differs between backends", [vm['skel'], ws['skel']]))
                _, total = skel_leaves(vm['skel'])
                for t, s in enumerate(vm['samples']):
                    if 'panic' in s:
                        bad.append(("vm panic at sample %d" % t, s['panic'])); break
                    off = events_hit_cells(vm['skel'], s['trace'])
                    if off:
                        bad.append(("state access outside / not at a cell of the published layout (sample %d)" % t, off[:4])); break
                    if s['pos'] != 0:
                        bad.append(("state cursor not back at the origin after dsp (sample %d)" % t, s['pos'])); break
                    if len(s['words']) != total:
                        bad.append(("storage size differs from layout size", [len(s['words']), total])); break
                    w = ws['samples'][t] if t < len(ws['samples']) else None
                    if w is None or 'panic' in w:
                        bad.append(("wasm panic", w)); break
                    # the WASM host grows its storage on demand: cells never touched so far are absent (= zero)
                    ww = w['words'] + [0] * max(0, total - len(w['words']))
                    if ww[:total] != s['words'] or any(x != 0 for x in ww[total:]):
                        bad.append(("flat state words differ between VM and WASM (sample %d)" % t, [s['words'], ww])); break
                bump("traces_checked_on_impl")
                if vm['skel'] not in seen_sk and vm['skel'] != "[]":
                    seen_sk.add(vm['skel'])
        if bad:
            hit = [c for c in ("F3",) if c in cls and c in findings]
            if hit:
                bump("failures_in_known_class_" + hit[0]); ck.known(findings[hit[0]], src.replace("\n", " ")[:160] + " -> " + str(bad[0][0]))
            else:
                viol.append((bad[0][0], idx, {"detail": bad[0][1]}))
            continue
        # ---------------- model vs implementation ----------------
        if m is None or m.get('big') or vm is None or "F3" in cls:
            continue
        if not m.get('compiled'):
            disag.append(("model does not compile an accepted program", idx)); continue
        if not m['wf']:
            disag.append(("wf_prog rejects a generated program", idx)); continue
        if m['skel'] != vm['skel']:
            disag.append(("published skeleton: model %s impl %s" % (m['skel'], vm['skel']), idx)); continue
        ok = True
        for t, (ms, s) in enumerate(zip(m['vm'], vm['samples'])):
            if ms is None:
                disag.append(("model faults at sample %d, implementation does not" % t, idx)); ok = False; break
            if [e[:3] for e in s['trace']] != ms['trace']:
                disag.append(("access trace differs at sample %d" % t, idx)); ok = False; break
            if s['pos'] != ms['pos']:
                disag.append(("cursor differs", idx)); ok = False; break
            dw = decode_words(s['words'], vm['skel'])
            if dw is not None and dw != ms['words']:
                disag.append(("flat words differ at sample %d: model %s impl %s" % (t, ms['words'], dw), idx)); ok = False; break
        if ok:
            bump("model_agrees")

    # ---------------- programs outside the modelled fragment: `match` with stateful arms (predicates on the implementation only) ----
    mviol = []
    for src, r in match_stream(ck, iexe, 150 if quick else 2000, 8 if quick else 24, "C05"):
        if 'crash' in r:
            mviol.append(("harness process died (memory corruption / abort) while running an accepted program with `match`", src, {"rc": str(r['crash'])})); continue
        if r.get("typecheck") != "ok":
            bump("match_stream_rejected"); continue
        bad = impl_layout_predicates(r.get('vm'), r.get('wasm'))
        if bad:
            mviol.append((bad[0][0] + " (program with `match`, outside the Coq fragment)", src, {"detail": bad[0][1]}))
        else:
            bump("match_stream_traces_checked_on_impl")
            if r.get('vm') and r['vm'].get('skel') not in seen_sk and r['vm'].get('skel') != "[]":
                seen_sk.add(r['vm']['skel'])
    # ---------------- programs outside the fragment: WIDE self (tuple / record / sum-typed feedback value), first order --------
    for case, r in wide_stream(ck, iexe, 200 if quick else 2500, 10 if quick else 24, "C05"):
        src = case["src"]
        if 'crash' in r:
            mviol.append(("harness process died (memory corruption / abort) while running an accepted program with a wide self", src, {"rc": str(r['crash'])})); continue
        if r.get("typecheck") != "ok":
            bump("wide_stream_rejected"); continue
        bad = impl_layout_predicates(r.get('vm'), r.get('wasm'))
        if bad:
            mviol.append((bad[0][0] + " (program with a tuple/record/sum-typed self, outside the Coq fragment)", src, {"detail": bad[0][1]}))
        else:
            bump("wide_stream_traces_checked_on_impl")
            for sh in case["shapes"]:
                bump("wide_self_" + sh)
            if r.get('vm') and r['vm'].get('skel') not in seen_sk and r['vm'].get('skel') != "[]":
                seen_sk.add(r['vm']['skel'])
    # ---------------- MIR part: verified static checker of the state layer on the real compiler's MIR (checks/mir_part.py) --------
    mir_viol = mir_part.run_part(ck, quick)
    for what, obj in mir_viol[:6]:
        ck.violation(what, {k: v for k, v in obj.items() if k != "no_input"}, no_input=bool(obj.get("no_input")))
    mviol = mviol + [(w, None, {}) for w, _ in mir_viol]
    for what, src, det in [m_ for m_ in mviol if m_[1] is not None][:3]:
        ck.violation(what, {"source": src, **det, "how": "echo '{\"src\":<source>,\"n\":N,\"state\":true}' | .cache/target/lang/debug/lmmm_run"})
    viol = viol + [(w, None, d) for w, _, d in mviol]      # keeps the no-failing-input branches below quiet
    ck.coverage["evaluations"] = len(cases)
    ck.coverage["distinct_nontrivial"] = len(seen_sk)
    ck.coverage["samples_per_program"] = n_samples
    ck.coverage["stats"] = stats
    ck.coverage["feature_totals"] = feats
    ck.coverage["model_vs_impl_disagreements"] = len(disag)
    for i in (0, len(cases) // 2, len(cases) - 1):
        p, rows = cases[i]
        ck.sample({"source": pp_prog(p), "classes": sorted(classes_of(p)),
                   "skeleton": (ires[i].get('wasm') or {}).get('skel') if 'crash' not in ires[i] else None})
    for what, idx, det in [v for v in viol if v[1] is not None][:5]:
        p, rows = cases[idx]
        ck.violation(what, {"source": pp_prog(p), "n_samples": len(rows), "inputs": rows if p['inputs'] else None, **det,
                            "how": "echo '{\"src\":<source>,\"n\":N}' | .cache/target/lang/debug/lmmm_run   (built with --cfg mimium_verif)"})
    if disag and not viol:
        what, idx = disag[0]
        p, rows = cases[idx]
        ck.broken.append("correspondence Lmmm.{Compile,Machine} vs mirgen/vm: " + what)
        ck.violation("model and implementation disagree; no clause of the property fails on the explored inputs: " + what,
                     {"correspondence": "Lmmm.Compile.compile / Lmmm.Machine.mach_run vs mirgen.rs + vm.rs (skeleton, trace, cursor, words)",
                      "source": pp_prog(p), "disagreements": len(disag)}, no_input=True)
    if not proved and not viol and not disag:
        ck.violation("a proof obligation of Props/C05.v no longer checks", {"broken": ck.broken}, no_input=True)
    return finish(ck)


def finish(ck):
    ck.finish(
        explanation=("Coq theorems (all wf programs of the Lmmm fragment, all run lengths): every state access of the cursor machine hits "
                     "exactly a cell of the published skeleton, the cursor is home after every dsp call, storage size = layout size. The "
                     "Gallina compile/machine mirror mirgen.rs' state-offset bookkeeping and vm.rs/wasm.rs' state primitives and are tied to "
                     "the code by comparing skeleton, access trace (hook H1), cursor and flat words on generated programs; the property's "
                     "own predicates (events hit cells, cursor home, VM words = WASM words) are evaluated directly on the implementation. "
                     "Not modelled: bytecodegen register allocation, wasmgen lowering, closures' private state storages, tuple-valued self.  MIR PART "
                     "(Props/C05_mir.v, theory Mirst, checks/mir_part.py) — translation validation for WHOLE programs: the real compiler's MIR is "
                     "dumped, its state view (push/pop/getstate/returnfeed/delay/mem/calls/branches) is judged by a checker written in Gallina "
                     "whose soundness is proved (C05_mir_sound: accepted => on EVERY path of every function, through callees, no fault, every "
                     "access hits exactly one cell of the function's published skeleton with its offset, kind and size, cursor home at every "
                     "return, everything inside the storage; C05_mir_strict_separated: no two accesses of a call share a word); the MIR produced "
                     "before the repairs F2 / F27 is rejected and faults (C05_mir_old_if_refuted, _old_match_refuted).  Every run ~3200 generated "
                     "and shipped programs (closures, match, tuples, records, higher-order functions included) must be accepted and ~3000 H1 traces "
                     "of the real VM, closures' own storages included, must be paths of the dumped view."),
        trusted_base=["Coq 8.16.1 kernel", "extraction (ExtrOcamlBasic/ExtrOcamlString), OCaml driver ocaml/lmmm_drv.ml",
                      "hook H1 (vm.rs, cfg mimium_verif) records every StateStorage access", "harness/lang lmmm_run + runner.rs",
                      "python generator / pretty-printer lib/lmmm.py", "translator statetree_consts",
                      "MIR part: harness bin mir_dump.rs (Debug variant name + TypeNodeId::word_size per instruction), ocaml/mirst_drv.ml (parser, name -> instruction table), "
                      "Mirst/Follow.v as an untheoremed test device, the assumptions that SSA registers are unique within a function and that closure / indirect / external calls leave the current storage untouched (validated dynamically by the trace check)"],
        rule=("type-directed generator over the Lmmm AST (functions, self, mem, delay, if, calls, lets, dsp inputs, tuples of outputs); "
              "1 case in 8 allows stateful constructs in `if` arms (class F2); distinct_nontrivial = number of distinct non-empty published skeletons"))
