"""C06 — hot-swapping an unchanged program is inaudible.

P: Props/C06.v: C06_plan_none (identical layouts => no-op plan => plain copy), C06_swap_identity / C06_swaps_identity
   (running n samples, swapping to the same compiled program, running m more = running n+m uninterrupted, `now` continuing; any
   number of swaps) over the Lmmm machine + HotSwap model.
C/S: the property itself on the real runtimes: DspRuntime::try_hot_swap(VmProgram) on VmDspRuntime and
   try_hot_swap(WasmModule{prepared engine, prewarmed state, patch plan}) on WasmDspRuntime, with a FRESH compilation of the same
   source, at split points n in {0,1,2,3,5,8,...} (incl. inside a delay line's first wrap), k consecutive swaps.
"""
import json, os, re
from vplib import *
import lmmm
from lmmm import *

OCAML = lmmm.OCAML
HARNESS = lmmm.HARNESS


def global_reads_samplerate(src):
    """class predicate of finding GS: `samplerate` occurs in a top-level statement (outside every function body), i.e. the global
    initialiser reads it"""
    out, depth, i = [], 0, 0
    txt = re.sub(r"//[^\n]*", "", src)
    # drop the bodies of `fn name(..){ .. }` definitions
    res = ""
    k = 0
    for m in re.finditer(r"\bfn\s+\w+\s*\([^)]*\)[^{]*\{", txt):
        if m.start() < k:
            continue
        res += txt[k:m.start()]
        d, j = 1, m.end()
        while j < len(txt) and d:
            d += {"{": 1, "}": -1}.get(txt[j], 0); j += 1
        k = j
    res += txt[k:]
    return "samplerate" in res


def gen_special_sources(rng, n):
    """programs whose self / mem / delay cells come to hold Inf, -Inf, NaN, -0.0, huge or subnormal values after a few samples"""
    big = ["1000000.0 * 1000000.0 * 1000000.0 * 1000000.0 * 1000000.0", "1000000.0 * 1000000.0 * 1000000.0 * 1000000.0 * 1000000.0 * 1000000.0 * 1000000.0 * 1000000.0 * 1000000.0 * 1000000.0"]
    out = []
    for _ in range(n):
        B = rng.choice(big)
        k0 = rng.range(0, 6)
        funs = {
            "blow": "fn blow(){ self * (%s) + 1.0 }" % B,                          # 1, 1e30.., +Inf after a few samples
            "sink": "fn sink(){ self * (%s) - 1.0 }" % B,                          # -Inf
            "nan0": "fn nan0(){ let z = self - self\n  if (now > %d.0) { z / z + self } else { self + 1.0 } }" % k0,      # NaN from sample k0+1 on
            "infdiff": "fn infdiff(){ let a = blow()\n  a - a + self }",            # Inf - Inf = NaN once blow overflows
            "negz": "fn negz(){ (0.0 - self) * 0.0 - 0.0 * (now + 1.0) }",          # signed zeros
            "tiny": "fn tiny(){ (self + 1.0) / (%s) / (%s) }" % (B, B),             # underflows to subnormal / 0
            "gate": "fn gate(){ if (now > %d.0) { self * (%s) + 2.0 } else { self + 0.0 } }" % (k0, B),
        }
        names = list(funs)
        for i in range(len(names) - 1, 0, -1):
            j = rng.below(i + 1); names[i], names[j] = names[j], names[i]
        pick = names[:rng.range(1, 3)]
        need = set(pick) | ({"blow"} if "infdiff" in pick else set())
        exprs = []
        for nm in pick:
            w = rng.below(4)
            call = nm + "()"
            if w == 1: call = "mem(%s)" % call
            elif w == 2: call = "delay(%d.0, %s, %d.0)" % (rng.range(2, 4), call, 1)
            elif w == 3: call = "(if (now > %d.0) { %s } else { mem(now) })" % (rng.range(0, 9), call)
            exprs.append(call)
        body = exprs[0] if len(exprs) == 1 else "(" + ", ".join(exprs) + ")"
        order = [n_ for n_ in ["blow", "sink", "nan0", "infdiff", "negz", "tiny", "gate"] if n_ in need]
        out.append("\n".join(funs[n_] for n_ in order) + "\nfn dsp(){\n  %s\n}\n" % body)
    return out


def run(ck):
    ck.level = "proof"
    proved = ck.prove(tables=["statetree_consts"], extra_targets=[lmmm.EXTRACT_TARGET])
    mexe, iexe = build_sides(ck)
    if iexe is None:
        ck.violation("harness does not build", {"broken": ck.broken}, no_input=True)
        return finish(ck)
    quick = ck.tier == "quick"
    n_cases, n_samples = (260, 20) if quick else (2500, 48)
    findings = {f["id"]: f for f in known_findings("C06")}
    cases = load_corpus("lmmm") + gen_cases(ck, n_cases, n_samples, tag="C06")
    reqs, meta = [], []
    rng = ck.rng.fork("splits")
    for ci, (p, rows) in enumerate(cases):
        cls = classes_of(p)
        src = pp_prog(p)
        base = {"src": src, "n": len(rows), "state": False}
        if p['inputs']:
            base["inputs"] = [[float(v) for v in r] for r in rows]
        if "F3" in cls:
            base["backends"] = ["wasm"]
        reqs.append(dict(base)); meta.append((ci, None))
        kmax = 3 if quick else 8
        for variant in range(2 if quick else 4):
            k = rng.range(1, kmax)
            pts = sorted(rng.choice([0, 1, 2, 3, 5, 8, 13, len(rows) - 1]) for _ in range(k))
            pts = [min(t, len(rows) - 1) for t in pts]
            r = dict(base)
            r["swaps"] = [{"at": t, "src": src} for t in pts]
            reqs.append(r); meta.append((ci, pts))
    # ---- state cells holding NON-FINITE or otherwise special values at the split point (Inf, -Inf, NaN, -0.0, huge, subnormal):
    # the copy of the state must be faithful whatever the words contain (response to seeded change C06b) ----
    special = gen_special_sources(ck.rng.fork("special"), 40 if quick else 400)
    # ---- programs that read `samplerate` (in dsp, and in the global initialiser) on a device whose rate is NOT the runtimes' default:
    # the swapped-in program must keep running at the device's rate (response to seeded change C06d) ----
    special_sr = {}
    srng = ck.rng.fork("samplerate")
    for _ in range(24 if quick else 240):
        f = srng.choice([441, 100, 1000, 3])
        shape = srng.below(4)
        if shape == 0:
            src = "fn phasor(freq){\n  (self + freq / samplerate) %% 1.0\n}\nfn dsp(){\n  phasor(%d.0)\n}\n" % f
        elif shape == 1:
            src = "fn dsp(){\n  let inc = %d.0 / samplerate\n  (self + inc, samplerate)\n}\n" % f
        elif shape == 2:
            src = "let step = %d.0 / samplerate\nfn acc(){\n  self + step\n}\nfn dsp(){\n  (acc(), step * 1000000.0)\n}\n" % f
        else:
            src = "fn lp(x){\n  let a = 1.0 / (1.0 + samplerate / %d.0)\n  self + a * (x - self)\n}\nfn dsp(){\n  lp(1.0) + mem(samplerate)\n}\n" % f
        special_sr[len(special)] = srng.choice([44100, 96000, 22050, 48000, 44100])
        special.append(src)
    for si, src in enumerate(special):
        base = {"src": src, "n": 20, "state": False}
        if si in special_sr:
            base["sr"] = special_sr[si]
        reqs.append(dict(base)); meta.append((("special", si), None))
        for variant in range(2):
            k = rng.range(1, 3)
            pts = sorted(rng.choice([0, 1, 2, 3, 5, 8, 13, 16, 19]) for _ in range(k))
            r = dict(base)
            r["swaps"] = [{"at": t, "src": src} for t in pts]
            reqs.append(r); meta.append((("special", si), pts))
    res = run_impl(iexe, reqs)
    stats = {}
    def bump(k, n=1): stats[k] = stats.get(k, 0) + n
    viol = []
    base_of = {}
    distinct = set()
    for (ci, pts), rq, r in zip(meta, reqs, res):
        if pts is None:
            base_of[ci] = r
    for (ci, pts), rq, r in zip(meta, reqs, res):
        if pts is None:
            continue
        b0 = base_of.get(ci)
        p, rows = (None, [None] * 20) if isinstance(ci, tuple) else cases[ci]
        if 'crash' in r or b0 is None or 'crash' in b0:
            viol.append(("harness process died during a hot-swap run", ci, pts, {"rc": str(r.get('crash'))})); continue
        for be in ("vm", "wasm"):
            if be not in r or be not in b0:
                continue
            x, y = b0[be], r[be]
            if 'samples' not in x:
                bump(be + "_rejected"); continue
            bad = None
            if 'samples' not in y:
                bad = "swapped run did not compile although the plain run did"
            else:
                for sw in y.get('swaps', []):
                    if not sw.get('ok'):
                        bad = "hot swap to the same source failed or panicked: %s" % json.dumps(sw)[:200]; break
                if bad is None:
                    ox = [s.get('out', s.get('panic')) for s in x['samples']]
                    oy = [s.get('out', s.get('panic')) for s in y['samples']]
                    if ox != oy:
                        t = next(i for i in range(max(len(ox), len(oy))) if i >= len(ox) or i >= len(oy) or ox[i] != oy[i])
                        bad = "sample %d after swaps at %s: uninterrupted %s, swapped %s" % (t, pts, ox[t] if t < len(ox) else None, oy[t] if t < len(oy) else None)
            if bad and be == "vm" and isinstance(ci, tuple) and ci[1] in special_sr and special_sr[ci[1]] != 48000 \
                    and global_reads_samplerate(special[ci[1]]) and "GS" in findings:
                bump("vm_global_initialiser_before_device_rate_GS")
                ck.known(findings["GS"], "device rate %d: %s" % (special_sr[ci[1]], special[ci[1]].replace("\n", " ")[:100]))
            elif bad:
                viol.append(("%s: %s" % (be, bad), ci, pts, {}))
            else:
                bump(be + "_swaps_inaudible")
                if x.get('skel') not in (None, "[]"):
                    distinct.add((special[ci[1]] if isinstance(ci, tuple) else pp_prog(p), tuple(pts)))
                if isinstance(ci, tuple):
                    bump(be + "_special_value_state_inaudible")
    ck.coverage["evaluations"] = len(reqs)
    ck.coverage["distinct_nontrivial"] = len(distinct)
    ck.coverage["programs"] = len(cases)
    ck.coverage["stats"] = stats
    for i in (1, len(reqs) // 2, len(reqs) - 1):
        ck.sample({"source": reqs[i]["src"], "swap_points": meta[i][1], "n": reqs[i]["n"]})
    for what, ci, pts, det in viol[:5]:
        if isinstance(ci, tuple):
            ck.violation(what + (" (program reading samplerate on a device running at %d Hz)" % special_sr[ci[1]] if ci[1] in special_sr else " (state cells holding non-finite / special values)"), {"source": special[ci[1]], "swap_at_samples": pts, "n_samples": 20, **({"device_sample_rate": special_sr[ci[1]]} if ci[1] in special_sr else {}), **det,
                                "how": "lmmm_run request with \"swaps\":[{\"at\":t,\"src\":<same source>}]"})
            continue
        p, rows = cases[ci]
        ck.violation(what, {"source": pp_prog(p), "swap_at_samples": pts, "n_samples": len(rows), "inputs": rows if p['inputs'] else None, **det,
                            "how": "lmmm_run request with \"swaps\":[{\"at\":t,\"src\":<same source>}]"})
    if not proved and not viol:
        ck.violation("a proof obligation of Props/C06.v no longer checks", {"broken": ck.broken}, no_input=True)
    return finish(ck)


def finish(ck):
    ck.finish(
        explanation=("Coq: for every wf Lmmm program the output stream from sample n on is a function of (program, flat state words, now, inputs); "
                     "identical skeletons give the no-op plan, hence a swap to the same program (k times, at any split points) leaves the stream "
                     "unchanged. The real hot-swap paths (VM new_resume, WASM try_hot_swap with a prewarmed engine and the patch plan built as the "
                     "CLI does) are exercised directly: uninterrupted vs swapped runs must be bit-identical on both runtimes. Not covered: "
                     "programs assigning globals in dsp or calling closures created by main that own state (outside the property's hypothesis), "
                     "the CLI's own payload preparation code (replicated in harness/lang/src/runner.rs)."),
        trusted_base=["Coq 8.16.1 kernel", "harness/lang runner.rs replicates mimium-cli prepare_hot_swap_wasm_payload", "lib/lmmm.py generator"],
        rule="generated stateful Lmmm programs x random split points (0,1,2,3,5,8,13,last) x k consecutive swaps; distinct_nontrivial = distinct (stateful program, split points) pairs that stayed inaudible")
