"""C20 — values and types survive the plugin FFI encoding.

P: theorems of coq/theories/Props/C20.v over FfiCodec/Model.v (unbounded depth/width, all well-formed UTF-8, all u64 bit patterns),
   re-checked against Tables/FfiTables.v which translators/ffi_tables.py regenerates from the Rust source on every run.
C: extracted model (ocaml/codec_drv.ml) vs the real codec (harness/lang/src/bin/codec.rs): BYTES of serialize_value /
   serialize_macro_args / bincode::serialize::<FfiValue|Value|Type|TypeNodeId> and the decoded values, on generated terms and on
   truncated / bit-flipped / extended byte strings (both reject or both accept with the same result; the real decoder must not panic).
S: the property itself evaluated on the implementation's answers: decoded == encoded for everything representable,
   Err for everything that cannot cross, independent of the model.
"""
import json, os, subprocess, sys
from vplib import *

import sys as _sys
_sys.setrecursionlimit(100000)      # deep generated values (cons-lists of hundreds of elements) are printed and compared recursively

PID = "C20"
REFUSED = {"l": "Closure", "f": "Fixpoint", "x": "ExternalFn", "m": "Store", "k": "ConstructorFn"}

# ---------------------------------------------------------------- terms
# python view of a value: ('u',) ('n',bits) ('s',bytes) ('a',[v]) ('t',[v]) ('r',[(bytes,v)]) ('c',key) ('e',key)
# ('g',tag,v) ('l',key,[sym]) ('f',sym,key) ('x',sym) ('m',v) ('k',tag,sym,key); key = (idx,ver); sym = bytes | int (id mode)


def show_sym(s):
    return s.hex() if isinstance(s, (bytes, bytearray)) else str(s)


def show_key(k):
    return f"{k[0]}.{k[1]}"


def show(v):
    h = v[0]
    if h == 'u':
        return "u"
    if h == 'n':
        return "n%016x" % v[1]
    if h == 's':
        return "s[" + show_sym(v[1]) + "]"
    if h in 'at':
        return h + "(" + ",".join(show(x) for x in v[1]) + ")"
    if h == 'r':
        return "r(" + ",".join(show_sym(k) + "=" + show(x) for k, x in v[1]) + ")"
    if h in 'ce':
        return h + "[" + show_key(v[1]) + "]"
    if h == 'g':
        return "g[%d](%s)" % (v[1], show(v[2]))
    if h == 'l':
        return "l[" + show_key(v[1]) + "](" + ",".join(show_sym(s) for s in v[2]) + ")"
    if h == 'f':
        return "f[" + show_sym(v[1]) + ";" + show_key(v[2]) + "]"
    if h == 'x':
        return "x[" + show_sym(v[1]) + "]"
    if h == 'm':
        return "m(" + show(v[1]) + ")"
    if h == 'k':
        return "k[%d;%s;%s]" % (v[1], show_sym(v[2]), show_key(v[3]))
    raise ValueError(h)


def show_ffi(v):  # ffi terms: ErrorV is the bare letter e
    h = v[0]
    if h == 'e':
        return "e"
    if h in 'at':
        return h + "(" + ",".join(show_ffi(x) for x in v[1]) + ")"
    if h == 'r':
        return "r(" + ",".join(show_sym(k) + "=" + show_ffi(x) for k, x in v[1]) + ")"
    if h == 'g':
        return "g[%d](%s)" % (v[1], show_ffi(v[2]))
    return show(v)


def kids(v):
    h = v[0]
    if h in 'at':
        return v[1]
    if h == 'r':
        return [x for _, x in v[1]]
    if h == 'g':
        return [v[2]]
    return []


def first_refused(v):
    """the variant to_ffi_value answers with Err first (traversal order), or None — property-side oracle"""
    if v[0] in REFUSED:
        return REFUSED[v[0]]
    for c in kids(v):
        r = first_refused(c)
        if r:
            return r
    return None


def has_errorv(v):
    """class predicate of finding F10: an ErrorV on the part of the value that is traversed by the conversion"""
    return v[0] == 'e' or any(has_errorv(c) for c in kids(v))


def errorv_to_unit(v):
    h = v[0]
    if h == 'e':
        return ('u',)
    if h in 'at':
        return (h, [errorv_to_unit(x) for x in v[1]])
    if h == 'r':
        return ('r', [(k, errorv_to_unit(x)) for k, x in v[1]])
    if h == 'g':
        return ('g', v[1], errorv_to_unit(v[2]))
    return v


def x_refused(v):
    """hand-written Serialize for Value refuses Closure / ExternalFn / Store (anywhere it traverses)"""
    return v[0] in "lxm" or any(x_refused(c) for c in kids(v))


def depth(v):
    return 1 + max([depth(c) for c in kids(v)] + ([depth(v[1])] if v[0] == 'm' else []) + [0])


def nodes(v):
    return 1 + sum(nodes(c) for c in kids(v))


# ---------------------------------------------------------------- generators
SPECIAL_BITS = [0, 0x8000000000000000, 0x7ff0000000000000, 0xfff0000000000000, 0x7ff8000000000000, 0x7ff0000000000001,
                0x7ff4000000000123, 0xfff8000000000000, 0xffffffffffffffff, 0x7fffffffffffffff, 1, 0x000fffffffffffff,
                0x0010000000000000, 0x7fefffffffffffff, 0x3ff0000000000000, 0xbff0000000000000, 0x4045400000000000,
                0x3fb999999999999a, 0x00000000ffffffff, 0xffffffff00000000]
CODEPOINTS = [0x00, 0x41, 0x7f, 0x80, 0xe9, 0x7ff, 0x800, 0x3042, 0xd7ff, 0xe000, 0xfffd, 0xffff, 0x10000, 0x1f3b5, 0x10ffff]
TAGS = [0, 1, 2, 255, 256, 2**32 - 1, 2**32, 2**63, 2**64 - 1]


def gen_text(rng):
    r = rng.below(12)
    if r == 0:
        return b""
    if r == 1:
        return "".join(chr(rng.range(0x61, 0x7a)) for _ in range(rng.range(1, 8))).encode()
    if r == 2:
        return chr(rng.choice(CODEPOINTS)).encode("utf-8")
    if r == 3:
        return "".join(chr(rng.range(0x20, 0x7e)) for _ in range(rng.range(100, 400))).encode()
    n = rng.range(1, 6)
    out = []
    for _ in range(n):
        q = rng.below(6)
        if q == 0:
            cp = rng.choice(CODEPOINTS)
        elif q == 1:
            cp = rng.range(0, 0x7f)
        elif q == 2:
            cp = rng.range(0x80, 0x7ff)
        elif q == 3:
            cp = rng.choice([rng.range(0x800, 0xd7ff), rng.range(0xe000, 0xffff)])
        elif q == 4:
            cp = rng.range(0x10000, 0x10ffff)
        else:
            cp = rng.range(0x61, 0x7a)
        out.append(chr(cp))
    return "".join(out).encode("utf-8")


def gen_bits(rng):
    r = rng.below(4)
    if r == 0:
        return rng.choice(SPECIAL_BITS)
    if r == 1:  # NaN with random payload and sign
        return (rng.below(2) << 63) | (0x7ff << 52) | rng.range(1, (1 << 52) - 1)
    if r == 2:  # small integer-valued doubles and the like
        import struct
        x = rng.choice([1.0, -1.0, 0.5, 440.0, 48000.0, 1e-300, 1e300, 3.141592653589793]) * rng.choice([1, 2, 3, -7])
        return struct.unpack("<Q", struct.pack("<d", x))[0]
    return rng.next()


def gen_key(rng, pool):
    r = rng.below(8)
    if r < 4 and pool:
        return rng.choice(pool)
    if r == 4:
        return rng.choice([(1, 1), (0, 1), (2**32 - 1, 1), (2**32 - 2, 2**32 - 1), (255, 257), (65536, 3)])
    return (rng.below(2**32 - 1), rng.below(2**31) * 2 + 1)


def gen_tag(rng):
    return rng.choice(TAGS) if rng.chance(1, 2) else (rng.below(16) if rng.chance(1, 2) else rng.next())


def gen_sym(rng, ids):
    if ids:
        return rng.choice([0, 1, 7, 2**32, 2**64 - 1, rng.below(1000), rng.next()])
    return gen_text(rng)


def gen_value(rng, d, pools, ids=False, p_refused=0, p_errorv=0, width=4, budget=None):
    """random Value of nesting depth <= d; p_* are per-node percentages for injecting non-crossing variants"""
    if budget is None:
        budget = [160]
    budget[0] -= 1
    epool, tpool = pools
    if p_refused and rng.below(100) < p_refused:
        r = rng.below(5)
        if r == 0:
            return ('l', gen_key(rng, epool), [gen_sym(rng, ids) for _ in range(rng.below(3))])
        if r == 1:
            return ('f', gen_sym(rng, ids), gen_key(rng, epool))
        if r == 2:
            return ('x', gen_sym(rng, ids))
        if r == 3:
            return ('m', gen_value(rng, min(d - 1, 2), pools, ids, p_refused, p_errorv, width, budget) if d > 1 else ('u',))
        return ('k', gen_tag(rng), gen_sym(rng, ids), gen_key(rng, tpool))
    if p_errorv and rng.below(100) < p_errorv:
        return ('e', gen_key(rng, epool))
    leaf = d <= 1 or budget[0] <= 0 or rng.chance(1, 4)
    if leaf:
        r = rng.below(5)
        if r == 0:
            return ('u',)
        if r == 1:
            return ('n', gen_bits(rng))
        if r == 2:
            return ('s', gen_sym(rng, ids))
        if r == 3:
            return ('c', gen_key(rng, epool))
        return rng.choice([('a', []), ('t', []), ('r', [])])
    r = rng.below(5)
    # a chain keeps the depth, a wide node keeps the width
    n = rng.choice([0, 1, 1, 2, 3, width, width * 2]) if r != 3 else 1
    sub = lambda: gen_value(rng, d - 1, pools, ids, p_refused, p_errorv, width, budget)
    if r == 0:
        return ('a', [sub() for _ in range(n)])
    if r == 1:
        return ('t', [sub() for _ in range(n)])
    if r == 2:
        return ('r', [(gen_sym(rng, ids), sub()) for _ in range(n)])
    return ('g', gen_tag(rng), sub())


def gen_deep(rng, d, pools, ids=False):
    """a value whose nesting depth is exactly d (a spine of single-child aggregates with random leaves hanging off)"""
    v = gen_value(rng, 1, pools, ids)
    for _ in range(d - 1):
        r = rng.below(4)
        side = [gen_value(rng, 1, pools, ids) for _ in range(rng.below(2))]
        if r == 0:
            v = ('a', side + [v])
        elif r == 1:
            v = ('t', [v] + side)
        elif r == 2:
            v = ('r', [(gen_sym(rng, ids), v)] + [(gen_sym(rng, ids), s) for s in side])
        else:
            v = ('g', gen_tag(rng), v)
    return v


def to_ffi_term(v):
    """crossable value -> ffi term (same shape), ErrorV -> ('e',)"""
    return v if v[0] != 'e' else ('e',)


def gen_ffi(rng, d, pools):
    v = gen_value(rng, d, pools, False, 0, 12)

    def conv(v):
        h = v[0]
        if h == 'e':
            return ('e',)
        if h in 'at':
            return (h, [conv(x) for x in v[1]])
        if h == 'r':
            return ('r', [(k, conv(x)) for k, x in v[1]])
        if h == 'g':
            return ('g', v[1], conv(v[2]))
        return v
    return conv(v)


def gen_type(rng, tpool):
    k = lambda: gen_key(rng, tpool)
    s = lambda: gen_sym(rng, True)
    ks = lambda: [k() for _ in range(rng.choice([0, 1, 2, 3, 7]))]
    r = rng.below(18)
    if r == 0:
        return "Primitive:" + rng.choice(["Unit", "Int", "Numeric", "String"])
    if r == 1:
        return "Array:" + show_key(k())
    if r == 2:
        return "Tuple:" + ",".join(show_key(x) for x in ks())
    if r in (3, 16):
        return "Record:" + ",".join(f"{s()}/{show_key(k())}/{rng.below(2)}" for _ in range(rng.choice([0, 1, 2, 5])))
    if r == 4:
        return f"Function:{show_key(k())},{show_key(k())}"
    if r == 5:
        return "Ref:" + show_key(k())
    if r == 6:
        return "Code:" + show_key(k())
    if r == 7:
        return "Union:" + ",".join(show_key(x) for x in ks())
    if r in (8, 17):
        return f"UserSum:{s()};" + ",".join(f"{s()}/" + (show_key(k()) if rng.chance(1, 2) else "-") for _ in range(rng.choice([0, 1, 2, 3, 6])))
    if r == 9:
        return "Boxed:" + show_key(k())
    if r == 10:
        return f"TypeAlias:{s()}"
    if r == 11:
        return "Any"
    if r == 12:
        return "Failure"
    if r == 13:
        return "Unknown"
    if r == 14:
        return f"Intermediate:{rng.below(50)}"
    return f"TypeScheme:{rng.below(50)}"


def mutate_bytes(rng, b, how):
    b = bytearray(b)
    if how == "trunc":
        return bytes(b[:rng.below(len(b))]) if b else b""
    if how == "flip" and b:
        i = rng.below(len(b))
        b[i] ^= 1 << rng.below(8)
        return bytes(b)
    if how == "byte" and b:
        b[rng.below(len(b))] = rng.choice([0, 1, 2, 8, 9, 13, 14, 0x7f, 0x80, 0xc0, 0xff, rng.below(256)])
        return bytes(b)
    if how == "extend":
        return bytes(b) + bytes(rng.below(256) for _ in range(rng.range(1, 9)))
    if how == "delete" and b:
        i = rng.below(len(b))
        del b[i]
        return bytes(b)
    if how == "insert":
        b.insert(rng.below(len(b) + 1), rng.below(256))
        return bytes(b)
    return bytes(b)


def gen_utf8_probe(rng):
    r = rng.below(6)
    if r == 0:
        return bytes(rng.below(256) for _ in range(rng.range(0, 6)))
    t = gen_text(rng)[:24]
    if r == 1:
        return t
    return mutate_bytes(rng, t, rng.choice(["trunc", "flip", "byte", "delete", "insert"]))


# ---------------------------------------------------------------- running both sides
def run_exe(exe, text, args=()):
    p = subprocess.run([exe] + list(args), input=text, stdout=subprocess.PIPE, stderr=subprocess.DEVNULL, text=True, timeout=3000)
    return p.returncode, p.stdout.split("\n")


def split_answer(a):
    common, _, extras = a.partition("\t")
    return common, extras


def extras_ok(extras):
    return all(tok.endswith("=1") for tok in extras.split()) if extras else True


def run(ck):
    ck.level = "proof"
    proved = ck.prove(tables=["ffi_tables"], extra_targets=["theories/Extract/FfiCodecExtract.vo"])

    rc, out, exe_m = ocaml_build("codec_drv", ["ffi_model"], os.path.join(VERIF, "ocaml", "codec_drv.ml"))
    model_ok = rc == 0
    if not model_ok:
        ck.broken.append("model-build: " + out[-400:])
    rc, out, bindir = cargo_build("lang", ["codec"])
    if rc != 0:
        ck.broken.append("harness-build: " + out[-800:])
        ck.violation("harness does not build against /repo", {"cargo_output": out[-3000:]}, no_input=True)
        return finish(ck)
    exe_i = os.path.join(bindir, "codec")

    # real keys (expressions / types that exist in the session of the harness process)
    rc, pool_out = run_exe(exe_i, "", ["--pool"])
    epool = [tuple(int(x) for x in k.split(".")) for k in pool_out[0].split()[1:]]
    tpool = [tuple(int(x) for x in k.split(".")) for k in pool_out[1].split()[1:]]
    pool_types = [l[5:] for l in pool_out[2:] if l.startswith("type ")]
    pools = (epool, tpool)

    quick = ck.tier == "quick"
    D = 6 if quick else 10
    cases = []  # (line, kind, python term or None)

    def add(line, kind, term=None):
        cases.append((line, kind, term))

    # ---- replay / corpus first
    if ck.replay:
        rp = json.load(open(ck.replay))["replay"]
        if "line" in rp:
            add(rp["line"], "replay")
    corpus = os.path.join(VERIF, "corpus", PID, "cases.txt")
    n_corpus = 0
    if os.path.exists(corpus):
        for l in open(corpus):
            l = l.rstrip("\n")
            if l and not l.startswith("#"):
                add(l, "corpus")
                n_corpus += 1

    # ---- generated terms
    rng = ck.rng.fork("values")
    nV = 2500 if quick else 30000
    for i in range(nV):
        d = 1 + (i % D)
        r = i % 10
        if r < 6:
            v = gen_value(rng, d, pools, width=rng.choice([2, 4, 9]))
        elif r == 6:
            v = gen_deep(rng, d, pools)
        elif r == 7:
            v = gen_value(rng, d, pools, p_refused=rng.choice([3, 10, 30]))
        elif r == 8:
            v = gen_value(rng, d, pools, p_errorv=rng.choice([3, 10, 30]))
        else:
            v = gen_value(rng, d, pools, p_refused=8, p_errorv=8)
        add("V " + show(v), "V", v)
    # DEEP values (response to seeded change C20d: a nesting-depth limit whose two sides count differently): spines of mixed aggregates and
    # cons-lists (tagged union over a tuple: two levels per element) around and far beyond 128 levels
    drng = ck.rng.fork("deep")
    for i in range(14 if quick else 120):
        if i % 2 == 0:
            v = gen_deep(drng, drng.choice([40, 100, 126, 127, 128, 129, 130, 200, 400]), pools)
        else:
            n = drng.choice([30, 63, 64, 65, 100, 300])
            v = ('g', 1, ('u',))
            for j in range(n):
                v = ('g', 0, ('t', [gen_value(drng, 1, pools), v]))
        add("V " + show(v), "V", v)
    # each non-crossing variant alone and under each aggregate
    for leaf in [('l', (1, 1), [b"x"]), ('l', (3, 1), []), ('f', b"f", (2, 1)), ('x', b"ext"), ('m', ('u',)), ('m', ('n', 1)),
                 ('k', 1, b"Some", (1, 1)), ('e', (1, 1)), ('e', (2**32 - 1, 1))]:
        for wrap in [lambda x: x, lambda x: ('a', [('u',), x]), lambda x: ('t', [x, ('u',)]), lambda x: ('r', [(b"k", x)]),
                     lambda x: ('g', 3, x), lambda x: ('a', [('t', [('r', [(b"", ('g', 0, x))])])])]:
            add("V " + show(wrap(leaf)), "V", wrap(leaf))
    rng = ck.rng.fork("args")
    nM = 500 if quick else 6000
    for i in range(nM):
        n = rng.choice([0, 1, 1, 2, 3, 5])
        args = []
        for _ in range(n):
            r = rng.below(10)
            v = gen_value(rng, 1 + rng.below(min(D, 5)), pools, p_refused=(10 if r == 0 else 0), p_errorv=(10 if r == 1 else 0))
            args.append((v, gen_key(rng, tpool)))
        add("M " + "|".join(show(v) + ";" + show_key(k) for v, k in args), "M", args)
    rng = ck.rng.fork("ffi")
    nF = 600 if quick else 8000
    for i in range(nF):
        f = gen_ffi(rng, 1 + (i % D), pools)
        add("F " + show_ffi(f), "F", f)
    rng = ck.rng.fork("direct")
    nX = 800 if quick else 10000
    for i in range(nX):
        r = i % 4
        v = gen_value(rng, 1 + (i % D), pools, ids=True, p_refused=(12 if r == 0 else 0), p_errorv=(10 if r < 2 else 0))
        if r == 2:  # Fixpoint / ConstructorFn / ErrorV are serialisable by the hand-written impl
            v = ('t', [v, ('f', gen_sym(rng, True), gen_key(rng, epool)), ('k', gen_tag(rng), gen_sym(rng, True), gen_key(rng, tpool)),
                       ('e', gen_key(rng, epool))])
        add("X " + show(v), "X", v)
    rng = ck.rng.fork("types")
    nT = 1200 if quick else 15000
    for t in pool_types:
        add("T " + t, "T", t)
    for i in range(nT):
        t = gen_type(rng, tpool)
        add("T " + t, "T", t)
    for k in tpool + [(1, 1), (0, 1), (2**32 - 1, 1), (2**32 - 2, 2**32 - 1)]:
        add("K " + show_key(k), "K", k)
    for i in range(100 if quick else 2000):
        k = gen_key(rng, [])
        add("K " + show_key(k), "K", k)
    # ---- UTF-8 acceptance: exhaustive 1- and 2-byte strings, lead byte x second byte x fixed tail for 3/4-byte forms, random probes
    rng = ck.rng.fork("utf8")
    for a in range(256):
        add("U %02x" % a, "U")
    step2 = 1 if not quick else 1
    for a in range(0x70 if quick else 0, 256):
        for b in range(0, 256, step2):
            add("U %02x%02x" % (a, b), "U")
    for a in range(0xe0, 0xf8):
        for b in range(0x70, 0xd0):
            add("U %02x%02x80" % (a, b), "U")
            add("U %02x%02x8080" % (a, b), "U")
    for i in range(2000 if quick else 40000):
        add("U " + gen_utf8_probe(rng).hex(), "U")

    text1 = "\n".join(c[0] for c in cases) + "\n"
    rc_i, out_i = run_exe(exe_i, text1)
    if rc_i != 0 or len(out_i) < len(cases):
        ck.violation("implementation harness crashed on the encode phase",
                     {"rc": rc_i, "answered": len(out_i), "cases": len(cases),
                      "next_line": cases[max(0, len(out_i) - 1)][0][:2000] if cases else None}, no_input=True)
        return finish(ck)

    # ---- phase 2: decoders on damaged byte strings derived from the implementation's own encodings
    rng = ck.rng.fork("streams")
    DEC = {"V": "DV", "M": "DM", "F": "DF", "X": "DX", "T": "DT", "K": "DK"}
    streams = []
    per_kind = {}
    budget = {"V": 2500, "M": 900, "F": 900, "X": 1200, "T": 1500, "K": 300} if quick else \
             {"V": 40000, "M": 12000, "F": 12000, "X": 16000, "T": 20000, "K": 3000}
    enc = []
    for (line, kind, term), ans in zip(cases, out_i):
        common, _ = split_answer(ans)
        k = line.split(" ", 1)[0]
        if k in DEC and common.startswith("OK "):
            enc.append((DEC[k], bytes.fromhex(common.split(" ")[1])))
    for dk, b in enc:
        if per_kind.get(dk, 0) >= budget[dk[1]]:
            continue
        muts = []
        if len(b) <= 24:
            muts += [b[:i] for i in range(len(b))]  # every proper prefix
        else:
            muts += [mutate_bytes(rng, b, "trunc") for _ in range(2)]
        muts += [mutate_bytes(rng, b, h) for h in ("flip", "flip", "byte", "extend", "delete", "insert")]
        muts.append(b)
        for m in muts[: (12 if quick else 40)]:
            if len(m) > 6000:
                continue
            streams.append((dk + " " + m.hex(), "D"))
            per_kind[dk] = per_kind.get(dk, 0) + 1
    # hand-made hostile headers: huge lengths, bad tags, bad bool/option bytes, invalid UTF-8 inside a string
    hostile = ["DV 04000000ffffffffffffffff", "DV 0400000000000000000000f0", "DV 03000000ffffffffffffff7f41", "DV 03000000020000000000000000c3",
               "DV 030000000200000000000000c328", "DV 030000000300000000000000eda080", "DV 030000000400000000000000f4908080",
               "DV 030000000200000000000000c3a9", "DV 09000000", "DV ffffffff", "DV 08000000020000000000000000000001" "01000000",
               "DM ffffffffffffffff", "DM 0100000000000000" "01000000" "0500000002000000", "DM 0100000000000000" "01000000" "ffffffff02000000",
               "DT 03000000010000000000000005000000000000000100000001000000" "02", "DT 03000000010000000000000005000000000000000100000001000000" "01",
               "DT 08000000050000000000000001000000000000000100000000000000" "02" "0400000001000000", "DT 0000000004000000", "DT 0000000003000000",
               "DK ffffffff00000000", "DK 0500000002000000", "DK 05000000", "DX 0b000000", "DX 07000000", "DX 0a000000"]
    for h in hostile:
        streams.append((h, "D"))
    all_cases = cases + [(l, k, None) for l, k in streams]
    text2 = "\n".join(c[0] for c in streams) + "\n"
    rc_i2, out_i2 = run_exe(exe_i, text2)
    if rc_i2 != 0 or len(out_i2) < len(streams):
        idx = max(0, len(out_i2) - 1)
        ck.violation("the real decoder crashed the harness process (abort / stack overflow) on a damaged byte string",
                     {"line": streams[idx][0] if idx < len(streams) else None, "rc": rc_i2,
                      "how": "echo '<line>' | .cache/target/lang/debug/codec"})
        return finish(ck)
    out_i = out_i[:len(cases)] + out_i2[:len(streams)]
    if model_ok:
        rc_m, out_m = run_exe(exe_m, text1 + text2)
        if rc_m != 0 or len(out_m) < len(all_cases):
            ck.broken.append("model driver crashed")
            model_ok = False
    findings = {f["cls"]: f for f in known_findings(PID)}

    # ---- verdicts per case
    prop_fail = []      # (line, what, impl answer)
    disagreements = []  # (line, model, impl)
    n_known = 0
    counts = {}
    nontrivial = 0
    for idx, (line, kind, term) in enumerate(all_cases):
        common, extras = split_answer(out_i[idx])
        cmd, _, arg = line.partition(" ")
        counts[cmd] = counts.get(cmd, 0) + 1
        if model_ok and out_m[idx] != common:
            disagreements.append((line, out_m[idx], common))
        bad = None
        if "PANIC" in common or common.startswith("HARNESS-PANIC") or common.startswith("BADCMD"):
            bad = "the real decoder panicked" if "PANIC" in common else "harness error"
        elif term is not None:
            if cmd == "V":
                ref = first_refused(term)
                if ref:
                    # (if the value also holds an ErrorV, any refusal is accepted: refusing ErrorV first is allowed by the property)
                    if common != "ERR " + ref and not (has_errorv(term) and common.startswith("ERR")):
                        bad = f"a value that cannot cross the boundary ({ref}) is not refused with that error"
                elif not common.startswith("OK "):
                    # refusing an ErrorV is allowed by the property text (refused rather than silently altered)
                    if not (has_errorv(term) and common.startswith("ERR")):
                        bad = "a representable value is refused"
                else:
                    got = common.split(" | ", 1)[1]
                    if got == show(term):
                        nontrivial += 1 if nodes(term) > 1 else 0
                    elif has_errorv(term) and got == show(errorv_to_unit(term)) and "errorv-inside" in findings:
                        n_known += 1
                        ck.known(findings["errorv-inside"], f"{line[:160]} -> decoded {got[:120]}")
                    else:
                        bad = "decoded value differs from the encoded one"
            elif cmd == "M":
                ref = None
                for v, _k in term:
                    ref = ref or first_refused(v)
                if ref:
                    if common != "ERR " + ref and not (any(has_errorv(v) for v, _ in term) and common.startswith("ERR")):
                        bad = f"macro arguments containing {ref} are not refused with that error"
                elif not common.startswith("OK "):
                    if not (any(has_errorv(v) for v, _ in term) and common.startswith("ERR")):
                        bad = "representable macro arguments are refused"
                else:
                    got = common.split(" | ", 1)[1]
                    want = "|".join(show(v) + ";" + show_key(k) for v, k in term)
                    alt = "|".join(show(errorv_to_unit(v)) + ";" + show_key(k) for v, k in term)
                    if got == want:
                        nontrivial += 1 if term else 0
                    elif any(has_errorv(v) for v, _ in term) and got == alt and "errorv-inside" in findings:
                        n_known += 1
                        ck.known(findings["errorv-inside"], f"{line[:160]} -> decoded {got[:120]}")
                    else:
                        bad = "decoded macro arguments differ from the encoded ones"
            elif cmd == "F":
                if not common.startswith("OK ") or common.split(" | ", 1)[1] != show_ffi(term):
                    bad = "FfiValue does not survive bincode"
                else:
                    nontrivial += 1
            elif cmd == "X":
                if x_refused(term):
                    if common != "ERR":
                        bad = "hand-written Serialize for Value accepts a Closure/ExternalFn/Store"
                elif not common.startswith("OK ") or common.split(" | ", 1)[1] != show(term):
                    bad = "Value does not survive its hand-written serde"
                else:
                    nontrivial += 1
            elif cmd == "T":
                if term.startswith("Intermediate") or term.startswith("TypeScheme"):
                    if common != "ERR":
                        bad = "Type::Intermediate/TypeScheme is not refused"
                elif not common.startswith("OK ") or common.split(" | ", 1)[1] != term:
                    bad = "Type does not survive its hand-written serde"
                else:
                    nontrivial += 1
            elif cmd == "K":
                if not common.startswith("OK ") or common.split(" | ", 1)[1] != show_key(term):
                    bad = "TypeNodeId does not survive bincode"
        elif cmd in ("V", "M", "F", "X", "T", "K") and kind in ("corpus", "replay"):
            # corpus lines carry no python term: the printed input is the expected output unless it contains e[ (F10) or a refused letter
            body = arg
            if common.startswith("OK "):
                got = common.split(" | ", 1)[1]
                if got != body:
                    import re as _re
                    if cmd in ("V", "M") and "e[" in body and _re.sub(r"e\[\d+\.\d+\]", "u", body) == got and "errorv-inside" in findings:
                        n_known += 1
                        ck.known(findings["errorv-inside"], f"{line[:160]} -> decoded {got[:120]}")
                    else:
                        bad = "decoded differs from encoded (corpus/replay line)"
            elif not any(ch + "[" in body or ch + "(" in body for ch in "lfxmke") and not body.startswith(("Intermediate", "TypeScheme")):
                bad = "representable corpus/replay input refused"
        if not bad and not extras_ok(extras):
            bad = "implementation-side check failed (symbol identity / real-key equality / bincode::serialize::<FfiValue> agreement / trailing bytes): " + extras
        if bad:
            prop_fail.append((line, bad, out_i[idx]))

    ck.coverage["evaluations"] = len(all_cases)
    ck.coverage["distinct_nontrivial"] = nontrivial
    ck.coverage["cases_by_command"] = counts
    ck.coverage["max_depth"] = D
    ck.coverage["damaged_streams"] = len(streams)
    ck.coverage["corpus_cases"] = n_corpus
    ck.coverage["known_F10_cases"] = n_known
    ck.coverage["model_vs_impl_disagreements"] = len(disagreements)
    ck.coverage["exhaustive"] = False
    ck.coverage["exhaustive_bound"] = "UTF-8 acceptance: all 1-byte strings, all 2-byte strings with first byte >= 0x70 (quick) / all (thorough)"
    for i in (0, len(cases) // 3, len(cases) // 2, len(cases) + 5, len(all_cases) - 1):
        if i < len(all_cases):
            ck.sample({"input": all_cases[i][0][:300], "implementation": out_i[i][:300], "model": (out_m[i][:300] if model_ok else None)})

    for (line, bad, ans) in prop_fail[:5]:
        ck.violation("property fails on the implementation: " + bad,
                     {"line": line, "implementation_answer": ans[:4000],
                      "how": "echo '<line>' | .cache/target/lang/debug/codec   (grammar: harness/lang/src/bin/codec.rs)"})
    if disagreements and not prop_fail:
        l, m_, i_ = disagreements[0]
        ck.broken.append("correspondence FfiCodec.Model vs mimium_lang::runtime::ffi_serde / serde impls")
        ck.violation("model and implementation disagree (the property itself holds on every explored input)",
                     {"correspondence": "FfiCodec.Model.{serialize_value,deserialize_value,serialize_macro_args,deserialize_macro_args,encode,decode_ffi,venc,vdecode,encode_type,decode_type,enc_key,dec_key,utf8_valid} vs the real functions",
                      "line": l, "model": m_[:3000], "implementation": i_[:3000], "disagreements": len(disagreements)}, no_input=True)
    if not model_ok and not prop_fail:
        ck.violation("the extracted model does not build or crashed: the correspondence FfiCodec.Model vs implementation was not evaluated",
                     {"broken": ck.broken}, no_input=True)
    elif not proved and not prop_fail and not disagreements:
        ck.violation("a proof obligation of Props/C20.v (or the table translator) no longer checks", {"broken": ck.broken}, no_input=True)
    return finish(ck)


def finish(ck):
    ck.finish(
        explanation=("Props/C20.v proves in Coq, for values of unbounded depth and width, that the model's encoder/decoder pair "
                     "(to_ffi_value, bincode 1.3 fixint wire format of FfiValue, slot-map keys, UTF-8 validation, to_value) returns every "
                     "representable value unchanged and refuses exactly the values containing Closure/Fixpoint/ExternalFn/Store/ConstructorFn; the same for "
                     "Type (hand-written serde), for macro-argument vectors and for the hand-written serde of Value. Variant indices are not part of the "
                     "model text: they come from Tables/FfiTables.v, regenerated from the Rust source on every run, and C20_tables_agree re-checks writer "
                     "index vs reader order. The model is tied to /repo by comparing bytes and decoded values with the real functions on generated terms and "
                     "on damaged byte strings; the round-trip/refusal clauses are also evaluated directly on the implementation's answers."),
        trusted_base=["Coq 8.16.1 kernel (coqc, vm_compute; no native_compute)",
                      "extraction: ExtrOcamlBasic + ExtrOcamlString only; OCaml 4.13.1; ocaml/codec_drv.ml driver",
                      "translator translators/ffi_tables.py (regexes over enum declarations, serialize_*_variant calls, Field/VARIANTS lists, match-arm heads)",
                      "harness/lang/src/bin/codec.rs and the python-side oracle (first_refused / has_errorv / textual equality of canonical terms) in checks/C20.py",
                      "bincode 1.3 / serde derive / slotmap 1.0 / string-interner are modelled, not verified: the wire format is validated by byte comparison only",
                      "Symbol <-> text is taken as a bijection within one session (the harness checks Symbol ids are equal after the round trip)",
                      "ExprNodeId/TypeNodeId/Symbol ids are session-local: 'equal after decoding' means the same key/id, which denotes the same node only inside one interner session",
                      "nesting deep enough to overflow the Rust stack, values above usize, and the Environment/fn pointer/Rc sharing inside refused variants are outside the model"],
        rule=("generated Value/FfiValue/Type/argument-vector terms cycling nesting depth 1..max_depth with widths up to 8, special f64 bit patterns "
              "(NaN payloads, +-0, infinities, subnormals), boundary code points, pool (real) and fabricated keys; non-crossing variants and ErrorV injected at "
              "random positions; then every proper prefix of short encodings and random truncation / bit flip / byte replacement / deletion / insertion / extension "
              "of longer ones, plus hand-made hostile headers; a case is non-trivial when the value has more than one node and round-trips"))
