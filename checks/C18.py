"""C18 — generated Rust code behaves like the VM.

P: Props/C18.v: C18_template_prims_agree (+ per-primitive theorems): the state primitives of the Rust runtime scaffold
   (mimium_placeholder.rs.template: StateStorage::{push_pos,pop_pos,get_state,set_state,mem,delay}), transcribed into Gallina
   (RustRt/Model.v; translators/rustrt_template.py fails when the template's primitive bodies change), compute the same result,
   words and cursor as the primitives of the cursor machine Lmmm/Machine.v (the model of the VM that C02/C05 tie to the real VM).
   rustgen.rs itself is NOT modelled.
C: three-way comparison on generated core programs without plugin calls:
     Context::emit_rust -> rustc --edition=2024 -> run   vs   the real VM (lmmm_run)   vs   extracted reference semantics (Lmmm/Ref.v);
   the fixtures rust_codegen_test.rs runs are the validation corpus (run first).
S: the property's clauses evaluated directly on the implementation's answers:
   (a) every program emit_rust accepts compiles with rustc, (b) its outputs equal the VM's bit for bit at every sample,
   (c) programs that need plugin externals are refused (at emit time, or by a run-time error naming the external) - never Rust that
       fails to build, never different samples.
"""
import glob, json, os, re, shutil, struct, time
from vplib import *
import lmmm
from lmmm import *

import importlib.util as _ilu0, sys as _sys0
if os.path.join(VERIF, "checks") not in _sys0.path:
    _sys0.path.insert(0, os.path.join(VERIF, "checks"))
def _load_part(name):
    sp = _ilu0.spec_from_file_location("part_" + name, os.path.join(VERIF, "checks", name + ".py"))
    m = _ilu0.module_from_spec(sp); sp.loader.exec_module(m)
    return m
rtpl_part = _load_part("rtpl_part")
OCAML = lmmm.OCAML + rtpl_part.OCAML
HARNESS = [("lang", ["lmmm_run", "rustgen_run"], True)] + rtpl_part.HARNESS
SCRATCH = os.path.join(CACHE, "rustgen", "p%d" % os.getpid())      # private to this run: concurrent runs must not remove each other's files
FIXDIR = os.path.join(REPO, "crates/lib/mimium-test/tests/mmm")
TEMPLATE = os.path.join(REPO, "crates/lib/mimium-lang/src/compiler/mimium_placeholder.rs.template")

# ---------------------------------------------------------------------------------------------------------
# class predicates of the known findings of C18
# ---------------------------------------------------------------------------------------------------------
RAW_UNESCAPABLE = {"gen", "crate", "super", "Self"}   # `gen` is missing from rustgen's keyword list; the other three cannot be r#raw


def scaffold_methods():
    """names of the methods of `impl MimiumProgram` in the runtime scaffold + the ones rustgen always adds"""
    try:
        txt = open(TEMPLATE).read()
    except OSError:
        return set()
    i = txt.find("impl MimiumProgram<PanicHost>")
    names = set(re.findall(r"^\s*(?:pub\s+)?fn\s+(\w+)\s*[<(]", txt[i:], re.M)) if i >= 0 else set()
    return names | {"call_dsp", "call_main"}


def fn_names_of_source(src):
    """names that become MIR function labels: `fn f(`, `letrec f =`, `let f =` (a let-bound lambda is labelled by its binder)"""
    return re.findall(r"\b(?:fn|letrec|let)\s+([A-Za-z_][A-Za-z0-9_]*)\b", src)


def name_clash(src, methods=None):
    """class predicate of finding F20: a mimium function whose name is a Rust 2024 keyword that rustgen does not (or cannot) escape,
    or equals a method of the generated `impl MimiumProgram` (scaffold methods, call_dsp/call_main, dispatch_<other function>)"""
    methods = methods if methods is not None else scaffold_methods()
    names = fn_names_of_source(src)
    for n in names:
        if n in RAW_UNESCAPABLE or n in methods:
            return True
        if n.startswith("dispatch_") and n[len("dispatch_"):] in names:
            return True
    return False


# ---------------------------------------------------------------------------------------------------------
# answers -> uniform status records
# ---------------------------------------------------------------------------------------------------------
def fbits_of(v):
    return struct.pack(">d", float(v)).hex()


def rust_status(a):
    """{'st': crash|refused|emit_panic|rustc|run|ok, 'samples': [[bits]], 'msg': str}"""
    if a is None or 'crash' in a:
        return {"st": "crash", "samples": [], "msg": "rustgen_run died: %s" % (a or {}).get('crash')}
    e = a.get("emit")
    if isinstance(e, dict) and "refused" in e:
        return {"st": "refused", "samples": [], "msg": "; ".join(dict.fromkeys(e["refused"]))[:300]}
    if isinstance(e, dict):
        return {"st": "emit_panic", "samples": [], "msg": str(e.get("panic"))[:300]}
    rc = a.get("rustc") or {}
    if not rc.get("ok"):
        return {"st": "harness" if rc.get("io_error") else "rustc", "samples": [], "msg": rc.get("stderr", "")[:1200], "file": a.get("file")}
    run = a.get("run") or {}
    samples = a.get("samples") or []
    if run.get("rc") != 0 or run.get("err"):
        msg = run.get("err") or ""
        m = re.search(r"panicked at [^\n]*\n([^\n]*)", run.get("stderr") or "")
        if m:
            msg = (msg + " " + m.group(1)).strip()
        return {"st": "run", "samples": samples, "msg": ("rc=%s %s" % (run.get("rc"), msg))[:300], "file": a.get("file")}
    return {"st": "ok", "samples": samples, "msg": ""}


def backend_status(b):
    """{'st': absent|compile|compile_panic|panic|ok, 'samples': [[bits]] (prefix before a panic), 'msg'}"""
    if b is None:
        return {"st": "absent", "samples": [], "msg": ""}
    if 'samples' not in b:
        if 'compile_panic' in b:
            return {"st": "compile_panic", "samples": [], "msg": str(b['compile_panic'])[:200]}
        return {"st": "compile", "samples": [], "msg": "; ".join(dict.fromkeys(b.get('compile') or []))[:300]}
    out = []
    for s in b['samples']:
        if 'panic' in s:
            return {"st": "panic", "samples": out, "msg": str(s['panic'])[:200]}
        out.append(s['out'])
    return {"st": "ok", "samples": out, "msg": ""}


def first_diff(a, b):
    for t in range(max(len(a), len(b))):
        x = a[t] if t < len(a) else None
        y = b[t] if t < len(b) else None
        if x != y:
            return t, x, y
    return None


def show(bits):
    if bits is None:
        return "nothing"
    return "[" + ", ".join("NaN" if h == "NaN" else repr(bits_to_float(h)) for h in bits) + "]"


# ---------------------------------------------------------------------------------------------------------
# case construction
# ---------------------------------------------------------------------------------------------------------
def mk_case(kind, name, src, n, inputs=None, prog=None, path=None, plugins="none", sched=False, cls=()):
    return {"kind": kind, "name": name, "src": src, "n": n, "inputs": inputs, "prog": prog, "path": path,
            "plugins": plugins, "sched": sched, "cls": set(cls)}


def fixture_cases():
    """the shipped fixtures that rust_codegen_test.rs::run_all_annotated_fixtures_via_rust_codegen runs
    (annotated with `// @test`, not plugin-backed, not parser_combinators.mmm)"""
    out = []
    for f in sorted(glob.glob(os.path.join(FIXDIR, "*.mmm"))):
        src = open(f).read()
        meta = [l.strip() for l in src.split("\n")[:8] if l.strip().startswith("// @test ")]
        if not meta:
            continue
        try:
            spec = json.loads(meta[0][len("// @test "):])
        except ValueError:
            continue
        name = os.path.basename(f)
        if name == "parser_combinators.mmm" or spec.get("plugins"):
            continue
        c = mk_case("fixture", name, src, int(spec["times"]), path=f, sched=True)
        c["expected"] = spec.get("expected")
        c["tol"] = spec.get("tol") or 1e-12
        out.append(c)
    return out


RUST_KEYWORDS = ("as break const continue crate else enum extern false fn for if impl in let loop match mod move mut pub ref return "
                 "Self static struct super trait true type unsafe use where while async await dyn abstract become box do final macro "
                 "override priv typeof unsized virtual yield try gen union macro_rules raw safe").split()
HARMLESS_NAMES = ("foo counter Word truthy vec Vec String Some None Ok Err u64 f64 std core println main_ dsp_ state args result "
                  "program host memory closures arrays strings globals StateStorage MimiumProgram f64_to_word copy_words bb reg_1 "
                  "arg_0 call_result call_args words").split()


def name_cases(ck, quick):
    """functions named after Rust keywords / scaffold methods / harmless controls: two shapes each"""
    methods = sorted(scaffold_methods())
    pool = RUST_KEYWORDS + methods + ["dispatch_dsp", "dispatch_helper"] + HARMLESS_NAMES
    out = []
    for i, nm in enumerate(pool):
        a = "fn %s(x){\n  self + x\n}\nfn dsp(){\n  %s(2.0)\n}\n" % (nm, nm)
        b = "fn helper(y){\n  y * 2.0\n}\nfn %s(x){\n  mem(x) + helper(x)\n}\nfn dsp(){\n  %s(now)\n}\n" % (nm, nm)
        for src in ([a if i % 2 == 0 else b] if quick else [a, b]):
            out.append(mk_case("names", "fn-name:" + nm, src, 4))
    # functions whose LABELS differ only in characters that are not legal in a Rust identifier (module paths are labelled a$b): they must
    # become different methods (response to seeded change C18d)
    r = ck.rng.fork("C18-label-clash")
    words = ["filter", "osc", "lfo", "saw", "env", "onepole", "fx", "gain", "mix", "a", "b2"]
    for i in range(6 if quick else 40):
        m, f, g = r.choice(words), r.choice(words), r.choice(words)
        k = r.range(2, 9)
        shapes = [
            # module function next to a top-level wrapper named like its flattened path (different arities)
            "mod %(m)s {\n  pub fn %(f)s(x, c){\n    self * c + x\n  }\n}\nfn %(m)s_%(f)s(x){\n  %(m)s::%(f)s(x, 0.5) + %(k)d.0\n}\nfn dsp(){\n  %(m)s_%(f)s(1.0)\n}\n",
            # the same with equal arities and different bodies
            "mod %(m)s {\n  pub fn %(f)s(x){\n    mem(x) + 1.0\n  }\n}\nfn %(m)s_%(f)s(x){\n  x * %(k)d.0\n}\nfn dsp(){\n  %(m)s::%(f)s(now) * 100.0 + %(m)s_%(f)s(now)\n}\n",
            # two module paths that flatten to the same words
            "mod %(m)s {\n  pub mod %(f)s {\n    pub fn %(g)s(x){\n      self + x\n    }\n  }\n}\nmod %(m)s_%(f)s {\n  pub fn %(g)s(x){\n    x * %(k)d.0\n  }\n}\n"
            "fn dsp(){\n  %(m)s::%(f)s::%(g)s(1.0) * 1000.0 + %(m)s_%(f)s::%(g)s(now)\n}\n",
        ]
        src = shapes[i % 3] % {"m": m, "f": f, "g": g, "k": k}
        out.append(mk_case("names", "label-clash:%s_%s#%d" % (m, f, i % 3), src, 5))
    return out


PROBES = [
    ("sched", "fn tick(){ 1.0 }\nfn dsp(){\n  _mimium_schedule_at(now+1.0, tick)\n  1.0\n}\n"),
    ("sched", "let c = 0.0\nfn upd(){\n  c = c + 1.0\n  upd@(now+2.0)\n}\nupd@1.0\nfn dsp(){ c }\n"),
    ("sched", "fn dsp(){ Probe!(\"a\")(1.0) }\n"),
    ("sched", "fn dsp(){ Slider!(\"a\",0.5,0.0,1.0) }\n"),
    ("none", "fn upd(){ upd@(now+2.0) }\nfn dsp(){ 0.0 }\n"),
    ("none", "fn dsp(){ _mimium_schedule_at(1.0, | |{ 0.0 }) \n 1.0 }\n"),
]


def probe_cases():
    out = []
    for i, (pl, src) in enumerate(PROBES):
        out.append(mk_case("probe", "probe%d" % i, src, 6, plugins=pl, sched=(pl == "sched")))
    for f in sorted(glob.glob(os.path.join(FIXDIR, "*.mmm"))):
        src = open(f).read()
        name = os.path.basename(f)
        meta = [l.strip() for l in src.split("\n")[:8] if l.strip().startswith("// @test ")]
        plug = False
        if meta:
            try:
                plug = bool(json.loads(meta[0][len("// @test "):]).get("plugins"))
            except ValueError:
                pass
        if plug or name.startswith("scheduler"):
            out.append(mk_case("probe", name, src, 8, path=f, plugins="sched", sched=True))
    return out


def corpus_cases():
    out = []
    p = os.path.join(VERIF, "corpus", "C18", "cases.jsonl")
    if os.path.exists(p):
        for line in open(p):
            line = line.strip()
            if not line or line.startswith("#"):
                continue
            j = json.loads(line)
            out.append(mk_case("corpus", j["name"], j["src"], j["n"], inputs=j.get("inputs")))
            if j.get("input_bits"):
                out[-1]["input_bits"] = j["input_bits"]
    return out


def lmmm_cases(ck, n_cases, n_samples):
    out = []
    for i, (p, rows) in enumerate(load_corpus("lmmm") + gen_cases(ck, n_cases, n_samples, tag="C18")):
        c = mk_case("gen", "gen%d" % i, pp_prog(p), len(rows), inputs=[[float(v) for v in r] for r in rows] if p['inputs'] else None,
                    prog=p, cls=classes_of(p))
        c["rows"] = rows
        out.append(c)
    return out


# ---------------------------------------------------------------------------------------------------------
# second generator ("xgen"): typed random programs over the part of the core language the Lmmm model does not cover
# (closures with captured/assigned variables, makers, higher-order functions, tuples and destructuring, tuple-valued self,
#  recursion, arrays, pipes, blocks, non-integer arithmetic and the math intrinsics). Oracle: the real VM only.
# Branching constructs are kept out of tuple literals (former finding F13, repaired); delays of different sizes are mixed freely
# (former finding F3, repaired).
# ---------------------------------------------------------------------------------------------------------
XLITS = ["0.0", "1.0", "2.0", "3.0", "(-1.0)", "0.5", "0.25", "1.5", "(-2.5)", "0.1", "10.0", "7.0"]
F21_BUILTINS = ["round", "floor", "ceil", "not", "tan", "sinh", "cosh", "tanh", "asin", "acos", "atan", "atan2"]


def uses_missing_builtin(src):
    """class predicate of finding F21: the program calls a built-in math function the generated runtime does not provide"""
    return any(re.search(r"(?<![A-Za-z0-9_])%s\s*\(" % b, src) for b in F21_BUILTINS)


class XGen:
    def __init__(self, rng, builtins21=False):
        self.r = rng
        self.k = 0
        self.dsize = rng.choice([1, 2, 3, 5])
        self.funs = []          # dict(name, kind, arity, stateful)
        self.b21 = builtins21

    def fresh(self, p):
        self.k += 1
        return "%s%d" % (p, self.k)

    def vars_of(self, env, ty):
        return [n for n, t in env if t == ty]

    # ---- float expressions -------------------------------------------------------------------------------
    def leaf(self, env, fn, st):
        r = self.r
        c = r.below(10)
        fv = self.vars_of(env, 'f')
        if c < 5 and fv:
            return r.choice(fv)
        if c < 6 and fn and st:
            return "self"
        if c < 7 and r.chance(1, 2):
            return "now"
        tv = [(n, t) for n, t in env if t in ('t2', 't3')]
        if c < 8 and tv:
            n, t = r.choice(tv)
            return "%s.%d" % (n, r.below(int(t[1])))
        return r.choice(XLITS)

    def fexpr(self, d, env, fn=False, noif=False, st=True):
        """float-valued expression; fn: inside a named function (self allowed); noif: no branching / block constructs;
        st: stateful constructs (self/mem/delay/stateful calls) allowed"""
        r = self.r
        if d <= 0 or r.chance(1, 6):
            return self.leaf(env, fn, st)
        sub = lambda dd=d - 1, **kw: self.fexpr(dd, env, fn, kw.get('noif', noif), kw.get('st', st))
        c = r.below(40)
        if c < 8:
            op = r.choice(["+", "-", "*", "+", "-", "*", "/", "%"])
            return "(%s %s %s)" % (sub(), op, sub())
        if c < 11:
            return "(%s %s %s)" % (sub(), r.choice(["<", "<=", ">", ">=", "==", "!=", "&&", "||"]), sub())
        if c < 13:
            return "%s(%s, %s)" % (r.choice(["min", "max"]), sub(), sub())
        if c < 16:
            u = r.choice(["sqrt", "abs", "sin", "cos", "log", "neg"])
            if u == "neg":
                return "(-%s)" % sub()
            return "%s(%s)" % (u, sub())
        if c < 17:
            if self.b21:
                b = r.choice(F21_BUILTINS)
                return "%s(%s, %s)" % (b, sub(), sub()) if b == "atan2" else "%s(%s)" % (b, sub())
            return "(%s ^ %s)" % (sub(), r.choice(["2.0", "0.5", "3.0"]))
        if c < 20 and not noif:
            return "(if (%s) { %s } else { %s })" % (sub(), sub(), sub())
        if c < 22 and not noif:
            t = self.fresh("b")
            return "{ let %s = %s\n    %s }" % (t, sub(), self.fexpr(d - 1, env + [(t, 'f')], fn, noif, st))
        if c < 27:
            cands = [f for f in self.funs if f["kind"] == "f1" and (st or not f["stateful"])]
            if cands:
                f = r.choice(cands)
                return "%s(%s)" % (f["name"], ", ".join(sub() for _ in range(f["arity"])))
        if c < 30:
            cv = self.vars_of(env, 'ff')
            if cv:
                return "%s(%s)" % (r.choice(cv), sub())
            uv = self.vars_of(env, 'uf')
            if uv:
                return "%s()" % r.choice(uv)
        if c < 32:
            hs = [f for f in self.funs if f["kind"] == "hof"]
            if hs:
                h = r.choice(hs)
                cv = self.vars_of(env, 'ff')
                if cv and r.chance(1, 2):
                    arg = r.choice(cv)
                else:
                    y = self.fresh("y")
                    arg = "|%s| { %s }" % (y, self.fexpr(min(d - 1, 2), env + [(y, 'f')], False, True, False))
                return "%s(%s, %s)" % (h["name"], arg, sub())
        if c < 33:
            rs = [f for f in self.funs if f["kind"] == "rec"]
            if rs:
                return "%s(min(max(%s, 0.0), 4.0))" % (r.choice(rs)["name"], sub())
        if c < 34:
            av = [(n, t) for n, t in env if t.startswith('arr')]
            if av:
                n, t = r.choice(av)
                ln = int(t[3:])
                return "%s[%s]" % (n, "%d.0" % r.below(ln) if r.chance(2, 3) else "min(max(%s, 0.0), %d.0)" % (sub(), ln - 1))
        if c < 35:
            cands = [f for f in self.funs if f["kind"] == "f1" and f["arity"] == 1 and (st or not f["stateful"])]
            if cands:
                return "(%s |> %s)" % (sub(), r.choice(cands)["name"])
        if c < 36:
            ts = [f for f in self.funs if f["kind"] == "tself"]
            if ts and st:
                return "%s(%s).%d" % (r.choice(ts)["name"], sub(), r.below(2))
        if c < 37 and r.chance(1, 2):
            k = r.below(6)
            ss = [f for f in self.funs if f["kind"] == "sum"]
            es = [f for f in self.funs if f["kind"] == "enum" and (st or not f["stateful"])]
            ns = [f for f in self.funs if f["kind"] == "nmatch"]
            rv = self.vars_of(env, 'rec')
            f2 = [f for f in self.funs if f["kind"] == "f1" and f["arity"] == 2 and (st or not f["stateful"])]
            if k == 0 and ss:
                f = r.choice(ss)
                if r.chance(1, 2):
                    return "%s(%s(%s))" % (f["name"], f["c1"], sub(noif=True))
                return "%s(%s((%s, %s)))" % (f["name"], f["c2"], sub(noif=True), sub(noif=True))
            if k == 1 and es:
                f = r.choice(es)
                return "%s(%s, %s)" % (f["name"], r.choice(f["ctors"]), sub())
            if k == 2 and ns:
                return "%s(%s)" % (r.choice(ns)["name"], r.choice(["0", "1", "2", "5"]))
            if k == 3 and rv:
                return "%s.%s" % (r.choice(rv), r.choice(["a", "b"]))
            if k == 4 and f2:
                return "((%s, %s) |> %s)" % (sub(noif=True), sub(noif=True), r.choice(f2)["name"])
            if k == 5:
                return "(%s %s %s)" % (sub(), r.choice(["+", "*", "-"]), r.choice(["1", "2", "3"]))
        if st:
            if c < 38:
                return "mem(%s)" % sub()
            if c < 39:
                return "delay(%d.0, %s, %s)" % (r.choice([1, 2, 3, 5]), sub(), r.choice(["0.0", "1.0", "2.0", "1.5", sub(d - 2, st=False)]))
        return self.leaf(env, fn, st)

    def texpr(self, n, d, env, fn=False, st=True):
        r = self.r
        tv = self.vars_of(env, 't%d' % n)
        c = r.below(10)
        if c < 2 and tv:
            return r.choice(tv)
        tf = [f for f in self.funs if f["kind"] == "tup" and f["n"] == n]
        if c < 5 and tf:
            return "%s(%s)" % (r.choice(tf)["name"], self.fexpr(d - 1, env, fn, False, st))
        return "(" + ", ".join(self.fexpr(d - 1, env, fn, True, st) for _ in range(n)) + ")"

    # ---- statements --------------------------------------------------------------------------------------
    def stmts(self, nmax, d, env, fn=False, st=True):
        """returns (lines, env')"""
        r = self.r
        env = list(env)
        lines = []
        mut = []
        for _ in range(r.below(nmax + 1)):
            c = r.below(12)
            if c < 5:
                x = self.fresh("v")
                lines.append("let %s = %s" % (x, self.fexpr(d, env, fn, False, st)))
                env.append((x, 'f'))
                mut.append(x)
            elif c < 7:
                n = r.choice([2, 2, 3])
                names = [self.fresh("p") for _ in range(n)]
                lines.append("let (%s) = %s" % (", ".join(names), self.texpr(n, d, env, fn, st)))
                env += [(x, 'f') for x in names]
            elif c < 8:
                n = r.choice([2, 3])
                x = self.fresh("t")
                lines.append("let %s = %s" % (x, self.texpr(n, d, env, fn, st)))
                env.append((x, 't%d' % n))
            elif c < 10:
                y, x = self.fresh("y"), self.fresh("c")
                lines.append("let %s = |%s| { %s }" % (x, y, self.fexpr(min(d, 2), env + [(y, 'f')], False, True, False)))
                env.append((x, 'ff'))
            elif c < 10 and r.chance(1, 2):
                x = self.fresh("r")
                rv = self.vars_of(env, 'rec')
                if rv and r.chance(1, 2):
                    lines.append("let %s = { %s <- %s = %s }" % (x, r.choice(rv), r.choice(["a", "b"]), self.fexpr(d - 1, env, fn, True, st)))
                else:
                    lines.append("let %s = {a = %s, b = %s}" % (x, self.fexpr(d - 1, env, fn, True, st), self.fexpr(d - 1, env, fn, True, st)))
                env.append((x, 'rec'))
            elif c < 11 and mut:
                x = r.choice(mut)
                lines.append("%s = %s" % (x, self.fexpr(d - 1, env, fn, False, st)))
            else:
                ln = r.choice([2, 3, 4])
                x = self.fresh("a")
                lines.append("let %s = [%s]" % (x, ", ".join(self.fexpr(1, env, fn, True, False) for _ in range(ln))))
                env.append((x, 'arr%d' % ln))
        return lines, env

    @staticmethod
    def is_stateful(text, funs):
        if re.search(r"\b(self|mem|delay)\b", text):
            return True
        return any(f["stateful"] and re.search(r"\b%s\(" % f["name"], text) for f in funs)

    # ---- top level ---------------------------------------------------------------------------------------
    def program(self):
        r = self.r
        out = []
        genv = []
        for _ in range(r.below(6)):
            kind = r.choice(["f1", "f1", "f1", "f1", "tup", "hof", "mk", "mk0", "rec", "tself", "sum", "enum", "nmatch"])
            name = self.fresh({"f1": "fa", "tup": "ft", "hof": "fh", "mk": "mk", "mk0": "mz", "rec": "fr", "tself": "fs",
                               "sum": "fu", "enum": "fe", "nmatch": "fn"}[kind])
            d = r.range(1, 3)
            if kind == "f1":
                ps = [self.fresh("q") for _ in range(r.below(3))]
                lines, env = self.stmts(2, d, genv + [(p, 'f') for p in ps], True, True)
                body = lines + [self.fexpr(d + 1, env, True, False, True)]
                txt = "fn %s(%s){\n  %s\n}" % (name, ", ".join(ps), "\n  ".join(body))
                self.funs.append({"name": name, "kind": "f1", "arity": len(ps), "stateful": self.is_stateful("\n".join(body), self.funs)})
            elif kind == "tup":
                n = r.choice([2, 2, 3])
                x = self.fresh("q")
                lines, env = self.stmts(1, d, genv + [(x, 'f')], False, False)
                body = lines + ["(" + ", ".join(self.fexpr(d, env, False, True, False) for _ in range(n)) + ")"]
                txt = "fn %s(%s){\n  %s\n}" % (name, x, "\n  ".join(body))
                self.funs.append({"name": name, "kind": "tup", "n": n, "stateful": False})
            elif kind == "hof":
                f, y = self.fresh("g"), self.fresh("q")
                body = self.fexpr(d + 1, genv + [(f, 'ff'), (y, 'f')], False, False, False)
                txt = "fn %s(%s:(float)->float, %s:float){\n  %s\n}" % (name, f, y, body)
                self.funs.append({"name": name, "kind": "hof", "stateful": False})
            elif kind == "mk":
                a, s_, x, f = self.fresh("q"), self.fresh("s"), self.fresh("y"), self.fresh("c")
                env = genv + [(a, 'f'), (s_, 'f'), (x, 'f')]
                upd = "%s = %s\n    " % (s_, self.fexpr(d, env, False, True, False)) if r.chance(3, 4) else ""
                txt = "fn %s(%s){\n  let %s = %s\n  let %s = |%s| {\n    %s%s\n  }\n  %s\n}" % (
                    name, a, s_, a, f, x, upd, self.fexpr(d, env, False, True, False), f)
                self.funs.append({"name": name, "kind": "mk", "stateful": False})
            elif kind == "mk0":
                s_, f, t = self.fresh("s"), self.fresh("c"), self.fresh("w")
                env = genv + [(s_, 'f')]
                txt = "fn %s(){\n  let %s = %s\n  let %s = | |{\n    let %s = %s\n    %s = %s\n    %s\n  }\n  %s\n}" % (
                    name, s_, r.choice(XLITS), f, t, s_, s_, self.fexpr(d, env, False, True, False), t, f)
                self.funs.append({"name": name, "kind": "mk0", "stateful": False})
            elif kind == "rec":
                n = self.fresh("q")
                txt = "fn %s(%s){\n  if (%s > 0.0) {\n    %s(%s - 1.0) %s %s\n  } else {\n    %s\n  }\n}" % (
                    name, n, n, name, n, r.choice(["+", "*", "-"]), self.fexpr(d, genv + [(n, 'f')], False, True, False), r.choice(XLITS))
                self.funs.append({"name": name, "kind": "rec", "stateful": False})
            elif kind == "sum":
                ty, c1, c2 = self.fresh("Shape"), self.fresh("Circ"), self.fresh("Rect")
                sv, a, w, h = self.fresh("q"), self.fresh("p"), self.fresh("p"), self.fresh("p")
                txt = "type %s = %s(float) | %s(float, float)\nfn %s(%s: %s) -> float {\n  match %s {\n    %s(%s) => %s,\n    %s((%s, %s)) => %s,\n  }\n}" % (
                    ty, c1, c2, name, sv, ty, sv, c1, a, self.fexpr(d, genv + [(a, 'f')], False, True, False),
                    c2, w, h, self.fexpr(d, genv + [(w, 'f'), (h, 'f')], False, True, False))
                self.funs.append({"name": name, "kind": "sum", "c1": c1, "c2": c2, "stateful": False})
            elif kind == "enum":
                ty = self.fresh("Dir")
                ctors = [self.fresh("Up"), self.fresh("Down"), self.fresh("Left")][:r.choice([2, 3])]
                sv, x = self.fresh("q"), self.fresh("q")
                arm_st = r.chance(1, 4)      # direct mem/delay in a match arm is class F27
                arms = [self.fexpr(d, genv + [(x, 'f')], False, True, arm_st) for _ in ctors]
                txt = "type %s = %s\nfn %s(%s: %s, %s: float) -> float {\n  match %s {\n%s\n  }\n}" % (
                    ty, " | ".join(ctors), name, sv, ty, x, sv, "\n".join("    %s => %s," % (c_, a_) for c_, a_ in zip(ctors, arms)))
                self.funs.append({"name": name, "kind": "enum", "ctors": ctors, "stateful": self.is_stateful("\n".join(arms), self.funs)})
            elif kind == "nmatch":
                sv = self.fresh("q")
                txt = "fn %s(%s) {\n  match %s {\n    0 => %s\n    1 => %s\n    _ => %s\n  }\n}" % (
                    name, sv, sv, r.choice(["100", "10", "7"]), r.choice(["200", "20", "3"]), r.choice(["300", "30", "1"]))
                self.funs.append({"name": name, "kind": "nmatch", "stateful": False})
            else:
                x, a, b = self.fresh("q"), self.fresh("p"), self.fresh("p")
                env = genv + [(x, 'f'), (a, 'f'), (b, 'f')]
                txt = "fn %s(%s)->(float,float){\n  let (%s, %s) = self\n  (%s, %s)\n}" % (
                    name, x, a, b, self.fexpr(d, env, False, True, False), self.fexpr(d, env, False, True, False))
                self.funs.append({"name": name, "kind": "tself", "stateful": True})
            out.append(txt)
            # globals between functions
            if r.chance(1, 3):
                c = r.below(4)
                if c == 0:
                    g = self.fresh("g")
                    out.append("let %s = %s" % (g, self.fexpr(2, [(n_, t_) for n_, t_ in genv if t_ == 'f'], False, True, False).replace("now", "1.0")))
                    genv.append((g, 'f'))
                elif c == 1:
                    mks = [f for f in self.funs if f["kind"] == "mk"]
                    if mks:
                        g = self.fresh("k")
                        out.append("let %s = %s(%s)" % (g, r.choice(mks)["name"], r.choice(XLITS)))
                        genv.append((g, 'ff'))
                elif c == 2:
                    mks = [f for f in self.funs if f["kind"] == "mk0"]
                    if mks:
                        g = self.fresh("u")
                        out.append("let %s = %s()" % (g, r.choice(mks)["name"]))
                        genv.append((g, 'uf'))
                else:
                    ln = r.choice([2, 3, 4])
                    g = self.fresh("a")
                    out.append("let %s = [%s]" % (g, ", ".join(r.choice(XLITS) for _ in range(ln))))
                    genv.append((g, 'arr%d' % ln))
        has_in = r.chance(1, 3)
        x = self.fresh("i")
        env = genv + ([(x, 'f')] if has_in else [])
        lines, env = self.stmts(3, r.range(1, 3), env, False, True)
        nout = r.choice([1, 1, 1, 2, 3])
        if nout == 1:
            last = self.fexpr(r.range(2, 4), env, False, False, True)
        else:
            last = "(" + ", ".join(self.fexpr(r.range(1, 3), env, False, True, True) for _ in range(nout)) + ")"
        out.append("fn dsp(%s){\n  %s\n}" % ((x + ":float") if has_in else "", "\n  ".join(lines + [last])))
        return "\n".join(out) + "\n", has_in


XIN = [0.0, 1.0, -1.0, 0.5, 2.0, -0.25, 3.0, 0.1, 10.0, -3.5]


def sibling_closure_cases(ck, n_cases, n_samples):
    """several closures created in ONE frame that share a local: writers and readers (inc/get, tick/read pairs), called in varying
    orders, in dsp, in a maker function returning the closures in a tuple, or made once at global scope (response to seeded change
    C18b: a capture 'by value' that looks only at the closure being built)"""
    out = []
    for i in range(n_cases):
        r = ck.rng.fork(("C18sib", i))
        init = r.choice(["0.0", "1.0", "0.5", "100.0"])
        step = r.choice(["1.0", "0.125", "2.5", "(-1.0)"])
        nread = r.range(1, 2)
        writer = r.choice(["| | { sv = sv + %s\n sv }" % step, "|d| { sv = sv * 2.0 + d\n 0.0 }", "| | { let o = sv\n sv = sv + %s\n o }" % step])
        wcall = "wr(%s)" % r.choice(["1.0", "0.25"]) if writer.startswith("|d|") else "wr()"
        readers = [r.choice(["| | { sv * 10.0 }", "|y| { y + sv }", "| | { sv }"]) for _ in range(nread)]
        rcalls = [("rd%d(%s)" % (k, r.choice(["3.0", "0.5"])) if rd.startswith("|y|") else "rd%d()" % k) for k, rd in enumerate(readers)]
        order = r.below(3)      # reader created before / after the writer; calls: writer first, reader first, interleaved
        defs = ["let wr = " + writer] + ["let rd%d = %s" % (k, rd) for k, rd in enumerate(readers)]
        if order == 1:
            defs = defs[1:] + defs[:1]
        calls = [wcall] + rcalls
        if r.chance(1, 2):
            calls = rcalls[:1] + [wcall] + rcalls[1:] + ([rcalls[0]] if r.chance(1, 2) else [])
        else:
            calls = calls + [rcalls[0]]
        where = r.below(3)
        if where == 0:          # everything inside dsp (the shared local is re-created on every sample)
            src = "fn dsp(){\n  let sv = %s\n  %s\n  %s\n}\n" % (init, "\n  ".join(defs), " + ".join("(%s) * %d.0" % (c, 10 ** k) for k, c in enumerate(calls)))
        elif where == 1:        # a maker returns the closures; made once at global scope and called from dsp
            names = ["wr"] + ["rd%d" % k for k in range(nread)]
            src = ("fn mk(){\n  let sv = %s\n  %s\n  (%s)\n}\nlet (%s) = mk()\nfn dsp(){\n  %s\n}\n"
                   % (init, "\n  ".join(defs), ", ".join(names), ", ".join(names), " + ".join("(%s) * %d.0" % (c, 10 ** k) for k, c in enumerate(calls))))
        else:                   # the maker is called inside dsp on every sample
            names = ["wr"] + ["rd%d" % k for k in range(nread)]
            src = ("fn mk(a){\n  let sv = a\n  %s\n  (%s)\n}\nfn dsp(){\n  let (%s) = mk(%s)\n  %s\n}\n"
                   % ("\n  ".join(defs), ", ".join(names), ", ".join(names), init, " + ".join("(%s) * %d.0" % (c, 10 ** k) for k, c in enumerate(calls))))
        out.append(mk_case("sibling", "sib%d" % i, src, n_samples))
    # closures created WHILE dsp runs that outlive the sample: stored in a global (re-triggered every k-th sample) and called on later
    # samples, which allocate locals of their own (response to seeded change C18c: the store of captured locals released after every dsp call)
    for i in range(max(10, n_cases // 3)):
        r = ck.rng.fork(("C18retrig", i))
        k = r.choice([2, 3, 4, 5])
        body = r.choice(["level = level + step\n        level", "let t = level\n        level = level * 2.0 + step\n        t", "level + step"])
        nloc = r.range(1, 3)
        locs = "".join("    let q%d = %s\n" % (j, r.choice(["0.5", "2.0", "tick * 0.25", "(tick, 1.0).0"])) for j in range(nloc))
        use = " * ".join(["voice()"] + ["q%d" % j for j in range(nloc)])
        src = ("fn make_ramp(step){\n    let level = %s\n    | | {\n        %s\n    }\n}\nlet voice = make_ramp(0.0)\nlet tick = 0.0\n"
               "fn dsp(){\n    tick = tick + 1.0\n    if (tick %% %d.0 == 1.0) {\n        voice = make_ramp(tick)\n    } else { }\n%s    %s\n}\n"
               % (r.choice(["0.0", "1.0"]), body, k, locs, use))
        out.append(mk_case("sibling", "retrig%d" % i, src, max(n_samples, 2 * k + 2)))
    return out


def xgen_cases(ck, n_cases, n_samples):
    out = []
    for i in range(n_cases):
        r = ck.rng.fork(("C18x", i))
        g = XGen(r, builtins21=(i % 16 == 15))
        src, has_in = g.program()
        rin = r.fork("in")
        inputs = [[rin.choice(XIN)] for _ in range(n_samples)] if has_in else None
        out.append(mk_case("xgen", "xgen%d" % i, src, n_samples, inputs=inputs))
    return out


# ---------------------------------------------------------------------------------------------------------
# running
# ---------------------------------------------------------------------------------------------------------
def vm_requests(cases):
    reqs = []
    for c in cases:
        r = {"src": c["src"], "n": c["n"], "state": False, "sched": c["sched"], "backends": ["vm"]}
        if c["inputs"]:
            r["inputs"] = c["inputs"]
        if c["path"]:
            r["path"] = c["path"]
        if c["cls"]:
            r["backends"] = ["vm", "wasm"]
        reqs.append(r)
    return reqs


def rust_requests(cases):
    reqs = []
    for c in cases:
        r = {"src": c["src"], "n": c["n"], "plugins": c["plugins"], "dir": SCRATCH}
        if c["inputs"]:
            r["inputs"] = c["inputs"]
        if c.get("input_bits"):
            r["input_bits"] = c["input_bits"]
        if c["path"]:
            r["path"] = c["path"]
        reqs.append(r)
    return reqs


# ---------------------------------------------------------------------------------------------------------
# judging one case: returns ('ok', tag) | ('known', finding_id, detail) | ('viol', what, detail)
# ---------------------------------------------------------------------------------------------------------
def judge(c, R, V, W, ref_bits, findings, methods):
    n = c["n"]
    src1 = c["src"].replace("\n", " ")[:150]
    clash = name_clash(c["src"], methods)

    def fail(what, **det):
        """a failure: known when it lies in a known class and shows the known symptom, else a violation"""
        return ("viol", what, det)

    if R["st"] == "crash":
        return fail("emit_rust kills the process (abort / stack overflow) on: " + R["msg"])
    if R["st"] == "harness":
        return ("harness", R["msg"], {})
    if R["st"] in ("refused", "emit_panic"):
        if V["st"] == "compile":
            return ("ok", "both_refuse")
        if V["st"] == "compile_panic" and R["st"] == "emit_panic":
            return ("ok", "both_panic_at_compile")
        if c["kind"] == "probe":
            return ("ok", "probe_refused_at_emit")
        return fail("emit_rust %s a program of the core language that the VM %s: %s" % (
            "refuses" if R["st"] == "refused" else "panics on", "runs" if V["st"] in ("ok", "panic") else V["st"], R["msg"]))
    if R["st"] == "rustc":
        if clash and "F20" in findings:
            return ("known", "F20", src1 + " -> " + R["msg"].split("\n")[0][:120])
        return fail("emit_rust accepted the program but the generated Rust does not compile: " + R["msg"].split("\n")[0][:200],
                    rustc_stderr=R["msg"], generated_file=R.get("file"))
    # the generated program was built and run
    if c["kind"] == "probe":
        if R["st"] == "run" and re.search(r"external", R["msg"]):
            return ("ok", "probe_refused_at_run_naming_the_external")
        if R["st"] == "ok" and V["st"] == "ok" and R["samples"] == V["samples"]:
            return ("ok", "probe_supported_and_equal")
        return fail("a plugin-dependent program is neither refused nor equal to the VM: rust %s %s vs vm %s" % (
            R["st"], R["msg"], V["st"]), rust=R["samples"][:4], vm=V["samples"][:4])
    full_R = R["st"] == "ok" and len(R["samples"]) == n
    if V["st"] == "ok" and full_R and R["samples"] == V["samples"]:
        return ("ok", "rust_eq_vm")
    if R["st"] == "run" and "F21" in findings and uses_missing_builtin(c["src"]):
        m = re.search(r"unexpected external call: (\w+)", R["msg"])
        if m and m.group(1) in F21_BUILTINS and V["st"] in ("ok", "panic") and R["samples"] == V["samples"][:len(R["samples"])]:
            return ("known", "F21", src1 + " -> " + R["msg"][:100])
    if "F22" in findings and handle_like_bits(c) and R["st"] == "ok" and V["st"] == "ok":
        return ("known", "F22", src1 + " with input bits %s -> rust %s, vm %s" % (
            c["input_bits"][0], show(R["samples"][0] if R["samples"] else None), show(V["samples"][0] if V["samples"] else None)))
    # some difference: describe it
    if V["st"] in ("ok", "panic") and (R["samples"] != V["samples"][:len(R["samples"])] or (R["st"] == "ok" and V["st"] == "ok")):
        d = first_diff(R["samples"], V["samples"])
        why = "output at sample %d: generated Rust gives %s, the VM gives %s" % (d[0], show(d[1]), show(d[2])) if d else "lengths differ"
    elif R["st"] == "run":
        why = "the generated program fails at sample %d (%s); the VM %s" % (
            len(R["samples"]), R["msg"], "runs on" if V["st"] == "ok" else V["st"] + " " + V["msg"])
    else:
        why = "the VM %s (%s) where the generated Rust runs" % (V["st"], V["msg"])
    if "F27" in findings and stateful_primitive_in_match_arm(c["src"]) and (V["st"] in ("panic", "absent") or (R["st"] == "ok" and V["st"] == "ok")):
        return ("known", "F27", src1 + " -> " + why[:140])
    hits = [k for k in sorted(c["cls"]) if k in findings]
    if hits:
        # known defects of the VM / of the shared MIR lowering: the oracle is the reference semantics, else the WASM runtime
        if full_R and ref_bits is not None and R["samples"] == ref_bits:
            return ("known", hits[0], src1 + " -> rust = reference semantics; " + why[:120])
        if full_R and W["st"] == "ok" and R["samples"] == W["samples"]:
            return ("known", hits[0], src1 + " -> rust = WASM; " + why[:120])
        if V["st"] == "absent" and W["st"] == "ok" and full_R and R["samples"] == W["samples"]:
            return ("ok", "rust_eq_wasm_vm_skipped")
        return fail(why + " (program in class %s, but the generated Rust equals neither the reference semantics nor WASM)" % "/".join(hits),
                    wasm=W["samples"][:6] if W["st"] == "ok" else W["st"], reference=ref_bits[:6] if ref_bits else None)
    if V["st"] == "absent":
        return ("ok", "vm_not_run")
    return fail(why, rust_first=R["samples"][:6], vm_first=V["samples"][:6])


# ---------------------------------------------------------------------------------------------------------
# classes confirmed by a semantics-preserving rewrite: a failure belongs to the class iff the program has the construct
# AND the failure disappears (generated Rust == VM at every sample) once exactly that construct is rewritten away
# ---------------------------------------------------------------------------------------------------------
def projection_spans(src):
    """maximal field projections  base(.N | .name)+  with base = identifier or call  f(...): list of (start, end)"""
    spans = []
    for m in re.finditer(r"\.(\d+|[A-Za-z_]\w*)\b", src):
        dot = m.start()
        if dot == 0:
            continue
        prev = src[dot - 1]
        if prev == ")":
            depth, j = 0, dot - 1
            while j >= 0:
                if src[j] == ")":
                    depth += 1
                elif src[j] == "(":
                    depth -= 1
                    if depth == 0:
                        break
                j -= 1
            k = j
            while k > 0 and (src[k - 1].isalnum() or src[k - 1] == "_"):
                k -= 1
            if k == j:          # a parenthesised expression, not a call: leave it alone
                continue
            start = k
        elif prev.isalnum() or prev == "_":
            k = dot
            while k > 0 and (src[k - 1].isalnum() or src[k - 1] in "_."):
                k -= 1
            start = k
            base = src[start:dot]
            if not re.match(r"[A-Za-z_]", base):     # a numeric literal such as 10.0
                continue
        else:
            continue
        same = [k for k, sp in enumerate(spans) if sp[0] == start]
        if same:                                      # chain a.b.c: extend
            spans[same[-1]] = (start, m.end())
        else:
            spans.append((start, m.end()))
    return spans


def has_projection_operand(src):
    """syntactic part of class F24: a tuple/record field projection that is not an operand of an arithmetic/comparison operator
    or of a call, i.e. written directly as the input of mem/delay, as a delay time, as an array index, or as the value of a
    block / `if` / `match` arm (possibly the block that is the mem/delay operand)"""
    for a, b in projection_spans(src):
        before, after = src[:a].rstrip(), src[b:]
        nxt = after.lstrip(" ")[:1]
        if before.endswith("mem(") and nxt == ")":
            return True
        if before.endswith("[") and nxt == "]":
            return True
        if nxt == "}" or before.endswith("=>") or (nxt in ("\n", "") and after.lstrip()[:1] == "}"):
            return True
        if before.endswith(",") and nxt in (",", ")") and "delay(" in before:
            return True
    return False


def rw_projections(src):
    """P -> (P * 1.0) for every projection P: the value goes through MulF (bit-exact identity on f64) instead of being used as an
    operand directly"""
    ins = []
    for a, b in projection_spans(src):
        ins.append((a, 1, "("))
        ins.append((b, 0, " * 1.0)"))
    for pos, _, txt in sorted(ins, reverse=True):      # spans are nested or disjoint: insert from the right
        src = src[:pos] + txt + src[pos:]
    return src


def rw_if_conditions(src):
    """if (C) -> if ((C) > 0.0): identical on both backends unless C is NaN (then: else-arm everywhere)"""
    starts = [m.start() for m in re.finditer(r"\bif\s*\(", src)]
    for st in reversed(starts):
        a = src.index("(", st)
        depth, j = 0, a
        while j < len(src):
            if src[j] == "(":
                depth += 1
            elif src[j] == ")":
                depth -= 1
                if depth == 0:
                    break
            j += 1
        if j >= len(src):
            continue
        src = src[:a] + "((" + src[a + 1:j] + ") > 0.0)" + src[j + 1:]
    return src


def handle_like_bits(case):
    """class predicate of finding F22: a dsp input whose bit pattern decodes as a live MemoryStore handle
    (bit 61 set, bits 63/62 clear, small index)"""
    for row in case.get("input_bits") or []:
        for h in row:
            w = int(h, 16)
            if w >> 61 == 1 and (w & ((1 << 61) - 1)) < (1 << 32):
                return True
    return False


def lambda_bodies(src):
    """texts of the bodies of lambda expressions  |params| { body }"""
    out = []
    for m in re.finditer(r"\|[^|\n]*\|\s*\{", src):
        depth, j = 0, m.end() - 1
        while j < len(src):
            if src[j] == "{":
                depth += 1
            elif src[j] == "}":
                depth -= 1
                if depth == 0:
                    break
            j += 1
        out.append(src[m.end():j])
    return out


def assigned_captured_local(src):
    """syntactic part of class F26: a variable that is assigned (`v = e`, not `let`) and also occurs inside a lambda body.
    The class is confirmed dynamically: the generated Rust must equal the WASM runtime at every sample."""
    bodies = lambda_bodies(src)
    names = set()
    for m in re.finditer(r"(?<![\w.])([A-Za-z_]\w*)\s*=(?![=>])", src):
        if not re.search(r"\b(let|letrec)\s*$", src[:m.start()]) and not re.search(r"[<>!=]$", src[:m.start()]):
            names.add(m.group(1))
    for v in names:
        if any(re.search(r"\b%s\b" % re.escape(v), b) for b in bodies):
            return True
    return False


def stateful_primitive_in_match_arm(src):
    """class predicate of finding F27: mem / delay / self written directly in an arm of a `match`"""
    for m in re.finditer(r"\bmatch\b[^{]*\{", src):
        depth, j = 0, m.end() - 1
        while j < len(src):
            if src[j] == "{":
                depth += 1
            elif src[j] == "}":
                depth -= 1
                if depth == 0:
                    break
            j += 1
        body = src[m.end():j]
        for arm in re.split(r"\n", body):
            if "=>" in arm and re.search(r"\b(mem|delay)\(|\bself\b", arm.split("=>", 1)[1]):
                return True
    return False


def top_level_items(src):
    """(kind, name, text) of the top-level `fn` / `let` items of a source (brace/paren balanced)"""
    items = []
    for m in re.finditer(r"(?m)^(fn|let|letrec)\s+([A-Za-z_]\w*)", src):
        depth, j, seen = 0, m.start(), False
        while j < len(src):
            ch = src[j]
            if ch in "({[":
                depth += 1
                seen = seen or ch == "{"
            elif ch in ")}]":
                depth -= 1
            if ch == "\n" and depth == 0 and (m.group(1) != "fn" or seen):
                break
            j += 1
        items.append((m.group(1), m.group(2), src[m.start():j]))
    return items


def stateful_call_at_global_scope(src):
    """syntactic part of class F28: the initialiser of a top-level `let` calls a function that (transitively) uses self/mem/delay"""
    items = top_level_items(src)
    fns = {name: text for kind, name, text in items if kind == "fn"}
    stateful = {n for n, t in fns.items() if re.search(r"\bself\b|\b(mem|delay)\(", t.split("{", 1)[-1])}
    changed = True
    while changed:
        changed = False
        for n, t in fns.items():
            if n not in stateful and any(re.search(r"\b%s\b" % re.escape(sn), t.split("{", 1)[-1]) for sn in stateful):
                stateful.add(n)
                changed = True
    for kind, name, text in items:
        if kind == "let" and any(re.search(r"\b%s\b" % re.escape(sn), text.split("=", 1)[-1]) for sn in stateful):
            return True
    return False


REWRITE_CLASSES = [
    # (finding id, syntactic predicate, rewrite)
    ("F24", has_projection_operand, rw_projections),
    ("F23", lambda src: bool(re.search(r"\bif\s*\(", src)), rw_if_conditions),
]


# ---------------------------------------------------------------------------------------------------------
# shrinking a failing source (text level: delete lines / items, replace bracketed groups by a literal or by one of their parts)
# ---------------------------------------------------------------------------------------------------------
def failure_signature(R, V):
    if R["st"] == "rustc":
        m = re.search(r"error(\[E\d+\])?", R["msg"])
        return "rustc" + ((m.group(1) or "") if m else "")
    if R["st"] == "run" and V["st"] == "ok":
        return "rust-run-fails"
    if R["st"] == "ok" and V["st"] == "ok" and R["samples"] != V["samples"]:
        # (the width keeps the shrinker from turning dsp into something that returns a closure / nothing)
        return "samples-differ/%d/%d" % (len(R["samples"][0]) if R["samples"] else -1, len(V["samples"][0]) if V["samples"] else -1)
    if R["st"] in ("refused", "emit_panic") and V["st"] == "ok":
        return "rust-" + R["st"]
    return None


def _spans(src):
    """balanced bracket groups (start, end_exclusive, with an adjacent callee identifier included)"""
    out, stack = [], []
    for i, ch in enumerate(src):
        if ch in "({[":
            stack.append(i)
        elif ch in ")}]" and stack:
            a = stack.pop()
            out.append((a, i + 1))
            m = re.search(r"[A-Za-z_][A-Za-z0-9_]*$", src[:a])
            if m and src[a] == "(" and not src[:m.start()].rstrip().endswith("fn"):
                out.append((m.start(), i + 1))
    return out


def _parts(txt):
    """top-level parts of a group's content: split at depth-0 commas and at depth-0 binary operators written with spaces"""
    inner = txt[txt.find(txt.lstrip("abcdefghijklmnopqrstuvwxyzABCDEFGHIJKLMNOPQRSTUVWXYZ_0123456789")[0]) + 1:-1] if txt else ""
    parts, depth, cur, i = [], 0, "", 0
    while i < len(inner):
        ch = inner[i]
        if ch in "({[":
            depth += 1
        elif ch in ")}]":
            depth -= 1
        if depth == 0 and ch == ",":
            parts.append(cur); cur = ""; i += 1; continue
        if depth == 0 and ch == " ":
            m = re.match(r" (\+|-|\*|/|%|\^|<=|>=|<|>|==|!=|&&|\|\||\|>) ", inner[i:])
            if m:
                parts.append(cur); cur = ""; i += len(m.group(0)); continue
        cur += ch
        i += 1
    parts.append(cur)
    # (a lambda is never a replacement for a float expression)
    return [p.strip() for p in parts if p.strip() and p.strip() != inner.strip() and not p.strip().startswith("|")]


def shrink_candidates(src):
    cands = set()
    lines = src.split("\n")
    for i in range(len(lines)):
        if lines[i].strip():
            cands.add("\n".join(lines[:i] + lines[i + 1:]))
    # top-level items
    for m in re.finditer(r"^(fn|let) ", src, re.M):
        depth, j, seen = 0, m.start(), False
        while j < len(src):
            if src[j] in "({[":
                depth += 1; seen = True
            elif src[j] in ")}]":
                depth -= 1
            if src[j] == "\n" and depth == 0 and (seen or src.startswith("let", m.start())):
                break
            j += 1
        cands.add(src[:m.start()] + src[j + 1:])
    for a, b in _spans(src):
        g = src[a:b]
        if g[0] in "{[" and not g.startswith("{ let"):
            reps = []
        else:
            reps = ["1.0", "0.0"]
        if g.startswith("(if "):
            reps += re.findall(r"\{ ((?:[^{}]|\{[^{}]*\})*) \}", g)[:2]
        if g.startswith("{ let"):
            reps.append(g[1:-1].split("\n")[-1].strip())
        if g[0] != "{":
            reps += _parts(g)
        for rp in reps:
            if rp and rp != g:
                cands.add(src[:a] + rp + src[b:])
    ok = []
    for c in cands:
        if c.count("(") == c.count(")") and c.count("{") == c.count("}") and "fn dsp" in c and len(c) < len(src):
            ok.append(c)
    return sorted(ok, key=len)


def shrink(case, sig, rexe, vexe, budget_s=60, log=None):
    """greedy: per round evaluate the candidates (smallest first, in parallel) and keep the smallest that fails the same way"""
    t0 = time.time()
    cur = dict(case)
    rounds = 0
    while time.time() - t0 < budget_s:
        cands = shrink_candidates(cur["src"])[:96]
        if not cands:
            break
        cs = [dict(cur, src=c, prog=None, cls=set()) for c in cands]
        rres = run_impl(rexe, rust_requests(cs), shards=NPROC)
        vres = run_impl(vexe, vm_requests(cs), shards=min(NPROC, 8))
        best = None
        for c, a, b in zip(cs, rres, vres):
            R = rust_status(a)
            V = backend_status((b or {}).get("vm")) if b and 'crash' not in b else {"st": "panic", "samples": [], "msg": ""}
            if failure_signature(R, V) == sig:
                best = c
                break
        if best is None:
            break
        cur = best
        rounds += 1
    return cur["src"], rounds


# ---------------------------------------------------------------------------------------------------------
# direct test of the template's primitives: the REAL `impl StateStorage` text of the template, compiled stand-alone with a
# small driver, against the extracted Gallina transcription (RustRt/Model.v ss_run) and the extracted cursor machine
# (m_run VmD / WasmD), on structured random primitive-op sequences (cells visited the way generated code visits them)
# ---------------------------------------------------------------------------------------------------------
PRIMS_MAIN = r"""
fn main() {
    use std::io::BufRead;
    std::panic::set_hook(Box::new(|_| {}));
    let stdin = std::io::stdin();
    for line in stdin.lock().lines() {
        let line = line.unwrap();
        let r = std::panic::catch_unwind(|| {
            let mut it = line.split(';');
            let n: usize = it.next().unwrap().trim().parse().unwrap();
            let mut s = StateStorage::new(n);
            let mut out: Vec<String> = vec![];
            for tok in it.next().unwrap().split_whitespace() {
                let (k, rest) = tok.split_at(1);
                match k {
                    "P" => { s.push_pos(rest.parse().unwrap()); out.push("-".into()); }
                    "Q" => { s.pop_pos(rest.parse().unwrap()); out.push("-".into()); }
                    "G" => { let v = s.get_state(1); out.push(format!("{:016x}", v[0])); }
                    "S" => { let v: f64 = rest.parse().unwrap(); s.set_state(&[f64_to_word(v)], 1); out.push("-".into()); }
                    "M" => { let v: f64 = rest.parse().unwrap(); out.push(format!("{:016x}", s.mem(f64_to_word(v)))); }
                    "D" => {
                        let a: Vec<&str> = rest.split(',').collect();
                        let n: usize = a[0].parse().unwrap();
                        let x: f64 = a[1].parse().unwrap();
                        let t: f64 = a[2].parse().unwrap();
                        out.push(format!("{:016x}", s.delay(f64_to_word(x), f64_to_word(t), n)));
                    }
                    _ => panic!("op"),
                }
            }
            format!("R {} | {} | {}", out.join(" "), s.pos, s.rawdata.iter().map(|w| format!("{:016x}", w)).collect::<Vec<_>>().join(" "))
        });
        match r { Ok(l) => println!("{}", l), Err(_) => println!("R panic") }
    }
}
"""


def _balanced_from(src, start):
    i = src.index("{", start)
    depth, j = 0, i
    while j < len(src):
        if src[j] == "{":
            depth += 1
        elif src[j] == "}":
            depth -= 1
            if depth == 0:
                return src[start:j + 1]
        j += 1
    raise RuntimeError("unbalanced")


def build_prims_driver():
    """the template's own text of Word, f64_to_word, word_to_f64, struct StateStorage, impl StateStorage + a driver main"""
    txt = open(TEMPLATE).read()
    parts = []
    for pat in (r"pub type Word = u64;", r"fn f64_to_word\(value: f64\) -> Word \{[^\n]*\}", r"fn word_to_f64\(value: Word\) -> f64 \{[^\n]*\}"):
        m = re.search(pat, txt)
        if not m:
            return None, "template: `%s` not found" % pat
        parts.append(m.group(0))
    m = re.search(r"#\[derive\([^\]]*\)\]\s*struct StateStorage\s*\{", txt)
    if not m:
        return None, "template: struct StateStorage not found"
    parts.append(_balanced_from(txt, m.start()))
    m = re.search(r"impl StateStorage\s*\{", txt)
    if not m:
        return None, "template: impl StateStorage not found"
    parts.append(_balanced_from(txt, m.start()))
    os.makedirs(SCRATCH, exist_ok=True)
    srcp = os.path.join(SCRATCH, "template_prims.rs")
    exe = os.path.join(SCRATCH, "template_prims.bin")
    open(srcp, "w").write("\n".join(parts) + PRIMS_MAIN)
    rc, out, _ = sh(["rustc", "--edition=2024", "-Awarnings", "-Cdebuginfo=0", srcp, "-o", exe], timeout=300)
    if rc != 0:
        return None, "the template's StateStorage does not compile stand-alone: " + out[-600:]
    return exe, ""


def prim_sequences(rng, count):
    """(init_len, ops text, layout) ; layout = list of (kind, n, offset)"""
    seqs = []
    for i in range(count):
        r = rng.fork(("prims", i))
        cells, off = [], 0
        for _ in range(r.range(1, 5)):
            k = r.choice("FMDD")
            n = r.range(1, 4) if k == "D" else 1
            if k == "D" and r.chance(1, 12):
                n = 0
            cells.append((k, n, off))
            off += n + 2 if k == "D" else 1
        total = off
        init = r.choice([total, total, total, 0, max(0, total - 1), total + 2])
        ops = []
        for _ in range(r.range(2, 6)):
            cur = 0
            order = list(range(len(cells)))
            if r.chance(1, 4):
                order = [j for j in order if r.chance(2, 3)]
            for j in order:
                k, n, o = cells[j]
                if o > cur:
                    ops.append("P%d" % (o - cur))
                elif o < cur:
                    ops.append("Q%d" % (cur - o))
                cur = o
                if k == "F":
                    ops += ["G", "S%d" % r.range(-4, 9)]
                elif k == "M":
                    ops.append("M%d" % r.range(-4, 9))
                else:
                    ops.append("D%d,%d,%d" % (n, r.range(-4, 9), r.range(-2, n + 2)))
            if cur > 0:
                ops.append("Q%d" % (cur + (1 if r.chance(1, 10) else 0)))     # now and then one too many (saturation / VM undefined)
        seqs.append((init, " ".join(ops), cells))
    return seqs


def template_prims_test(ck, n_seq, extra=()):
    """returns (n_run, list of failures (what, replay_obj)), None when a side cannot be built"""
    rc, out, _ = coq_make(["theories/Extract/RustRtExtract.vo"])
    prev = os.path.join(CACHE, "ocaml", "rustrt_drv", "rustrt_drv")
    if rc != 0:
        ck.broken.append("extraction RustRtExtract: " + first_coq_error(out)[:300])
        if not os.path.exists(prev):
            return None
        # the table is poisoned (the template's primitives changed): keep testing the real template against the model extracted
        # from the last transcription that checked, so that a concrete failing primitive sequence is reported
        mexe = prev
        ck.coverage["template_prims_model"] = "previously extracted model (current Coq build broken)"
    else:
        rc, out, mexe = ocaml_build("rustrt_drv", ["rustrt_model"], os.path.join(VERIF, "ocaml", "rustrt_drv.ml"))
        if rc != 0:
            ck.broken.append("ocaml rustrt_drv: " + out[-300:])
            return None
    texe, err = build_prims_driver()
    if texe is None:
        ck.broken.append(err)
        return 0, [("the template's state primitives cannot be compiled stand-alone: " + err[:200], {"detail": err})]
    seqs = [(e["init_len"], e["ops"], [tuple(c) for c in e["cells"]]) for e in extra] + prim_sequences(ck.rng, n_seq)
    text = "".join("%d ; %s\n" % (init, ops) for init, ops, _ in seqs)
    rc1, mout, _ = run_lines(mexe, text, timeout=600)
    rc2, tout, _ = run_lines(texe, text, timeout=600)
    mout = [l for l in mout if l.startswith("T ")]
    tout = [l for l in tout if l.startswith("R ")]
    fails = []
    if len(mout) != len(seqs) or len(tout) != len(seqs):
        return 0, [("primitive drivers did not answer every sequence (model %d, template %d of %d)" % (len(mout), len(tout), len(seqs)), {})]

    def decode_word(h):
        f = bits_to_float(h)
        return int(f) if f == f and abs(f) < 2 ** 62 and f == int(f) else ("bits:" + h)

    agree_v = agree_w = 0
    for (init, ops, cells), ml, tl in zip(seqs, mout, tout):
        sides = {}
        for part in ml.split(" ; "):
            tag, rest = part[0], part[2:]
            if rest.strip() == "none":
                sides[tag] = None
            else:
                rs, pos, ws = rest.split("|")
                sides[tag] = ([int(x) for x in rs.split()], int(pos), [int(x) for x in ws.split()])
        headers = set()
        for k, n, o in cells:
            if k == "D":
                headers |= {o, o + 1}
        if tl.strip() == "R panic":
            real = None
        else:
            rs, pos, ws = tl[2:].split("|")
            rr = [0 if x == "-" else decode_word(x) for x in rs.split()]
            ww = [int(h, 16) if i in headers else decode_word(h) for i, h in enumerate(ws.split())]
            real = (rr, int(pos), ww)
        T = sides.get("T")
        rp = {"init_len": init, "ops": ops, "cells": cells, "template_model": T, "real_template": real,
              "machine_vm": sides.get("V"), "machine_grow": sides.get("W"),
              "how": "echo '<init_len> ; <ops>' | .cache/rustgen/p<pid>/template_prims.bin   and   | .cache/ocaml/rustrt_drv/rustrt_drv"}
        vm = sides.get("V")
        if real is None:
            # the real code panicked (index out of range): the transcription reads 0 / writes nothing there; only legal when the
            # VM discipline is undefined too
            if vm is not None:
                fails.append(("the template's StateStorage panics on a primitive sequence the VM discipline defines", rp))
            continue
        if T is not None and (list(T[0]), T[1], list(T[2])) != (real[0], real[1], real[2]):
            fails.append(("the template's real StateStorage and its Gallina transcription (RustRt/Model.v) differ", rp))
            continue
        if vm is not None:
            if (vm[0], vm[1], vm[2]) != (real[0], real[1], real[2]):
                fails.append(("the template's StateStorage differs from the cursor machine's primitives (VM discipline) "
                              "- C18_template_prims_agree evaluated on the real code", rp))
            else:
                agree_v += 1
        w = sides.get("W")
        if w is not None and not any(k == "D" and n == 0 for k, n, o in cells):
            if (w[0], w[1], w[2]) != (real[0], real[1], real[2]):
                fails.append(("the template's StateStorage differs from the cursor machine's primitives (grow-on-demand discipline)", rp))
            else:
                agree_w += 1
    ck.coverage["template_prim_sequences"] = {"run": len(seqs), "equal_to_machine_vm_where_defined": agree_v,
                                              "equal_to_machine_grow": agree_w}
    return len(seqs), fails


def run(ck):
    ck.level = "other"
    have_props = os.path.exists(os.path.join(COQ, "theories", "Props", "C18.v"))
    proved = True
    if have_props:
        proved = ck.prove(tables=["rustrt_template"], extra_targets=[lmmm.EXTRACT_TARGET])
    mexe, vexe = build_sides(ck)
    rc, out, bindir = cargo_build("lang", ["rustgen_run"], hooks=True)
    if rc != 0 or vexe is None:
        ck.broken.append("harness-build: " + out[-800:])
        ck.violation("harness (rustgen_run / lmmm_run) does not build against /repo", {"broken": ck.broken}, no_input=True)
        return finish(ck)
    rexe = os.path.join(bindir, "rustgen_run")
    shutil.rmtree(SCRATCH, ignore_errors=True)
    os.makedirs(SCRATCH, exist_ok=True)
    # scratch directories of earlier runs (kept for their replay files) are removed after three hours
    for d in glob.glob(os.path.join(CACHE, "rustgen", "*")):
        try:
            if d != SCRATCH and time.time() - os.path.getmtime(d) > 3 * 3600:
                shutil.rmtree(d, ignore_errors=True) if os.path.isdir(d) else os.remove(d)
        except OSError:
            pass
    quick = ck.tier == "quick"
    prim_fails = []
    rp0 = json.load(open(ck.replay))["replay"] if ck.replay else {}
    if have_props:
        pt = template_prims_test(ck, 400 if quick else 6000, extra=[rp0] if "ops" in rp0 else [])
        if pt is None:
            ck.violation("the primitive-level test (extracted RustRt model / machine) cannot be built", {"broken": ck.broken}, no_input=True)
        else:
            prim_fails = pt[1]
    for what, rp in prim_fails[:3]:
        ck.violation(what, rp)
    # ---- the runtime of generated Rust as the third implementation of the runtime-primitive contract (Props/C18_rt.v, checks/rtpl_part.py)
    for what, rp in rtpl_part.run_part(ck, quick)[:6]:
        ck.violation(what, {k: v for k, v in rp.items() if k != "no_input"}, no_input=bool(rp.get("no_input")))
    n_gen, n_samples = (450, 16) if quick else (8000, 48)
    n_x = 450 if quick else 8000
    findings = {f["id"]: f for f in known_findings("C18")}
    methods = scaffold_methods()

    cases = []
    if ck.replay and "source" in rp0:
        rp = rp0
        c = mk_case("replay", "replay", rp["source"], rp["n_samples"], inputs=rp.get("inputs"), plugins=rp.get("plugins", "none"),
                    sched=rp.get("plugins") == "sched", path=rp.get("path"))
        if rp.get("input_bits"):
            c["input_bits"] = rp["input_bits"]
        cases.append(c)
    fixtures = fixture_cases()
    cases += (fixtures + corpus_cases() + name_cases(ck, quick) + probe_cases() + lmmm_cases(ck, n_gen, n_samples)
              + xgen_cases(ck, n_x, 12 if quick else 32) + sibling_closure_cases(ck, 60 if quick else 800, 8))

    ast_idx = [i for i, c in enumerate(cases) if c["prog"] is not None]
    mres = {}
    if mexe:
        for i, m in zip(ast_idx, run_model(mexe, [(cases[i]["prog"], cases[i]["rows"]) for i in ast_idx])):
            mres[i] = m
    t1 = time.time()
    vres = run_impl(vexe, vm_requests(cases))
    t2 = time.time()
    rres = run_impl(rexe, rust_requests(cases), shards=NPROC)
    ck.coverage["phase_seconds"] = {"setup_and_model": round(t1 - ck.t0, 1), "vm": round(t2 - t1, 1), "emit_rustc_run": round(time.time() - t2, 1)}

    stats, feats, viol, harness_err = {}, {}, [], []
    def bump(k, n=1): stats[k] = stats.get(k, 0) + n
    distinct = set()
    rustc_ms = []
    for i, c in enumerate(cases):
        R = rust_status(rres[i])
        if rres[i] and (rres[i].get("rustc") or {}).get("ms"):
            rustc_ms.append(rres[i]["rustc"]["ms"])
        vr = vres[i] or {}
        if 'crash' in vr:
            V = {"st": "panic", "samples": [], "msg": "VM process died: %s" % vr['crash']}
            W = {"st": "absent", "samples": [], "msg": ""}
        else:
            V, W = backend_status(vr.get("vm")), backend_status(vr.get("wasm"))
        ref_bits = None
        m = mres.get(i)
        if m and not m.get('big') and m.get('compiled') and m.get('ref') is not None:
            if all(abs(v) < 2 ** 53 for row in m['ref'] for v in row):
                ref_bits = [[fbits_of(v) for v in row] for row in m['ref']]
        verdict = judge(c, R, V, W, ref_bits, findings, methods)
        bump("%s:%s" % (c["kind"], verdict[0] if verdict[0] != "ok" else verdict[1]))
        if c["prog"] is not None:
            for k, v in features(c["prog"]).items():
                feats[k] = feats.get(k, 0) + v
        if verdict[0] == "ok":
            if verdict[1] == "rust_eq_vm":
                distinct.add(c["src"])
                if ref_bits is not None and not c["cls"]:
                    # the reference semantics computes over integers: it cannot tell -0.0 from 0.0
                    unz = lambda rows: [["0000000000000000" if h == "8000000000000000" else h for h in row] for row in rows]
                    bump("three_way_equal" if unz(ref_bits) == unz(R["samples"]) else "rust_eq_vm_but_not_reference(see C02)")
                if c["kind"] == "fixture" and c.get("expected") is not None:
                    got = [bits_to_float(h) for row in R["samples"] for h in row]
                    exp = c["expected"]
                    if len(got) != len(exp) or any(abs(a - b) > c["tol"] for a, b in zip(got, exp)):
                        viol.append(("fixture %s: generated Rust output differs from the fixture's @test expectation" % c["name"], i,
                                     {"got": got[:8], "expected": exp[:8]}))
                    else:
                        bump("fixture_matches_its_@test_expectation")
        elif verdict[0] == "known":
            ck.known(findings[verdict[1]], verdict[2])
            bump("known_" + verdict[1])
        elif verdict[0] == "harness":
            harness_err.append((verdict[1], i))
        else:
            viol.append((verdict[1], i, verdict[2]))

    # ---- failures outside the syntactic classes: do they belong to a class confirmed by rewriting / by the WASM runtime? ----
    if viol:
        cand = []   # (violation case index, ids rewritten, rewritten case)
        for what, i, det in viol:
            c = cases[i]
            if c["kind"] == "probe":
                continue
            ids = [fid for fid, pred, rw in REWRITE_CLASSES if fid in findings and pred(c["src"])]
            subsets = [[fid] for fid in ids] + ([ids] if len(ids) > 1 else [])
            f26 = "F26" in findings and assigned_captured_local(c["src"])
            f28 = "F28" in findings and stateful_call_at_global_scope(c["src"])
            if f26 or f28 or ("F21" in findings and uses_missing_builtin(c["src"])):
                subsets = [[]] + subsets
            for sub in subsets:
                src2 = c["src"]
                for fid, pred, rw in REWRITE_CLASSES:
                    if fid in sub:
                        src2 = rw(src2)
                # (a non-empty class makes vm_requests add the WASM backend)
                c2 = dict(c, src=src2, prog=None, cls=({"F26"} if f26 else set()) | ({"F28"} if f28 else set()))
                cand.append((i, sub, c2))
        cleared = {}
        if cand:
            cs = [x[2] for x in cand]
            rr = run_impl(rexe, rust_requests(cs), shards=NPROC)
            vv = run_impl(vexe, vm_requests(cs))
            for (i, sub, c2), a, b in zip(cand, rr, vv):
                R2 = rust_status(a)
                dead = {"st": "panic", "samples": [], "msg": ""}
                V2 = backend_status((b or {}).get("vm")) if b and 'crash' not in b else dead
                W2 = backend_status((b or {}).get("wasm")) if b and 'crash' not in b else dead
                full = R2["st"] == "ok" and len(R2["samples"]) == c2["n"]
                ids = None
                if full and V2["st"] == "ok" and R2["samples"] == V2["samples"]:
                    ids = list(sub)
                elif full and "F26" in c2["cls"] and W2["st"] == "ok" and R2["samples"] == W2["samples"]:
                    ids = list(sub) + ["F26"]
                elif full and "F28" in c2["cls"] and V2["st"] == "ok" and W2["st"] == "ok" and V2["samples"] == W2["samples"]:
                    # both real backends run the global initialiser on dsp's own state storage and agree with each other
                    ids = list(sub) + ["F28"]
                else:
                    v2 = judge(dict(c2, cls=set()), R2, V2, W2, None, findings, methods)
                    if v2[0] == "known" and v2[1] == "F21":
                        ids = list(sub) + ["F21"]
                if ids and (i not in cleared or len(ids) < len(cleared[i])):
                    cleared[i] = ids
        keep = []
        for what, i, det in viol:
            if cleared.get(i):
                for fid in cleared[i]:
                    ck.known(findings[fid], cases[i]["src"].replace("\n", " ")[:150] + " -> " + what[:140])
                    bump("known_" + fid)
                bump("%s:known_by_rewrite_or_wasm" % cases[i]["kind"])
                stats["%s:viol" % cases[i]["kind"]] -= 1
            else:
                keep.append((what, i, det))
        viol = keep
    # ---- shrink the first violations (same failure signature) ----
    shrunk = {}
    for what, i, det in viol[:2]:
        c = cases[i]
        if c["kind"] in ("fixture", "probe") or c["path"]:
            continue
        R = rust_status(rres[i])
        V = backend_status((vres[i] or {}).get("vm")) if vres[i] and 'crash' not in vres[i] else {"st": "panic", "samples": [], "msg": ""}
        sig = failure_signature(R, V)
        if sig:
            try:
                small, rounds = shrink(c, sig, rexe, vexe, budget_s=45 if quick else 120)
                if rounds:
                    shrunk[i] = small
            except Exception as ex:   # shrinking is best effort
                log("shrink failed: %s" % ex)

    ck.coverage["evaluations"] = len(cases)
    ck.coverage["distinct_nontrivial"] = len(distinct)
    ck.coverage["samples_per_generated_program"] = n_samples
    ck.coverage["fixtures_run"] = len(fixtures)
    ck.coverage["stats"] = dict(sorted(stats.items()))
    ck.coverage["feature_totals_generated"] = feats
    if rustc_ms:
        ck.coverage["rustc_ms_median"] = sorted(rustc_ms)[len(rustc_ms) // 2]
    gen_idx = [i for i, c in enumerate(cases) if c["kind"] == "gen"]
    for i in ([gen_idx[0], gen_idx[len(gen_idx) // 2], gen_idx[-1]] if gen_idx else []) + [0]:
        c = cases[i]
        ck.sample({"kind": c["kind"], "name": c["name"], "source": c["src"][:600], "rust_first_4": rust_status(rres[i])["samples"][:4],
                   "classes": sorted(c["cls"])})
    for what, i, det in viol[:6]:
        c = cases[i]
        ck.violation(what, {"source": c["src"], "n_samples": c["n"], "inputs": c["inputs"], "input_bits": c.get("input_bits"),
                            "plugins": c["plugins"], "path": c["path"], "kind": c["kind"], "name": c["name"],
                            "classes": sorted(c["cls"]), **det, **({"shrunk_source": shrunk[i]} if i in shrunk else {}),
                            "how": "./check C18 --replay <this file>  (or: echo '{\"src\":<source>,\"n\":N,\"keep\":true}' | "
                                   ".cache/target/lang/debug/rustgen_run ; same request to lmmm_run for the VM)"})
    if len(viol) > 6:
        ck.coverage["violations_not_printed"] = len(viol) - 6
    if viol:
        ck.coverage["violation_summaries"] = [(cases[i]["name"], what[:160]) for what, i, det in viol[:40]]
    if harness_err and not viol:
        ck.broken.append("rustc could not be launched / scratch dir not writable: " + harness_err[0][0])
        ck.violation("the rustc pipeline of the harness is broken", {"detail": harness_err[0][0], "count": len(harness_err)}, no_input=True)
    if not proved and not viol and not prim_fails:
        ck.violation("a proof obligation of Props/C18.v (template primitives = machine primitives) no longer checks",
                     {"broken": ck.broken}, no_input=True)
    return finish(ck)


def finish(ck):
    ck.finish(
        explanation=("Partial (level other). PROVED in Coq (Props/C18.v, closed under the global context): the state primitives of the runtime "
                     "scaffold every generated program embeds (mimium_placeholder.rs.template `impl StateStorage`: push_pos pop_pos get_state "
                     "set_state mem delay; transcribed to RustRt/Model.v, pinned to the template's current text and layout numbers by "
                     "translators/rustrt_template.py) return the same word and leave the same words and cursor as the primitives of the cursor "
                     "machine Lmmm/Machine.v, for single operations and for whole operation sequences, wherever the VM discipline is defined "
                     "(C18_template_prim_agrees_vm, C18_template_prims_agree), and coincide with the machine's grow-on-demand discipline "
                     "everywhere (C18_template_prim_agrees_grow, ring buffers of length 0 excepted). The transcription itself is validated by "
                     "compiling the template's real StateStorage stand-alone and driving it, the extracted transcription and the extracted machine "
                     "with the same random primitive sequences. COMPARED, NOT PROVED: everything else - rustgen.rs (MIR -> Rust lowering, ABI, "
                     "closures, aggregates, arrays) is not modelled. The shipped fixtures of rust_codegen_test.rs, a pool of function names, "
                     "generated first-order programs (Lmmm generator) and generated programs with closures / higher-order functions / tuples / "
                     "records / sum types / match / arrays / recursion / non-integer arithmetic (second generator) are emitted with "
                     "Context::emit_rust, compiled with rustc and run; clause (a) every accepted program compiles, (b) every output sample equals "
                     "the real VM's bit for bit (first-order programs also against the extracted reference semantics), (c) plugin-dependent "
                     "programs are refused at emit time or by a run-time error naming the external. Failures inside the listed classes "
                     "(KNOWN_FINDINGS C18: F20 F21 F22 F23 F24 F26 F27 F28) are reported as known findings only when they show the known "
                     "symptom (for F23/F24: the failure disappears under the semantics-preserving rewrite of exactly that construct; for F26: "
                     "generated Rust equals the WASM runtime; for F28: VM and WASM agree with each other); anything else is a violation and is shrunk."),
        trusted_base=["rustc 2024 edition (the repo's own recipe: rustc --edition=2024 <generated source + mimium_test_main.rs.template>)",
                      "harness/lang rustgen_run (host: current_time = sample index, sample_rate = 48000, every external refused) and lmmm_run",
                      "lib/lmmm.py generator and pretty-printer; the second generator and the text-level rewrites in checks/C18.py",
                      "Coq 8.16.1 kernel, extraction (ExtrOcamlBasic/ExtrOcamlString), ocaml/lmmm_drv.ml (reference semantics), ocaml/rustrt_drv.ml",
                      "translators/rustrt_template.py (normalised-text pin of the template's primitives); abstraction of state words as integers "
                      "(data words = integer-valued f64, ring indices raw) shared with Lmmm/Machine.v; usize saturation at 2^64-1 excluded by `fits`"],
        rule=("fixtures of rust_codegen_test.rs first; corpus/C18 witnesses; function-name pool (Rust keywords, scaffold method names, controls); "
              "plugin probes; type-directed Lmmm generator (1 case in 8 allows stateful constructs in `if` arms); second typed generator "
              "(1 case in 16 uses the math built-ins of class F21); structured primitive-op sequences for the template test; "
              "distinct_nontrivial = distinct sources whose generated Rust ran and equalled the VM at every sample"))
