"""C18 — generated Rust code behaves like the VM.

P: Props/C18.v: C18_template_prims_agree (+ per-primitive theorems): the state primitives of the Rust runtime scaffold
   (mimium_placeholder.rs.template: StateStorage::{push_pos,pop_pos,get_state,set_state,mem,delay}), transcribed into Gallina
   (RustRt/Model.v; translators/rustrt_template.py fails when the template's primitive bodies change), compute the same result,
   words and cursor as the primitives of the cursor machine Lmmm/Machine.v (the model of the VM that C02/C05 tie to the real VM).
   rustgen.rs itself is NOT modelled.
C: three-way comparison on generated core programs without plugin calls:
     Context::emit_rust -> rustc --edition=2024 -> run   vs   the real VM (lmmm_run)   vs   extracted reference semantics (Lmmm/Ref.v);
   the fixtures rust_codegen_test.rs runs are the validation corpus (run first).
S: the property's clauses evaluated directly on the implementation's answers:
   (a) every program emit_rust accepts compiles with rustc, (b) its outputs equal the VM's bit for bit at every sample,
   (c) programs that need plugin externals are refused (at emit time, or by a run-time error naming the external) - never Rust that
       fails to build, never different samples.
"""
import glob, json, os, re, shutil, struct
from vplib import *
import lmmm
from lmmm import *

OCAML = lmmm.OCAML
HARNESS = [("lang", ["lmmm_run", "rustgen_run"], True)]
SCRATCH = os.path.join(CACHE, "rustgen")
FIXDIR = os.path.join(REPO, "crates/lib/mimium-test/tests/mmm")
TEMPLATE = os.path.join(REPO, "crates/lib/mimium-lang/src/compiler/mimium_placeholder.rs.template")

# ---------------------------------------------------------------------------------------------------------
# class predicates of the known findings of C18
# ---------------------------------------------------------------------------------------------------------
RAW_UNESCAPABLE = {"gen", "crate", "super", "Self"}   # `gen` is missing from rustgen's keyword list; the other three cannot be r#raw


def scaffold_methods():
    """names of the methods of `impl MimiumProgram` in the runtime scaffold + the ones rustgen always adds"""
    try:
        txt = open(TEMPLATE).read()
    except OSError:
        return set()
    i = txt.find("impl MimiumProgram<PanicHost>")
    names = set(re.findall(r"^\s*(?:pub\s+)?fn\s+(\w+)\s*[<(]", txt[i:], re.M)) if i >= 0 else set()
    return names | {"call_dsp", "call_main"}


def fn_names_of_source(src):
    return re.findall(r"\bfn\s+([A-Za-z_][A-Za-z0-9_]*)\s*\(", src)


def name_clash(src, methods=None):
    """class predicate of finding F20: a mimium function whose name is a Rust 2024 keyword that rustgen does not (or cannot) escape,
    or equals a method of the generated `impl MimiumProgram` (scaffold methods, call_dsp/call_main, dispatch_<other function>)"""
    methods = methods if methods is not None else scaffold_methods()
    names = fn_names_of_source(src)
    for n in names:
        if n in RAW_UNESCAPABLE or n in methods:
            return True
        if n.startswith("dispatch_") and n[len("dispatch_"):] in names:
            return True
    return False


# ---------------------------------------------------------------------------------------------------------
# answers -> uniform status records
# ---------------------------------------------------------------------------------------------------------
def fbits_of(v):
    return struct.pack(">d", float(v)).hex()


def rust_status(a):
    """{'st': crash|refused|emit_panic|rustc|run|ok, 'samples': [[bits]], 'msg': str}"""
    if a is None or 'crash' in a:
        return {"st": "crash", "samples": [], "msg": "rustgen_run died: %s" % (a or {}).get('crash')}
    e = a.get("emit")
    if isinstance(e, dict) and "refused" in e:
        return {"st": "refused", "samples": [], "msg": "; ".join(dict.fromkeys(e["refused"]))[:300]}
    if isinstance(e, dict):
        return {"st": "emit_panic", "samples": [], "msg": str(e.get("panic"))[:300]}
    rc = a.get("rustc") or {}
    if not rc.get("ok"):
        return {"st": "harness" if rc.get("io_error") else "rustc", "samples": [], "msg": rc.get("stderr", "")[:1200], "file": a.get("file")}
    run = a.get("run") or {}
    samples = a.get("samples") or []
    if run.get("rc") != 0 or run.get("err"):
        msg = run.get("err") or ""
        m = re.search(r"panicked at [^\n]*\n([^\n]*)", run.get("stderr") or "")
        if m:
            msg = (msg + " " + m.group(1)).strip()
        return {"st": "run", "samples": samples, "msg": ("rc=%s %s" % (run.get("rc"), msg))[:300], "file": a.get("file")}
    return {"st": "ok", "samples": samples, "msg": ""}


def backend_status(b):
    """{'st': absent|compile|compile_panic|panic|ok, 'samples': [[bits]] (prefix before a panic), 'msg'}"""
    if b is None:
        return {"st": "absent", "samples": [], "msg": ""}
    if 'samples' not in b:
        if 'compile_panic' in b:
            return {"st": "compile_panic", "samples": [], "msg": str(b['compile_panic'])[:200]}
        return {"st": "compile", "samples": [], "msg": "; ".join(dict.fromkeys(b.get('compile') or []))[:300]}
    out = []
    for s in b['samples']:
        if 'panic' in s:
            return {"st": "panic", "samples": out, "msg": str(s['panic'])[:200]}
        out.append(s['out'])
    return {"st": "ok", "samples": out, "msg": ""}


def first_diff(a, b):
    for t in range(max(len(a), len(b))):
        x = a[t] if t < len(a) else None
        y = b[t] if t < len(b) else None
        if x != y:
            return t, x, y
    return None


def show(bits):
    if bits is None:
        return "nothing"
    return "[" + ", ".join("NaN" if h == "NaN" else repr(bits_to_float(h)) for h in bits) + "]"


# ---------------------------------------------------------------------------------------------------------
# case construction
# ---------------------------------------------------------------------------------------------------------
def mk_case(kind, name, src, n, inputs=None, prog=None, path=None, plugins="none", sched=False, cls=()):
    return {"kind": kind, "name": name, "src": src, "n": n, "inputs": inputs, "prog": prog, "path": path,
            "plugins": plugins, "sched": sched, "cls": set(cls)}


def fixture_cases():
    """the shipped fixtures that rust_codegen_test.rs::run_all_annotated_fixtures_via_rust_codegen runs
    (annotated with `// @test`, not plugin-backed, not parser_combinators.mmm)"""
    out = []
    for f in sorted(glob.glob(os.path.join(FIXDIR, "*.mmm"))):
        src = open(f).read()
        meta = [l.strip() for l in src.split("\n")[:8] if l.strip().startswith("// @test ")]
        if not meta:
            continue
        try:
            spec = json.loads(meta[0][len("// @test "):])
        except ValueError:
            continue
        name = os.path.basename(f)
        if name == "parser_combinators.mmm" or spec.get("plugins"):
            continue
        c = mk_case("fixture", name, src, int(spec["times"]), path=f, sched=True)
        c["expected"] = spec.get("expected")
        c["tol"] = spec.get("tol") or 1e-12
        out.append(c)
    return out


RUST_KEYWORDS = ("as break const continue crate else enum extern false fn for if impl in let loop match mod move mut pub ref return "
                 "Self static struct super trait true type unsafe use where while async await dyn abstract become box do final macro "
                 "override priv typeof unsized virtual yield try gen union macro_rules raw safe").split()
HARMLESS_NAMES = ("foo counter Word truthy vec Vec String Some None Ok Err u64 f64 std core println main_ dsp_ state args result "
                  "program host memory closures arrays strings globals StateStorage MimiumProgram f64_to_word copy_words bb reg_1 "
                  "arg_0 call_result call_args words").split()


def name_cases(ck, quick):
    """functions named after Rust keywords / scaffold methods / harmless controls: two shapes each"""
    methods = sorted(scaffold_methods())
    pool = RUST_KEYWORDS + methods + ["dispatch_dsp", "dispatch_helper"] + HARMLESS_NAMES
    out = []
    for i, nm in enumerate(pool):
        if i % 2 == 0 or not quick:
            src = "fn %s(x){\n  self + x\n}\nfn dsp(){\n  %s(2.0)\n}\n" % (nm, nm)
        else:
            src = "fn helper(y){\n  y * 2.0\n}\nfn %s(x){\n  mem(x) + helper(x)\n}\nfn dsp(){\n  %s(now)\n}\n" % (nm, nm)
        out.append(mk_case("names", "fn-name:" + nm, src, 4))
    return out


PROBES = [
    ("sched", "fn tick(){ 1.0 }\nfn dsp(){\n  _mimium_schedule_at(now+1.0, tick)\n  1.0\n}\n"),
    ("sched", "let c = 0.0\nfn upd(){\n  c = c + 1.0\n  upd@(now+2.0)\n}\nupd@1.0\nfn dsp(){ c }\n"),
    ("sched", "fn dsp(){ Probe!(\"a\")(1.0) }\n"),
    ("sched", "fn dsp(){ Slider!(\"a\",0.5,0.0,1.0) }\n"),
    ("none", "fn upd(){ upd@(now+2.0) }\nfn dsp(){ 0.0 }\n"),
    ("none", "fn dsp(){ _mimium_schedule_at(1.0, | |{ 0.0 }) \n 1.0 }\n"),
]


def probe_cases():
    out = []
    for i, (pl, src) in enumerate(PROBES):
        out.append(mk_case("probe", "probe%d" % i, src, 6, plugins=pl, sched=(pl == "sched")))
    for f in sorted(glob.glob(os.path.join(FIXDIR, "*.mmm"))):
        src = open(f).read()
        name = os.path.basename(f)
        meta = [l.strip() for l in src.split("\n")[:8] if l.strip().startswith("// @test ")]
        plug = False
        if meta:
            try:
                plug = bool(json.loads(meta[0][len("// @test "):]).get("plugins"))
            except ValueError:
                pass
        if plug or name.startswith("scheduler"):
            out.append(mk_case("probe", name, src, 8, path=f, plugins="sched", sched=True))
    return out


def corpus_cases():
    out = []
    p = os.path.join(VERIF, "corpus", "C18", "cases.jsonl")
    if os.path.exists(p):
        for line in open(p):
            line = line.strip()
            if not line or line.startswith("#"):
                continue
            j = json.loads(line)
            out.append(mk_case("corpus", j["name"], j["src"], j["n"], inputs=j.get("inputs")))
            if j.get("input_bits"):
                out[-1]["input_bits"] = j["input_bits"]
    return out


def lmmm_cases(ck, n_cases, n_samples):
    out = []
    for i, (p, rows) in enumerate(load_corpus("lmmm") + gen_cases(ck, n_cases, n_samples, tag="C18")):
        c = mk_case("gen", "gen%d" % i, pp_prog(p), len(rows), inputs=[[float(v) for v in r] for r in rows] if p['inputs'] else None,
                    prog=p, cls=classes_of(p))
        c["rows"] = rows
        out.append(c)
    return out


# ---------------------------------------------------------------------------------------------------------
# running
# ---------------------------------------------------------------------------------------------------------
def vm_requests(cases):
    reqs, n_iso = [], 0
    for c in cases:
        r = {"src": c["src"], "n": c["n"], "state": False, "sched": c["sched"], "backends": ["vm"]}
        if c["inputs"]:
            r["inputs"] = c["inputs"]
        if c["path"]:
            r["path"] = c["path"]
        if c["cls"]:
            r["backends"] = ["vm", "wasm"]
        if "F3" in c["cls"]:
            # class F3 corrupts the VM's heap: the first few run alone in their own process, the rest on WASM only
            if n_iso < 10:
                n_iso += 1
                r["isolate"] = True
            else:
                r["backends"] = ["wasm"]
        reqs.append(r)
    return reqs


def rust_requests(cases):
    reqs = []
    for c in cases:
        r = {"src": c["src"], "n": c["n"], "plugins": c["plugins"], "dir": SCRATCH}
        if c["inputs"]:
            r["inputs"] = c["inputs"]
        if c.get("input_bits"):
            r["input_bits"] = c["input_bits"]
        if c["path"]:
            r["path"] = c["path"]
        reqs.append(r)
    return reqs


# ---------------------------------------------------------------------------------------------------------
# judging one case: returns ('ok', tag) | ('known', finding_id, detail) | ('viol', what, detail)
# ---------------------------------------------------------------------------------------------------------
def judge(c, R, V, W, ref_bits, findings, methods):
    n = c["n"]
    src1 = c["src"].replace("\n", " ")[:150]
    clash = name_clash(c["src"], methods)

    def fail(what, **det):
        """a failure: known when it lies in a known class and shows the known symptom, else a violation"""
        return ("viol", what, det)

    if R["st"] == "crash":
        return fail("emit_rust kills the process (abort / stack overflow) on: " + R["msg"])
    if R["st"] == "harness":
        return ("harness", R["msg"], {})
    if R["st"] in ("refused", "emit_panic"):
        if V["st"] == "compile":
            return ("ok", "both_refuse")
        if V["st"] == "compile_panic" and R["st"] == "emit_panic":
            return ("ok", "both_panic_at_compile")
        if c["kind"] == "probe":
            return ("ok", "probe_refused_at_emit")
        return fail("emit_rust %s a program of the core language that the VM %s: %s" % (
            "refuses" if R["st"] == "refused" else "panics on", "runs" if V["st"] in ("ok", "panic") else V["st"], R["msg"]))
    if R["st"] == "rustc":
        if clash and "F20" in findings:
            return ("known", "F20", src1 + " -> " + R["msg"].split("\n")[0][:120])
        return fail("emit_rust accepted the program but the generated Rust does not compile: " + R["msg"].split("\n")[0][:200],
                    rustc_stderr=R["msg"], generated_file=R.get("file"))
    # the generated program was built and run
    if c["kind"] == "probe":
        if R["st"] == "run" and re.search(r"external", R["msg"]):
            return ("ok", "probe_refused_at_run_naming_the_external")
        if R["st"] == "ok" and V["st"] == "ok" and R["samples"] == V["samples"]:
            return ("ok", "probe_supported_and_equal")
        return fail("a plugin-dependent program is neither refused nor equal to the VM: rust %s %s vs vm %s" % (
            R["st"], R["msg"], V["st"]), rust=R["samples"][:4], vm=V["samples"][:4])
    full_R = R["st"] == "ok" and len(R["samples"]) == n
    if V["st"] == "ok" and full_R and R["samples"] == V["samples"]:
        return ("ok", "rust_eq_vm")
    # some difference: describe it
    if V["st"] in ("ok", "panic") and (R["samples"] != V["samples"][:len(R["samples"])] or (R["st"] == "ok" and V["st"] == "ok")):
        d = first_diff(R["samples"], V["samples"])
        why = "output at sample %d: generated Rust gives %s, the VM gives %s" % (d[0], show(d[1]), show(d[2])) if d else "lengths differ"
    elif R["st"] == "run":
        why = "the generated program fails at sample %d (%s); the VM %s" % (
            len(R["samples"]), R["msg"], "runs on" if V["st"] == "ok" else V["st"] + " " + V["msg"])
    else:
        why = "the VM %s (%s) where the generated Rust runs" % (V["st"], V["msg"])
    hits = [k for k in ("F2", "F3", "F13") if k in c["cls"] and k in findings]
    if hits:
        # known defects of the VM / of the shared MIR lowering: the oracle is the reference semantics, else the WASM runtime
        if full_R and ref_bits is not None and R["samples"] == ref_bits:
            return ("known", hits[0], src1 + " -> rust = reference semantics; " + why[:120])
        if full_R and W["st"] == "ok" and R["samples"] == W["samples"]:
            return ("known", hits[0], src1 + " -> rust = WASM; " + why[:120])
        if "F2" in hits and V["st"] == "panic" and R["st"] == "run" and R["samples"] == V["samples"]:
            return ("known", "F2", src1 + " -> both stop at sample %d" % len(R["samples"]))
        if V["st"] == "absent" and W["st"] == "ok" and full_R and R["samples"] == W["samples"]:
            return ("ok", "rust_eq_wasm_vm_skipped")
        return fail(why + " (program in class %s, but the generated Rust equals neither the reference semantics nor WASM)" % "/".join(hits),
                    wasm=W["samples"][:6] if W["st"] == "ok" else W["st"], reference=ref_bits[:6] if ref_bits else None)
    if V["st"] == "absent":
        return ("ok", "vm_not_run")
    return fail(why, rust_first=R["samples"][:6], vm_first=V["samples"][:6])


def run(ck):
    ck.level = "other"
    have_props = os.path.exists(os.path.join(COQ, "theories", "Props", "C18.v"))
    proved = True
    if have_props:
        proved = ck.prove(tables=["rustrt_template"], extra_targets=[lmmm.EXTRACT_TARGET])
    mexe, vexe = build_sides(ck)
    rc, out, bindir = cargo_build("lang", ["rustgen_run"], hooks=True)
    if rc != 0 or vexe is None:
        ck.broken.append("harness-build: " + out[-800:])
        ck.violation("harness (rustgen_run / lmmm_run) does not build against /repo", {"broken": ck.broken}, no_input=True)
        return finish(ck)
    rexe = os.path.join(bindir, "rustgen_run")
    shutil.rmtree(SCRATCH, ignore_errors=True)
    os.makedirs(SCRATCH, exist_ok=True)
    quick = ck.tier == "quick"
    n_gen, n_samples = (700, 16) if quick else (9000, 48)
    findings = {f["id"]: f for f in known_findings("C18")}
    methods = scaffold_methods()

    cases = []
    if ck.replay:
        rp = json.load(open(ck.replay))["replay"]
        c = mk_case("replay", "replay", rp["source"], rp["n_samples"], inputs=rp.get("inputs"), plugins=rp.get("plugins", "none"),
                    sched=rp.get("plugins") == "sched", path=rp.get("path"))
        if rp.get("input_bits"):
            c["input_bits"] = rp["input_bits"]
        cases.append(c)
    fixtures = fixture_cases()
    cases += fixtures + corpus_cases() + name_cases(ck, quick) + probe_cases() + lmmm_cases(ck, n_gen, n_samples)

    ast_idx = [i for i, c in enumerate(cases) if c["prog"] is not None]
    mres = {}
    if mexe:
        for i, m in zip(ast_idx, run_model(mexe, [(cases[i]["prog"], cases[i]["rows"]) for i in ast_idx])):
            mres[i] = m
    vres = run_impl(vexe, vm_requests(cases))
    rres = run_impl(rexe, rust_requests(cases), shards=NPROC)

    stats, feats, viol, harness_err = {}, {}, [], []
    def bump(k, n=1): stats[k] = stats.get(k, 0) + n
    distinct = set()
    rustc_ms = []
    for i, c in enumerate(cases):
        R = rust_status(rres[i])
        if rres[i] and (rres[i].get("rustc") or {}).get("ms"):
            rustc_ms.append(rres[i]["rustc"]["ms"])
        vr = vres[i] or {}
        if 'crash' in vr:
            V = {"st": "panic", "samples": [], "msg": "VM process died: %s" % vr['crash']}
            W = {"st": "absent", "samples": [], "msg": ""}
        else:
            V, W = backend_status(vr.get("vm")), backend_status(vr.get("wasm"))
        ref_bits = None
        m = mres.get(i)
        if m and not m.get('big') and m.get('compiled') and m.get('ref') is not None:
            if all(abs(v) < 2 ** 53 for row in m['ref'] for v in row):
                ref_bits = [[fbits_of(v) for v in row] for row in m['ref']]
        verdict = judge(c, R, V, W, ref_bits, findings, methods)
        bump("%s:%s" % (c["kind"], verdict[0] if verdict[0] != "ok" else verdict[1]))
        if c["prog"] is not None:
            for k, v in features(c["prog"]).items():
                feats[k] = feats.get(k, 0) + v
        if verdict[0] == "ok":
            if verdict[1] == "rust_eq_vm":
                distinct.add(c["src"])
                if ref_bits is not None and not c["cls"]:
                    bump("three_way_equal" if ref_bits == R["samples"] else "rust_eq_vm_but_not_reference(see C02)")
                if c["kind"] == "fixture" and c.get("expected") is not None:
                    got = [bits_to_float(h) for row in R["samples"] for h in row]
                    exp = c["expected"]
                    if len(got) != len(exp) or any(abs(a - b) > c["tol"] for a, b in zip(got, exp)):
                        viol.append(("fixture %s: generated Rust output differs from the fixture's @test expectation" % c["name"], i,
                                     {"got": got[:8], "expected": exp[:8]}))
                    else:
                        bump("fixture_matches_its_@test_expectation")
        elif verdict[0] == "known":
            ck.known(findings[verdict[1]], verdict[2])
            bump("known_" + verdict[1])
        elif verdict[0] == "harness":
            harness_err.append((verdict[1], i))
        else:
            viol.append((verdict[1], i, verdict[2]))

    ck.coverage["evaluations"] = len(cases)
    ck.coverage["distinct_nontrivial"] = len(distinct)
    ck.coverage["samples_per_generated_program"] = n_samples
    ck.coverage["fixtures_run"] = len(fixtures)
    ck.coverage["stats"] = dict(sorted(stats.items()))
    ck.coverage["feature_totals_generated"] = feats
    ck.coverage["classes_generated"] = {k: sum(1 for c in cases if k in c["cls"]) for k in ("F2", "F3", "F13")}
    if rustc_ms:
        ck.coverage["rustc_ms_median"] = sorted(rustc_ms)[len(rustc_ms) // 2]
    gen_idx = [i for i, c in enumerate(cases) if c["kind"] == "gen"]
    for i in ([gen_idx[0], gen_idx[len(gen_idx) // 2], gen_idx[-1]] if gen_idx else []) + [0]:
        c = cases[i]
        ck.sample({"kind": c["kind"], "name": c["name"], "source": c["src"][:600], "rust_first_4": rust_status(rres[i])["samples"][:4],
                   "classes": sorted(c["cls"])})
    for what, i, det in viol[:6]:
        c = cases[i]
        ck.violation(what, {"source": c["src"], "n_samples": c["n"], "inputs": c["inputs"], "input_bits": c.get("input_bits"),
                            "plugins": c["plugins"], "path": c["path"], "kind": c["kind"], "name": c["name"],
                            "classes": sorted(c["cls"]), **det,
                            "how": "./check C18 --replay <this file>  (or: echo '{\"src\":<source>,\"n\":N,\"keep\":true}' | "
                                   ".cache/target/lang/debug/rustgen_run ; same request to lmmm_run for the VM)"})
    if len(viol) > 6:
        ck.coverage["violations_not_printed"] = len(viol) - 6
    if harness_err and not viol:
        ck.broken.append("rustc could not be launched / scratch dir not writable: " + harness_err[0][0])
        ck.violation("the rustc pipeline of the harness is broken", {"detail": harness_err[0][0], "count": len(harness_err)}, no_input=True)
    if not proved and not viol:
        ck.violation("a proof obligation of Props/C18.v (template primitives = machine primitives) no longer checks",
                     {"broken": ck.broken}, no_input=True)
    return finish(ck)


def finish(ck):
    ck.finish(
        explanation=("Partial. PROVED in Coq: the state primitives of the generated program's runtime scaffold (StateStorage push_pos/pop_pos/"
                     "get_state/set_state/mem/delay of mimium_placeholder.rs.template, transcribed to RustRt/Model.v and pinned to the template "
                     "text by translators/rustrt_template.py) agree with the cursor machine's primitives of Lmmm/Machine.v wherever the VM "
                     "discipline is defined. COMPARED (not proved): everything else - rustgen.rs is not modelled; generated core programs and the "
                     "shipped fixtures are emitted, compiled with rustc and run, and every output sample is compared bit for bit with the real VM "
                     "and with the extracted reference semantics; programs in the classes of the known VM/MIR defects F2/F3/F13 are compared with "
                     "the reference semantics / WASM instead. Plugin-dependent programs must be refused (at emit time or by a run-time error naming "
                     "the external)."),
        trusted_base=["rustc 2024 edition (the repo's own recipe: rustc --edition=2024 <generated source + mimium_test_main.rs.template>)",
                      "harness/lang rustgen_run (host: current_time = sample index, sample_rate = 48000, every external refused) and lmmm_run",
                      "lib/lmmm.py generator and pretty-printer", "Coq 8.16.1 kernel, extraction, ocaml/lmmm_drv.ml (reference semantics)"],
        rule=("fixtures of rust_codegen_test.rs first; then function-name pool (Rust keywords, scaffold method names, controls); plugin probes; "
              "type-directed Lmmm generator (1 case in 8 allows stateful constructs in `if` arms = class F2); "
              "distinct_nontrivial = distinct sources whose generated Rust ran and equalled the VM at every sample"))
