"""C08 — state migration plans are well-formed and keep everything that survives.

P: theorems of coq/theories/Props/C08.v over StateTree/Model.v (all layouts, unbounded).
C: extracted model vs the real state-tree crate on exhaustive small pairs + random edit-script pairs.
S: the six clauses of the property evaluated directly on the implementation's plans.
"""
import json, os, sys
from vplib import *

OCAML = [("st_drv", ["st_model"], "ocaml/st_drv.ml")]
HARNESS = [("st", ["st_diff"], False)]

LEAVES_Q = ["D0", "D1", "M0", "M1", "M2", "E1", "E2"]


# ---- skeletons as python values: ('D',n) ('M',n) ('E',n) ('C',[children]) ----
def show(s):
    if s[0] == 'C':
        return "[" + " ".join(show(c) for c in s[1]) + "]"
    return f"{s[0]}{s[1]}"


def size(s):
    if s[0] == 'D':
        return DELAY_OFF + s[1]
    if s[0] in 'ME':
        return s[1]
    return sum(size(c) for c in s[1])


DELAY_OFF = 2


def nnodes(s):
    return 1 + (sum(nnodes(c) for c in s[1]) if s[0] == 'C' else 0)


def enum_skels(n, leaves, memo={}):
    """all skeletons with exactly n nodes"""
    key = (n, tuple(leaves))
    if key in memo:
        return memo[key]
    res = []
    if n == 1:
        res = [(l[0], int(l[1:])) for l in leaves] + [('C', [])]
    else:
        # FnCall with children forests totalling n-1 nodes
        res = [('C', f) for f in enum_forest(n - 1, leaves)]
    memo[key] = res
    return res


def enum_forest(n, leaves, memo={}):
    key = (n, tuple(leaves))
    if key in memo:
        return memo[key]
    res = []
    if n == 0:
        res = [[]]
    else:
        for k in range(1, n + 1):
            for first in enum_skels(k, leaves):
                for rest in enum_forest(n - k, leaves):
                    res.append([first] + rest)
    memo[key] = res
    return res


def leaves_of(s, base=0, path=()):
    """[(path, offset, skel)] of all nodes"""
    out = [(path, base, s)]
    if s[0] == 'C':
        off = base
        for i, c in enumerate(s[1]):
            out += leaves_of(c, off, path + (i,))
            off += size(c)
    return out


def rand_skel(rng, depth, maxkids=4):
    r = rng.below(10)
    if depth <= 0 or r < 4:
        k = rng.choice("DMME")
        return (k, rng.choice([0, 1, 1, 2, 3, 5]) if k != 'D' else rng.choice([0, 1, 2, 4, 7]))
    return ('C', [rand_skel(rng, depth - 1, maxkids) for _ in range(rng.below(maxkids + 1))])


def edit(rng, s, depth=0):
    """random edit script step: delete / insert / replace / nest / resize somewhere in s"""
    if s[0] != 'C' or (rng.chance(1, 4) and depth > 0):
        r = rng.below(4)
        if r == 0:
            return ('C', [s])  # nest deeper
        if r == 1 and s[0] != 'C':
            return (s[0], s[1] + 1)  # resize
        if r == 2:
            return rand_skel(rng, 1)
        return s
    kids = list(s[1])
    r = rng.below(5)
    if r == 0 and kids:
        del kids[rng.below(len(kids))]
    elif r == 1:
        kids.insert(rng.below(len(kids) + 1), rand_skel(rng, 2))
    elif r == 2 and kids:
        i = rng.below(len(kids))
        kids[i] = edit(rng, kids[i], depth + 1)
    elif r == 3 and kids:
        i = rng.below(len(kids))
        kids[i] = ('C', [kids[i]])
    elif kids:
        i = rng.below(len(kids))
        kids[i] = edit(rng, kids[i], depth + 1)
    return ('C', kids)


def delete_subtrees(rng, s, root=True):
    """new ⊑ old: delete random subtrees at any depth (never the root)"""
    if s[0] != 'C':
        return s
    kids = []
    for c in s[1]:
        if rng.chance(1, 4):
            continue
        kids.append(delete_subtrees(rng, c, False))
    return ('C', kids)


# ---- predicates of the property evaluated on an implementation answer ----
def sk_eq(a, b):
    if a[0] != b[0]:
        return False
    if a[0] == 'C':
        return len(a[1]) == len(b[1]) and all(sk_eq(x, y) for x, y in zip(a[1], b[1]))
    return a[1] == b[1]


def parse_answer(line):
    if line == "N":
        return None
    if not line.startswith("S "):
        return ("ERR", line)
    head, st = line.split(" => ")
    parts = head.split(" ")
    total = int(parts[1])
    ps = []
    if len(parts) > 2 and parts[2]:
        for t in parts[2].split(";"):
            s, d, z = t.split(",")
            ps.append((int(s), int(d), int(z)))
    storage = None if st == "PANIC" else ([int(x) for x in st.split(",")] if st else [])
    return (total, ps, storage)


def embeds(new, old):
    """new obtainable from old by deleting subtrees at any depth (proper descendants only)"""
    if new[0] != old[0]:
        return False
    if new[0] != 'C':
        return new[1] == old[1]
    # new children must be a subsequence of old children with recursive embedding
    ncs, ocs = new[1], old[1]
    # DP over subsequence embedding
    reach = [True] + [False] * len(ncs)
    for oc in ocs:
        for j in range(len(ncs) - 1, -1, -1):
            if reach[j] and embeds(ncs[j], oc):
                reach[j + 1] = True
    return reach[len(ncs)]


def has_partial_match(old, new):
    """class predicate of finding F1: somewhere the sibling matching runs over a pair of
    FnCall nodes where some (old child, new child) pair is NOT shape-equal yet shares a
    shape-equal sub-part (a partial match that the count-based score values like a full one)."""
    if sk_eq(old, new) or old[0] != 'C' or new[0] != 'C':
        return False
    for oc in old[1]:
        for nc in new[1]:
            if not sk_eq(oc, nc) and oc[0] == 'C' and nc[0] == 'C':
                if any_common(oc, nc):
                    return True
    return False


def any_common(o, n):
    if sk_eq(o, n):
        return True
    if o[0] != 'C' or n[0] != 'C':
        return False
    return any(any_common(oc, nc) for oc in o[1] for nc in n[1])


def has_cells(s):
    return any(has_cells(c) for c in s[1]) if s[0] == 'C' else True


def check_clauses(old, new, ans):
    """returns (list of failed clause names, survivors_failed: bool)"""
    bad = []
    if ans is not None and ans[0] == "ERR":
        return ["plan-panic:" + str(ans[1])], False
    if sk_eq(old, new):
        if ans is not None:
            bad.append("identical-not-noop")
        return bad, False
    if ans is None:
        return ["noop-for-different-layouts"], False
    total, ps, storage = ans
    so, sn = size(old), size(new)
    if total != sn:
        bad.append("total-size")
    onodes = leaves_of(old)
    nnodes_ = leaves_of(new)
    oidx = {}
    for (p, off, sk) in onodes:
        oidx.setdefault((off, size(sk)), []).append(sk)
    nidx = {}
    for (p, off, sk) in nnodes_:
        nidx.setdefault((off, size(sk)), []).append(sk)
    for (s, d, z) in ps:
        if s + z > so or d + z > sn:
            bad.append("out-of-bounds")
        cands_o = oidx.get((s, z), [])
        cands_n = nidx.get((d, z), [])
        if not any(sk_eq(a, b) for a in cands_o for b in cands_n):
            bad.append("not-same-shape")
    nz = sorted([p for p in ps if p[2] > 0], key=lambda p: p[1])
    for a, b in zip(nz, nz[1:]):
        if a[1] + a[2] > b[1]:
            bad.append("dst-overlap")
        if not (a[0] < b[0]):
            bad.append("sibling-order")
    if storage is None:
        bad.append("apply-panics")
    else:
        exp = [0] * sn
        for (s, d, z) in ps:
            for k in range(z):
                if d + k < sn and s + k < so:
                    exp[d + k] = s + k + 1
        if storage != exp:
            bad.append("zero-elsewhere")
    surv = False
    # identity form for top-level child removal / insertion: every child with cells is copied whole from a child of equal shape
    if not bad and old[0] == 'C' and new[0] == 'C':
        def offs(cs):
            o, res = 0, []
            for c in cs:
                res.append(o); o += size(c)
            return res
        def is_subseq(a, b):
            i = 0
            for x in b:
                if i < len(a) and sk_eq(a[i], x): i += 1
            return i == len(a)
        oo, no = offs(old[1]), offs(new[1])
        pset = set(ps)
        if is_subseq(new[1], old[1]):
            for j, c in enumerate(new[1]):
                if has_cells(c) and size(c) > 0 and not any(sk_eq(c, oc) and (oo[i], no[j], size(c)) in pset for i, oc in enumerate(old[1])):
                    surv = True
        elif is_subseq(old[1], new[1]):
            for i, c in enumerate(old[1]):
                if has_cells(c) and size(c) > 0 and not any(sk_eq(c, nc) and (oo[i], no[j], size(c)) in pset for j, nc in enumerate(new[1])):
                    surv = True
    if not bad and storage is not None:
        carried = sum(1 for w in storage if w != 0)
        if embeds(new, old) and carried != sn:
            surv = True
        elif embeds(old, new) and carried != so:
            surv = True
    return bad, surv


def run(ck):
    global DELAY_OFF
    ck.level = "proof"
    proved = ck.prove(tables=["statetree_consts"], extra_targets=["theories/Extract/StateTreeExtract.vo"])
    # read the translated constant for the python-side oracle
    import re
    tv = open(os.path.join(COQ, "theories/Tables/StateTreeConsts.v")).read()
    m = re.search(r"DELAY_ADDITIONAL_OFFSET : N := (\d+)", tv)
    DELAY_OFF = int(m.group(1)) if m else 2

    # ---- build both sides ----
    rc, out, exe_m = ocaml_build("st_drv", ["st_model"], os.path.join(VERIF, "ocaml", "st_drv.ml"))
    model_ok = rc == 0
    if not model_ok:
        ck.broken.append("model-build: " + out[-400:])
    rc, out, bindir = cargo_build("st", ["st_diff"], hooks=False)
    if rc != 0:
        ck.broken.append("harness-build: " + out[-800:])
        ck.violation("harness does not build against /repo", {"cargo_output": out[-3000:]}, no_input=True)
        return finish(ck)
    exe_i = os.path.join(bindir, "st_diff")

    # ---- inputs ----
    pairs = []
    if ck.replay:
        rp = json.load(open(ck.replay))["replay"]
        if "old" in rp:
            pairs.append((rp["old_py"], rp["new_py"])) if "old_py" in rp else None
    corpus = os.path.join(VERIF, "corpus", "C08", "pairs.txt")
    corpus_lines = []
    if os.path.exists(corpus):
        corpus_lines = [l.strip() for l in open(corpus) if l.strip() and not l.startswith("#")]
    maxn = 4 if ck.tier == "quick" else 5
    leaves = LEAVES_Q if ck.tier == "quick" else LEAVES_Q
    skels = []
    for n in range(1, maxn + 1):
        skels += enum_skels(n, leaves)
    if ck.tier == "quick":
        # exhaustive up to 3 nodes on both sides; 4-node trees paired with all <=3-node trees and a stride of 4-node trees
        small = [s for s in skels if nnodes(s) <= 3]
        big = [s for s in skels if nnodes(s) == 4]
        for a in small:
            for b in small:
                pairs.append((a, b))
        rng = ck.rng.fork("pairs4")
        for a in big:
            for b in small:
                if rng.chance(1, 3):
                    pairs.append((a, b))
                if rng.chance(1, 3):
                    pairs.append((b, a))
            for _ in range(6):
                pairs.append((a, rng.choice(big)))
        exhaustive_bound = 3
    else:
        small = [s for s in skels if nnodes(s) <= 4]
        big = [s for s in skels if nnodes(s) == 5]
        for a in small:
            for b in small:
                pairs.append((a, b))
        rng = ck.rng.fork("pairs5")
        for a in big:
            for _ in range(12):
                pairs.append((a, rng.choice(small)))
                pairs.append((rng.choice(small), a))
            for _ in range(6):
                pairs.append((a, rng.choice(big)))
        exhaustive_bound = 4
    n_exh = len(pairs)
    # random larger pairs by edit scripts, and deletion/insertion pairs (the survivors clause)
    rng = ck.rng.fork("edits")
    n_rand = 4000 if ck.tier == "quick" else 60000
    n_del = n_ins = 0
    for i in range(n_rand):
        base = rand_skel(rng, 3)
        if base[0] != 'C':
            base = ('C', [base])
        r = rng.below(4)
        if r == 0:
            new = delete_subtrees(rng, base)
            pairs.append((base, new)); n_del += 1
        elif r == 1:
            new = delete_subtrees(rng, base)
            pairs.append((new, base)); n_ins += 1
        else:
            new = base
            for _ in range(rng.range(1, 4)):
                new = edit(rng, new)
            pairs.append((base, new))
    lines = corpus_lines + [show(a) + " | " + show(b) for a, b in pairs]
    text = "\n".join(lines) + "\n"

    # ---- run model and implementation ----
    import subprocess
    def runexe(exe):
        p = subprocess.run([exe], input=text, stdout=subprocess.PIPE, stderr=subprocess.DEVNULL, text=True, timeout=3000)
        return p.returncode, p.stdout.split("\n")
    rc_i, out_i = runexe(exe_i)
    if model_ok:
        rc_m, out_m = runexe(exe_m)
    else:
        rc_m, out_m = 1, []
    if rc_i != 0 or len(out_i) < len(lines):
        ck.violation("implementation harness crashed", {"rc": rc_i, "answered": len(out_i), "cases": len(lines)}, no_input=True)
        return finish(ck)

    def parse_line(l):
        o, n = l.split("|")
        return parse_sk(o.strip()), parse_sk(n.strip())

    findings = {f["cls"]: f for f in known_findings("C08")}
    disagreements = []
    clause_fail = []
    surv_known = 0
    surv_checked = 0
    distinct = set()
    nontrivial = 0
    for idx, l in enumerate(lines):
        old, new = parse_line(l)
        ai = parse_answer(out_i[idx])
        if model_ok and rc_m == 0 and idx < len(out_m):
            if out_m[idx] != out_i[idx]:
                disagreements.append((l, out_m[idx], out_i[idx]))
        bad, surv = check_clauses(old, new, ai)
        if l not in distinct:
            distinct.add(l)
            if ai is not None and ai[0] != "ERR" and len(ai[1]) > 0:
                nontrivial += 1
        if embeds(new, old) or embeds(old, new):
            surv_checked += 1
        if bad:
            clause_fail.append((l, bad, out_i[idx]))
        elif surv:
            if "partial-sibling-match" in findings and has_partial_match(old, new):
                surv_known += 1
                ck.known(findings["partial-sibling-match"], f"{l} -> {out_i[idx]}")
            else:
                clause_fail.append((l, ["survivors"], out_i[idx]))
    ck.coverage["evaluations"] = len(lines)
    ck.coverage["distinct_nontrivial"] = nontrivial
    ck.coverage["exhaustive_pairs"] = n_exh
    ck.coverage["exhaustive"] = False
    ck.coverage["exhaustive_bound"] = f"all ordered pairs of layouts with <= {exhaustive_bound} nodes over leaves {leaves} (+ sampled pairs with {exhaustive_bound+1}-node layouts)"
    ck.coverage["random_edit_pairs"] = n_rand
    ck.coverage["deletion_pairs"] = n_del
    ck.coverage["insertion_pairs"] = n_ins
    ck.coverage["survivor_clause_checked_on"] = surv_checked
    ck.coverage["survivor_failures_in_known_class_F1"] = surv_known
    ck.coverage["corpus_cases"] = len(corpus_lines)
    ck.coverage["model_vs_impl_disagreements"] = len(disagreements)
    for l in lines[:2] + lines[n_exh // 2: n_exh // 2 + 1] + lines[-2:]:
        i = lines.index(l)
        ck.sample({"input": l, "implementation": out_i[i], "model": out_m[i] if model_ok and i < len(out_m) else None})

    # ---- verdicts ----
    for (l, bad, ans) in clause_fail[:5]:
        o, n = l.split("|")
        ck.violation("property clause(s) fail on the implementation: " + ",".join(bad),
                     {"old": o.strip(), "new": n.strip(), "tagged_old_storage": "old[i]=i+1", "implementation_answer": ans,
                      "how": "echo '<old> | <new>' | .cache/target/st/debug/st_diff"})
    if disagreements and not clause_fail:
        l, m_, i_ = disagreements[0]
        o, n = l.split("|")
        ck.broken.append("correspondence StateTree.Model.plan vs state_tree::build_state_storage_patch_plan")
        ck.violation("model and implementation disagree (no clause of the property fails on the explored inputs)",
                     {"correspondence": "StateTree.Model.{plan,apply_plan} vs state_tree::{build,apply}_state_storage_patch_plan",
                      "old": o.strip(), "new": n.strip(), "model": m_, "implementation": i_,
                      "disagreements": len(disagreements)}, no_input=True)
    if not proved and not clause_fail and not disagreements:
        ck.violation("a proof obligation of Props/C08.v no longer checks", {"broken": ck.broken}, no_input=True)
    return finish(ck)


def parse_sk(s):
    pos = [0]
    def sk():
        while s[pos[0]] == ' ':
            pos[0] += 1
        c = s[pos[0]]
        if c in "DME":
            pos[0] += 1
            st = pos[0]
            while pos[0] < len(s) and s[pos[0]].isdigit():
                pos[0] += 1
            return (c, int(s[st:pos[0]]))
        assert c == '['
        pos[0] += 1
        kids = []
        while True:
            while s[pos[0]] == ' ':
                pos[0] += 1
            if s[pos[0]] == ']':
                pos[0] += 1
                return ('C', kids)
            kids.append(sk())
    return sk()


def finish(ck):
    ck.finish(
        explanation=("Theorems of Props/C08.v are proved in Coq for ALL pairs of layouts (no size bound) over a complete Gallina "
                     "transcription of the state-tree crate; the transcription is tied to /repo by running the extracted model and the real "
                     "crate on the same layout pairs and comparing plans (as sorted sets) and migrated tagged storages byte for byte; the "
                     "clauses of the property are additionally evaluated directly on the implementation's answers."),
        trusted_base=["Coq 8.16.1 kernel (coqc, vm_compute; no native_compute)",
                      "extraction: ExtrOcamlBasic + ExtrOcamlString only, no Extract Constant of our own; OCaml 4.13.1; ocaml/st_drv.ml driver",
                      "translator translators/statetree_consts.py (DELAY_ADDITIONAL_OFFSET from tree.rs)",
                      "harness/st/src/bin/st_diff.rs and the python-side clause oracle in checks/C08.py",
                      "usize/u64 overflow of addresses (layouts >= 2^64 words) is outside the model"],
        rule=("exhaustive ordered pairs of layouts up to the stated node bound, then random pairs derived by edit scripts "
              "(delete/insert/replace/nest/resize) and pure-deletion / pure-insertion pairs; a case is non-trivial when the plan is Some and has >= 1 patch; distinct = distinct input lines"))
