"""C08 — state migration plans are well-formed and keep everything that survives.

P: theorems of coq/theories/Props/C08.v over StateTree/Model.v (all layouts, unbounded).
C: extracted model vs the real state-tree crate on exhaustive small pairs + random edit-script pairs.
S: the clauses of the property evaluated directly on the implementation's plans.  Survivors clause:
   * pure removals / pure insertions (C08_survivors, C08_survivors_whole): coverage and identity form, as before;
   * MIXED edits (subtrees removed AND added in one edit, also nested): the COUNT form always (the plan carries at least as many cells
     as survive the best reading of the pair as a mixed edit, C08_survivors_mixed_count), the IDENTITY form (every untouched child with
     cells is copied whole from/to an identical child, C08_survivors_mixed_unambiguous) on UNAMBIGUOUS scripts — predicate
     `mixed_edit_fresh` / `mixed_edit_ambiguous` below, a python transcription of StateTree/Unamb.v new_fresh / old_fresh — at the root
     and at every pair of call nodes the plan pairs.  For generated edits the script is known; an identity failure on an AMBIGUOUS
     generated script is the recorded finding F29 (class mixed-edit-ambiguous-partial-chain), on an unambiguous one a violation.
"""
import json, os, sys
from vplib import *

OCAML = [("st_drv", ["st_model"], "ocaml/st_drv.ml")]
HARNESS = [("st", ["st_diff"], False)]

LEAVES_Q = ["D0", "D1", "M0", "M1", "M2", "E1", "E2"]


# ---- skeletons as python values: ('D',n) ('M',n) ('E',n) ('C',[children]) ----
def show(s):
    if s[0] == 'C':
        return "[" + " ".join(show(c) for c in s[1]) + "]"
    return f"{s[0]}{s[1]}"


def size(s):
    if s[0] == 'D':
        return DELAY_OFF + s[1]
    if s[0] in 'ME':
        return s[1]
    return sum(size(c) for c in s[1])


DELAY_OFF = 2


def nnodes(s):
    return 1 + (sum(nnodes(c) for c in s[1]) if s[0] == 'C' else 0)


def enum_skels(n, leaves, memo={}):
    """all skeletons with exactly n nodes"""
    key = (n, tuple(leaves))
    if key in memo:
        return memo[key]
    res = []
    if n == 1:
        res = [(l[0], int(l[1:])) for l in leaves] + [('C', [])]
    else:
        # FnCall with children forests totalling n-1 nodes
        res = [('C', f) for f in enum_forest(n - 1, leaves)]
    memo[key] = res
    return res


def enum_forest(n, leaves, memo={}):
    key = (n, tuple(leaves))
    if key in memo:
        return memo[key]
    res = []
    if n == 0:
        res = [[]]
    else:
        for k in range(1, n + 1):
            for first in enum_skels(k, leaves):
                for rest in enum_forest(n - k, leaves):
                    res.append([first] + rest)
    memo[key] = res
    return res


def leaves_of(s, base=0, path=()):
    """[(path, offset, skel)] of all nodes"""
    out = [(path, base, s)]
    if s[0] == 'C':
        off = base
        for i, c in enumerate(s[1]):
            out += leaves_of(c, off, path + (i,))
            off += size(c)
    return out


def rand_skel(rng, depth, maxkids=4):
    r = rng.below(10)
    if depth <= 0 or r < 4:
        k = rng.choice("DMME")
        return (k, rng.choice([0, 1, 1, 2, 3, 5]) if k != 'D' else rng.choice([0, 1, 2, 4, 7]))
    return ('C', [rand_skel(rng, depth - 1, maxkids) for _ in range(rng.below(maxkids + 1))])


def edit(rng, s, depth=0):
    """random edit script step: delete / insert / replace / nest / resize somewhere in s"""
    if s[0] != 'C' or (rng.chance(1, 4) and depth > 0):
        r = rng.below(4)
        if r == 0:
            return ('C', [s])  # nest deeper
        if r == 1 and s[0] != 'C':
            return (s[0], s[1] + 1)  # resize
        if r == 2:
            return rand_skel(rng, 1)
        return s
    kids = list(s[1])
    r = rng.below(5)
    if r == 0 and kids:
        del kids[rng.below(len(kids))]
    elif r == 1:
        kids.insert(rng.below(len(kids) + 1), rand_skel(rng, 2))
    elif r == 2 and kids:
        i = rng.below(len(kids))
        kids[i] = edit(rng, kids[i], depth + 1)
    elif r == 3 and kids:
        i = rng.below(len(kids))
        kids[i] = ('C', [kids[i]])
    elif kids:
        i = rng.below(len(kids))
        kids[i] = edit(rng, kids[i], depth + 1)
    return ('C', kids)


def delete_subtrees(rng, s, root=True):
    """new ⊑ old: delete random subtrees at any depth (never the root)"""
    if s[0] != 'C':
        return s
    kids = []
    for c in s[1]:
        if rng.chance(1, 4):
            continue
        kids.append(delete_subtrees(rng, c, False))
    return ('C', kids)


def rand_leaf(rng, pos=False):
    k = rng.choice("DMME")
    if k == 'D':
        return (k, rng.choice([0, 1, 2, 4, 7]))
    return (k, rng.choice([1, 1, 2, 3, 5] if pos else [0, 1, 1, 2, 3, 5]))


SITE_ALPHABET = [('E', 1), ('M', 1), ('M', 1), ('M', 2), ('D', 1), ('D', 3), ('E', 2)]
FRESH_ALPHABET = [('E', 7), ('M', 9), ('D', 11), ('M', 13), ('E', 5)]


def rand_site(rng, alphabet=SITE_ALPHABET):
    """a call site the way C07's voices look: a flat call node with a few cells drawn from a small alphabet, so that
    different sites share cells (partial matches between siblings are the rule, not the exception)"""
    return ('C', [rng.choice(alphabet) for _ in range(rng.range(1, 5))])


def rand_pos_skel(rng, depth, maxkids=4):
    """like rand_skel but every leaf has at least one word (the cell-count oracle needs cells to be visible in the storage)"""
    r = rng.below(10)
    if depth <= 0 or r < 3:
        return rand_leaf(rng, True)
    if r < 6:
        return rand_site(rng)
    return ('C', [rand_pos_skel(rng, depth - 1, maxkids) for _ in range(rng.range(1, maxkids + 1))])


def mixed_edit(rng, s, depth=0, fresh=False):
    """ONE edit that removes some subtrees AND adds others, at any depth: every child of a call node is kept, removed or
    edited inside; new subtrees are added at random positions.  Returns (new layout, script) where script is the list of
    steps over the children of s: ('same', c) | ('del', o) | ('ins', n) | ('edit', o, n).  With fresh=True the added
    subtrees are built from cells that occur nowhere else (unambiguous edits)."""
    assert s[0] == 'C'
    script = []
    for c in s[1]:
        r = rng.below(8)
        if r == 0:
            script.append(('del', c))
        elif r == 1 and c[0] == 'C' and depth < 3:
            n, _ = mixed_edit(rng, c, depth + 1, fresh)
            script.append(('same', c) if sk_eq(n, c) else ('edit', c, n))
        else:
            script.append(('same', c))
    for _ in range(rng.choice([0, 1, 1, 1, 2])):
        if fresh:
            new = rand_site(rng, FRESH_ALPHABET)
        else:
            new = rand_site(rng) if rng.chance(2, 3) else rand_pos_skel(rng, 2)
        script.insert(rng.below(len(script) + 1), ('ins', new))
    return ('C', script_news(script)), script


def script_olds(script):
    return [st[1] for st in script if st[0] in ('same', 'del', 'edit')]


def script_news(script):
    return [st[1] if st[0] != 'edit' else st[2] for st in script if st[0] in ('same', 'ins', 'edit')]


def script_pairs(script):
    """(untouched_pairs, changed_pairs) of a script as index pairs (old index, new index)"""
    i = j = 0
    unt, chg = [], []
    for st in script:
        if st[0] == 'same':
            unt.append((i, j)); i += 1; j += 1
        elif st[0] == 'edit':
            chg.append((i, j)); i += 1; j += 1
        elif st[0] == 'del':
            i += 1
        else:
            j += 1
    return unt, chg


def delins_script(rng, fresh=False):
    """the C07 "delins" shape: a row of call sites with pairwise different shapes; one is removed and another one is added at a
    different position"""
    n = rng.range(2, 6)
    sites = []
    while len(sites) < n:
        c = rand_site(rng)
        if not any(sk_eq(c, x) for x in sites):
            sites.append(c)
    script = [('same', c) for c in sites]
    for _ in range(rng.choice([1, 1, 2])):
        keep = [k for k, st in enumerate(script) if st[0] == 'same']
        if len(keep) > 1:
            k = rng.choice(keep)
            script[k] = ('del', script[k][1])
        c = rand_site(rng, FRESH_ALPHABET if fresh else SITE_ALPHABET)
        if not any(sk_eq(c, x) for x in sites):
            script.insert(rng.below(len(script) + 1), ('ins', c))
    return script


# ---- predicates of the property evaluated on an implementation answer ----
def sk_eq(a, b):
    if a[0] != b[0]:
        return False
    if a[0] == 'C':
        return len(a[1]) == len(b[1]) and all(sk_eq(x, y) for x, y in zip(a[1], b[1]))
    return a[1] == b[1]


def parse_answer(line):
    if line == "N":
        return None
    if not line.startswith("S "):
        return ("ERR", line)
    head, st = line.split(" => ")
    parts = head.split(" ")
    total = int(parts[1])
    ps = []
    if len(parts) > 2 and parts[2]:
        for t in parts[2].split(";"):
            s, d, z = t.split(",")
            ps.append((int(s), int(d), int(z)))
    storage = None if st == "PANIC" else ([int(x) for x in st.split(",")] if st else [])
    return (total, ps, storage)


def embeds(new, old):
    """new obtainable from old by deleting subtrees at any depth (proper descendants only)"""
    if new[0] != old[0]:
        return False
    if new[0] != 'C':
        return new[1] == old[1]
    # new children must be a subsequence of old children with recursive embedding
    ncs, ocs = new[1], old[1]
    # DP over subsequence embedding
    reach = [True] + [False] * len(ncs)
    for oc in ocs:
        for j in range(len(ncs) - 1, -1, -1):
            if reach[j] and embeds(ncs[j], oc):
                reach[j + 1] = True
    return reach[len(ncs)]


def has_partial_match(old, new):
    """class predicate of finding F1: somewhere the sibling matching runs over a pair of
    FnCall nodes where some (old child, new child) pair is NOT shape-equal yet shares a
    shape-equal sub-part (a partial match that the count-based score values like a full one)."""
    if sk_eq(old, new) or old[0] != 'C' or new[0] != 'C':
        return False
    for oc in old[1]:
        for nc in new[1]:
            if not sk_eq(oc, nc) and oc[0] == 'C' and nc[0] == 'C':
                if any_common(oc, nc):
                    return True
    return False


def any_common(o, n):
    if sk_eq(o, n):
        return True
    if o[0] != 'C' or n[0] != 'C':
        return False
    return any(any_common(oc, nc) for oc in o[1] for nc in n[1])


def has_cells(s):
    return any(has_cells(c) for c in s[1]) if s[0] == 'C' else True


def cells(s):
    return sum(cells(c) for c in s[1]) if s[0] == 'C' else 1


def key(s):
    return show(s)


def all_leaves_positive(s):
    return all(all_leaves_positive(c) for c in s[1]) if s[0] == 'C' else size(s) > 0


def share(a, b):
    """StateTree/Indep.v share: a and b have an identical sub-layout WITH cells at equal depth (only then can the migration carry
    anything from a to b)"""
    if sk_eq(a, b) and cells(a) > 0:
        return True
    if a[0] == 'C' and b[0] == 'C':
        return any(share(x, y) for x in a[1] for y in b[1])
    return False


def mixed_edit_fresh(old_children, new_children, untouched_pairs, changed_pairs=()):
    """The hypotheses of Props/C08.v C08_survivors_mixed_unambiguous (StateTree/Unamb.v new_fresh, old_fresh) for ONE pair of call
    nodes whose children are old_children / new_children (python skeletons ('D',n) | ('M',n) | ('E',n) | ('C',[children])):
      untouched_pairs : [(i, j)] old child i is the untouched new child j (same shape, same relative order)
      changed_pairs   : [(i, j)] old child i was changed in place into new child j (edited inside, or replaced)
      every other old child was removed, every other new child was added.
    Returns (new_fresh, old_fresh):
      new_fresh : every added new child shares no cell with any old child; every changed new child differs from its counterpart and
                  shares no cell with any old child of another shape than its counterpart.  Then every untouched NEW child with cells
                  is copied whole from an identical old child.
      old_fresh : symmetrically for removed / changed old children against the new children.  Then every untouched OLD child with
                  cells is copied whole to an identical new child."""
    unt_o = {i for i, _ in untouched_pairs}
    unt_n = {j for _, j in untouched_pairs}
    cp_n = {j: i for i, j in changed_pairs}
    cp_o = {i: j for i, j in changed_pairs}
    new_fresh = True
    for j, n in enumerate(new_children):
        if j in unt_n:
            continue
        o = old_children[cp_n[j]] if j in cp_n else None
        if o is not None and sk_eq(o, n):
            new_fresh = False
        for a in old_children:
            if (o is None or not sk_eq(a, o)) and share(a, n):
                new_fresh = False
    old_fresh = True
    for i, o in enumerate(old_children):
        if i in unt_o:
            continue
        n = new_children[cp_o[i]] if i in cp_o else None
        if n is not None and sk_eq(o, n):
            old_fresh = False
        for b in new_children:
            if (n is None or not sk_eq(b, n)) and share(o, b):
                old_fresh = False
    return new_fresh, old_fresh


def mixed_edit_ambiguous(old_children, new_children, untouched_pairs, changed_pairs=()):
    """True when the hypothesis under which every untouched NEW child keeps the state of an identical old child (with pairwise different
    shapes: its own state) is NOT met, i.e. some added or changed new child shares a cell with an old child other than its counterpart:
    class predicate of finding F29 (mixed-edit-ambiguous-partial-chain)."""
    return not mixed_edit_fresh(old_children, new_children, untouched_pairs, changed_pairs)[0]


def flat_site(has_self, n_mem, delay_n):
    """skeleton of a call site with one feed cell (self), n_mem one-word mem cells and a delay of delay_n samples (0: none), the shape of
    checks/C07.py's voice templates; for `share` only the kinds and sizes of the cells matter, not their order"""
    return ('C', ([('E', 1)] if has_self else []) + [('M', 1)] * n_mem + ([('D', delay_n)] if delay_n else []))


def canonical_script(ocs, ncs):
    """a reading of two rows of children as a script, for pairs that come without one: the untouched children are a maximal
    common subsequence (by shape); between two consecutive untouched children exactly one old and one new child left over are
    read as changed in place; everything else is removed / added.  Returns (untouched_pairs, changed_pairs)."""
    n, m = len(ocs), len(ncs)
    L = [[0] * (m + 1) for _ in range(n + 1)]
    for i in range(n - 1, -1, -1):
        for j in range(m - 1, -1, -1):
            L[i][j] = max(L[i + 1][j], L[i][j + 1], (L[i + 1][j + 1] + 1) if sk_eq(ocs[i], ncs[j]) else 0)
    unt, i, j = [], 0, 0
    while i < n and j < m:
        if sk_eq(ocs[i], ncs[j]) and L[i][j] == L[i + 1][j + 1] + 1:
            unt.append((i, j)); i += 1; j += 1
        elif L[i + 1][j] >= L[i][j + 1]:
            i += 1
        else:
            j += 1
    chg = []
    bounds = [(-1, -1)] + unt + [(n, m)]
    for (i0, j0), (i1, j1) in zip(bounds, bounds[1:]):
        if i1 - i0 == 2 and j1 - j0 == 2 and not sk_eq(ocs[i0 + 1], ncs[j0 + 1]):
            chg.append((i0 + 1, j0 + 1))
    return unt, chg


def best_medit(o, n, memo):
    """max number of surviving cells over all readings of (old, new) as a mixed edit (StateTree/Script.v medit)"""
    kk = (key(o), key(n))
    if kk in memo:
        return memo[kk]
    if sk_eq(o, n):
        r = cells(o)
    elif o[0] == 'C' and n[0] == 'C':
        ocs, ncs = o[1], n[1]
        a, b = len(ocs), len(ncs)
        dp = [[0] * (b + 1) for _ in range(a + 1)]
        for i in range(a - 1, -1, -1):
            for j in range(b - 1, -1, -1):
                dp[i][j] = max(dp[i + 1][j], dp[i][j + 1], dp[i + 1][j + 1] + best_medit(ocs[i], ncs[j], memo))
        r = dp[0][0]
    else:
        r = 0
    memo[kk] = r
    return r


def identity_fails(o, n, ob, nb, unt, chg, pset):
    """the two clauses of C08_survivors_mixed_unambiguous for the children of the call nodes o (laid out from ob) and n (from nb) under
    the script (unt, chg); returns (clause for new children fails, clause for old children fails, new_fresh, old_fresh)"""
    nf, of = mixed_edit_fresh(o[1], n[1], unt, chg)
    oo, no = [], []
    acc = ob
    for c in o[1]:
        oo.append(acc); acc += size(c)
    acc = nb
    for c in n[1]:
        no.append(acc); acc += size(c)
    fail_new = fail_old = False
    for (i0, j) in unt:
        c = n[1][j]
        if has_cells(c) and size(c) > 0 and \
                not any(sk_eq(c, oc) and (oo[i], no[j], size(c)) in pset for i, oc in enumerate(o[1])):
            fail_new = True
    for (i, j0) in unt:
        c = o[1][i]
        if has_cells(c) and size(c) > 0 and \
                not any(sk_eq(c, nc) and (oo[i], no[j], size(c)) in pset for j, nc in enumerate(n[1])):
            fail_old = True
    return fail_new, fail_old, nf, of


def check_clauses(old, new, ans, script=None):
    """returns (list of failed clause names, survivors_failed: bool)"""
    bad = []
    if ans is not None and ans[0] == "ERR":
        return ["plan-panic:" + str(ans[1])], False, {}
    if sk_eq(old, new):
        if ans is not None:
            bad.append("identical-not-noop")
        return bad, False, {}
    if ans is None:
        return ["noop-for-different-layouts"], False, {}
    total, ps, storage = ans
    so, sn = size(old), size(new)
    if total != sn:
        bad.append("total-size")
    onodes = leaves_of(old)
    nnodes_ = leaves_of(new)
    oidx = {}
    for (p, off, sk) in onodes:
        oidx.setdefault((off, size(sk)), []).append(sk)
    nidx = {}
    for (p, off, sk) in nnodes_:
        nidx.setdefault((off, size(sk)), []).append(sk)
    for (s, d, z) in ps:
        if s + z > so or d + z > sn:
            bad.append("out-of-bounds")
        cands_o = oidx.get((s, z), [])
        cands_n = nidx.get((d, z), [])
        if not any(sk_eq(a, b) for a in cands_o for b in cands_n):
            bad.append("not-same-shape")
    nz = sorted([p for p in ps if p[2] > 0], key=lambda p: p[1])
    for a, b in zip(nz, nz[1:]):
        if a[1] + a[2] > b[1]:
            bad.append("dst-overlap")
        if not (a[0] < b[0]):
            bad.append("sibling-order")
    if storage is None:
        bad.append("apply-panics")
    else:
        exp = [0] * sn
        for (s, d, z) in ps:
            for k in range(z):
                if d + k < sn and s + k < so:
                    exp[d + k] = s + k + 1
        if storage != exp:
            bad.append("zero-elsewhere")
    surv = False
    # identity form for top-level child removal / insertion: every child with cells is copied whole from a child of equal shape
    if not bad and old[0] == 'C' and new[0] == 'C':
        def offs(cs):
            o, res = 0, []
            for c in cs:
                res.append(o); o += size(c)
            return res
        def is_subseq(a, b):
            i = 0
            for x in b:
                if i < len(a) and sk_eq(a[i], x): i += 1
            return i == len(a)
        oo, no = offs(old[1]), offs(new[1])
        pset = set(ps)
        if is_subseq(new[1], old[1]):
            for j, c in enumerate(new[1]):
                if has_cells(c) and size(c) > 0 and not any(sk_eq(c, oc) and (oo[i], no[j], size(c)) in pset for i, oc in enumerate(old[1])):
                    surv = True
        elif is_subseq(old[1], new[1]):
            for i, c in enumerate(old[1]):
                if has_cells(c) and size(c) > 0 and not any(sk_eq(c, nc) and (oo[i], no[j], size(c)) in pset for j, nc in enumerate(new[1])):
                    surv = True
    if not bad and storage is not None:
        carried = sum(1 for w in storage if w != 0)
        if embeds(new, old) and carried != sn:
            surv = True
        elif embeds(old, new) and carried != so:
            surv = True
    # ---- mixed edits ----
    mixed = {"count_checked": False, "count_fail": False, "identity_levels": 0, "identity_fail_unambiguous": False,
             "identity_fail_ambiguous": False, "unambiguous_levels": 0}
    if not bad and storage is not None and old[0] == 'C' and new[0] == 'C':
        memo = {}
        pos_ok = all_leaves_positive(old) and all_leaves_positive(new)
        # count form (C08_survivors_mixed_count): at least as many cells are carried as survive ANY reading of the pair as a mixed edit
        if pos_ok:
            kstar = best_medit(old, new, memo)
            covered = 0
            for (p, off, sk) in nnodes_:
                if sk[0] != 'C' and any(d <= off and off + size(sk) <= d + z for (s_, d, z) in ps):
                    covered += 1
            mixed["count_checked"] = True
            mixed["kstar"] = kstar
            if covered < kstar:
                mixed["count_fail"] = True
        # identity form (C08_survivors_mixed_unambiguous), at the root under the generator's script (or a canonical reading), and at every
        # pair of different call nodes the plan pairs under a canonical reading (C08_plan_is_matching)
        pset = set(ps)
        if script is not None:
            unt, chg = script_pairs(script)
        else:
            unt, chg = canonical_script(old[1], new[1])
        levels = [(0, 0, old, new, unt, chg, script is not None)]
        if pos_ok:
            opath, npath = {}, {}
            for (p, off, sk) in onodes:
                opath.setdefault((off, size(sk)), []).append((p, sk))
            for (p, off, sk) in nnodes_:
                npath.setdefault((off, size(sk)), []).append((p, sk))
            oat = {p: (off, sk) for (p, off, sk) in onodes}
            nat = {p: (off, sk) for (p, off, sk) in nnodes_}
            paired = set()
            for (s_, d, z) in ps:
                if z == 0:
                    continue
                for (po, a) in opath.get((s_, z), []):
                    for (pn, b_) in npath.get((d, z), []):
                        if len(po) == len(pn) and sk_eq(a, b_):
                            for k_ in range(1, len(po)):
                                paired.add((po[:k_], pn[:k_]))
            for (po, pn) in sorted(paired):
                (ob, osk), (nb, nsk) = oat[po], nat[pn]
                if osk[0] == 'C' and nsk[0] == 'C' and not sk_eq(osk, nsk):
                    u2, c2 = canonical_script(osk[1], nsk[1])
                    levels.append((ob, nb, osk, nsk, u2, c2, False))
        for (ob, nb, o, n, u_, c_, scripted) in levels:
            fail_new, fail_old, nf, of = identity_fails(o, n, ob, nb, u_, c_, pset)
            mixed["identity_levels"] += 1
            if nf or of:
                mixed["unambiguous_levels"] += 1
            if scripted and len(u_) < len(o[1]) and len(u_) < len(n[1]) and \
                    any(has_cells(o[1][i]) and size(o[1][i]) > 0 for i, _ in u_):
                mixed["scripted_mixed_with_untouched"] = mixed.get("scripted_mixed_with_untouched", 0) + 1
                if nf:
                    mixed["scripted_mixed_unambiguous"] = mixed.get("scripted_mixed_unambiguous", 0) + 1
            if (fail_new and nf) or (fail_old and of):
                mixed["identity_fail_unambiguous"] = True
            elif scripted and fail_new and mixed_edit_ambiguous(o[1], n[1], u_, c_):
                mixed["identity_fail_ambiguous"] = True
    return bad, surv, mixed


def run(ck):
    global DELAY_OFF
    ck.level = "proof"
    proved = ck.prove(tables=["statetree_consts"], extra_targets=["theories/Extract/StateTreeExtract.vo"])
    # read the translated constant for the python-side oracle
    import re
    tv = open(os.path.join(COQ, "theories/Tables/StateTreeConsts.v")).read()
    m = re.search(r"DELAY_ADDITIONAL_OFFSET : N := (\d+)", tv)
    DELAY_OFF = int(m.group(1)) if m else 2

    # ---- build both sides ----
    rc, out, exe_m = ocaml_build("st_drv", ["st_model"], os.path.join(VERIF, "ocaml", "st_drv.ml"))
    model_ok = rc == 0
    if not model_ok:
        ck.broken.append("model-build: " + out[-400:])
    rc, out, bindir = cargo_build("st", ["st_diff"], hooks=False)
    if rc != 0:
        ck.broken.append("harness-build: " + out[-800:])
        ck.violation("harness does not build against /repo", {"cargo_output": out[-3000:]}, no_input=True)
        return finish(ck)
    exe_i = os.path.join(bindir, "st_diff")

    # ---- inputs ----
    pairs = []
    if ck.replay:
        rp = json.load(open(ck.replay))["replay"]
        if "old" in rp and "new" in rp:
            pairs.append((parse_sk(rp["old"]), parse_sk(rp["new"])))
    corpus = os.path.join(VERIF, "corpus", "C08", "pairs.txt")
    corpus_lines = []
    if os.path.exists(corpus):
        corpus_lines = [l.strip() for l in open(corpus) if l.strip() and not l.startswith("#")]
    maxn = 4 if ck.tier == "quick" else 5
    leaves = LEAVES_Q if ck.tier == "quick" else LEAVES_Q
    skels = []
    for n in range(1, maxn + 1):
        skels += enum_skels(n, leaves)
    if ck.tier == "quick":
        # exhaustive up to 3 nodes on both sides; 4-node trees paired with all <=3-node trees and a stride of 4-node trees
        small = [s for s in skels if nnodes(s) <= 3]
        big = [s for s in skels if nnodes(s) == 4]
        for a in small:
            for b in small:
                pairs.append((a, b))
        rng = ck.rng.fork("pairs4")
        for a in big:
            for b in small:
                if rng.chance(1, 3):
                    pairs.append((a, b))
                if rng.chance(1, 3):
                    pairs.append((b, a))
            for _ in range(6):
                pairs.append((a, rng.choice(big)))
        exhaustive_bound = 3
    else:
        small = [s for s in skels if nnodes(s) <= 4]
        big = [s for s in skels if nnodes(s) == 5]
        for a in small:
            for b in small:
                pairs.append((a, b))
        rng = ck.rng.fork("pairs5")
        for a in big:
            for _ in range(12):
                pairs.append((a, rng.choice(small)))
                pairs.append((rng.choice(small), a))
            for _ in range(6):
                pairs.append((a, rng.choice(big)))
        exhaustive_bound = 4
    n_exh = len(pairs)
    # random larger pairs by edit scripts, and deletion/insertion pairs (the survivors clause)
    rng = ck.rng.fork("edits")
    n_rand = 4000 if ck.tier == "quick" else 60000
    n_del = n_ins = 0
    for i in range(n_rand):
        base = rand_skel(rng, 3)
        if base[0] != 'C':
            base = ('C', [base])
        r = rng.below(4)
        if r == 0:
            new = delete_subtrees(rng, base)
            pairs.append((base, new)); n_del += 1
        elif r == 1:
            new = delete_subtrees(rng, base)
            pairs.append((new, base)); n_ins += 1
        else:
            new = base
            for _ in range(rng.range(1, 4)):
                new = edit(rng, new)
            pairs.append((base, new))
    # prefix families ("staircases"): k sibling calls whose cell lists are prefixes (or suffixes) of ONE cell sequence, each losing / gaining
    # its last few cells in the same reload.  Many identical pairs compete with the alignment that carries the most cells, so the bonuses of
    # identical pairs add up (response to seeded change C08c: score 2*cells + bonus lets three identical pairs outweigh a carried cell).
    rng = ck.rng.fork("staircase")
    n_stair = 0
    for i in range(1200 if ck.tier == "quick" else 12000):
        L = rng.range(3, 7)
        seq = [rand_leaf(rng, True) for _ in range(L)] if rng.chance(1, 2) else [rng.choice(SITE_ALPHABET) for _ in range(L)]
        k = rng.range(3, 6)
        lens = sorted({rng.range(2, L) for _ in range(k)} | {L}, reverse=rng.chance(3, 4))
        fam = [seq[:n] if rng.chance(3, 4) else seq[L - n:] for n in lens]
        cut = rng.range(1, 2)
        shorter = [f[:max(1, len(f) - cut)] if rng.chance(4, 5) else f for f in fam]
        extra = [rand_site(rng)] if rng.chance(1, 4) else []
        big = ('C', [('C', list(f)) for f in fam] + extra)
        small = ('C', [('C', list(f)) for f in shorter] + extra)
        if rng.chance(1, 2):
            pairs.append((big, small)); n_del += 1
        else:
            pairs.append((small, big)); n_ins += 1
        n_stair += 1
    ck.coverage["staircase_pairs"] = n_stair
    # mixed edits: ONE edit removes some subtrees AND adds others (also nested), and rows of call sites with one site removed and another
    # added elsewhere (the C07 "delins" shape).  The generator's script is kept: the identity clause is judged against it.  A third of
    # the scripts are unambiguous by construction (added sites built from cells that occur nowhere else).
    findings = {f["cls"]: f for f in known_findings("C08")}
    mixed_on = "mixed-edit-ambiguous-partial-chain" in findings
    scripts = {}
    n_mixed = n_delins = 0
    if mixed_on:
        rng = ck.rng.fork("mixed")
        for i in range(1500 if ck.tier == "quick" else 20000):
            fresh = rng.chance(1, 3)
            r = rng.below(3)
            if r == 0:
                base = rand_pos_skel(rng, 3)
                if base[0] != 'C':
                    base = ('C', [base, rand_site(rng)])
                new, script = mixed_edit(rng, base, 0, fresh); n_mixed += 1
            elif r == 1:
                base = ('C', [rand_site(rng) if rng.chance(2, 3) else rand_pos_skel(rng, 2) for _ in range(rng.range(2, 5))])
                new, script = mixed_edit(rng, base, 0, fresh); n_mixed += 1
            else:
                script = delins_script(rng, fresh); n_delins += 1
                base, new = ('C', script_olds(script)), ('C', script_news(script))
                if rng.chance(1, 4):      # the same row one call level deeper, between unrelated siblings
                    pre = [rand_leaf(rng, True) for _ in range(rng.below(2))]
                    post = [rand_leaf(rng, True) for _ in range(rng.below(2))]
                    script = [('same', c) for c in pre] + [('edit', base, new)] + [('same', c) for c in post]
                    base, new = ('C', pre + [base] + post), ('C', pre + [new] + post)
            pairs.append((base, new))
            scripts.setdefault(show(base) + " | " + show(new), script)
    lines = corpus_lines + [show(a) + " | " + show(b) for a, b in pairs]
    text = "\n".join(lines) + "\n"

    # ---- run model and implementation ----
    import subprocess
    def runexe(exe):
        p = subprocess.run([exe], input=text, stdout=subprocess.PIPE, stderr=subprocess.DEVNULL, text=True, timeout=3000)
        return p.returncode, p.stdout.split("\n")
    rc_i, out_i = runexe(exe_i)
    if model_ok:
        rc_m, out_m = runexe(exe_m)
    else:
        rc_m, out_m = 1, []
    if rc_i != 0 or len(out_i) < len(lines):
        ck.violation("implementation harness crashed", {"rc": rc_i, "answered": len(out_i), "cases": len(lines)}, no_input=True)
        return finish(ck)

    def parse_line(l):
        o, n = l.split("|")
        return parse_sk(o.strip()), parse_sk(n.strip())

    disagreements = []
    clause_fail = []
    surv_known = 0
    surv_checked = 0
    mx = {"count_checked": 0, "count_checked_with_survivors": 0, "identity_levels": 0, "identity_levels_unambiguous": 0,
          "identity_fail_on_ambiguous_script_F29": 0, "scripted_removed_and_added_with_untouched": 0,
          "scripted_removed_and_added_with_untouched_unambiguous": 0}
    distinct = set()
    nontrivial = 0
    for idx, l in enumerate(lines):
        old, new = parse_line(l)
        ai = parse_answer(out_i[idx])
        if model_ok and rc_m == 0 and idx < len(out_m):
            if out_m[idx] != out_i[idx]:
                disagreements.append((l, out_m[idx], out_i[idx]))
        bad, surv, mixed = check_clauses(old, new, ai, scripts.get(l))
        if mixed.get("count_checked"):
            mx["count_checked"] += 1
            if mixed.get("kstar", 0) > 0:
                mx["count_checked_with_survivors"] += 1
        mx["identity_levels"] += mixed.get("identity_levels", 0)
        mx["identity_levels_unambiguous"] += mixed.get("unambiguous_levels", 0)
        mx["scripted_removed_and_added_with_untouched"] += mixed.get("scripted_mixed_with_untouched", 0)
        mx["scripted_removed_and_added_with_untouched_unambiguous"] += mixed.get("scripted_mixed_unambiguous", 0)
        if l not in distinct:
            distinct.add(l)
            if ai is not None and ai[0] != "ERR" and len(ai[1]) > 0:
                nontrivial += 1
        if embeds(new, old) or embeds(old, new):
            surv_checked += 1
        if bad:
            clause_fail.append((l, bad, out_i[idx]))
        elif surv:
            if "partial-sibling-match" in findings and has_partial_match(old, new):
                surv_known += 1
                ck.known(findings["partial-sibling-match"], f"{l} -> {out_i[idx]}")
            else:
                clause_fail.append((l, ["survivors"], out_i[idx]))
        elif mixed.get("count_fail"):
            clause_fail.append((l, ["survivors-mixed-count: fewer cells carried than survive the best reading as a mixed edit (%d)" % mixed["kstar"]], out_i[idx]))
        elif mixed.get("identity_fail_unambiguous"):
            clause_fail.append((l, ["survivors-mixed-identity: an untouched child of an UNAMBIGUOUS mixed edit is not copied whole"], out_i[idx]))
        elif mixed.get("identity_fail_ambiguous"):
            # the generator's script is ambiguous (an added/changed site shares a cell with an old site other than its counterpart)
            mx["identity_fail_on_ambiguous_script_F29"] += 1
            ck.known(findings["mixed-edit-ambiguous-partial-chain"], f"{l} -> {out_i[idx]}")
    ck.coverage["evaluations"] = len(lines)
    ck.coverage["distinct_nontrivial"] = nontrivial
    ck.coverage["exhaustive_pairs"] = n_exh
    ck.coverage["exhaustive"] = False
    ck.coverage["exhaustive_bound"] = f"all ordered pairs of layouts with <= {exhaustive_bound} nodes over leaves {leaves} (+ sampled pairs with {exhaustive_bound+1}-node layouts)"
    ck.coverage["random_edit_pairs"] = n_rand
    ck.coverage["deletion_pairs"] = n_del
    ck.coverage["insertion_pairs"] = n_ins
    ck.coverage["survivor_clause_checked_on"] = surv_checked
    ck.coverage["mixed_edit_pairs"] = n_mixed
    ck.coverage["delete_and_insert_site_pairs"] = n_delins
    ck.coverage["mixed_streams"] = "on" if mixed_on else "off (finding class mixed-edit-ambiguous-partial-chain not registered in KNOWN_FINDINGS.txt)"
    ck.coverage["mixed"] = mx
    ck.coverage["survivor_failures_in_known_class_F1"] = surv_known
    ck.coverage["corpus_cases"] = len(corpus_lines)
    ck.coverage["model_vs_impl_disagreements"] = len(disagreements)
    for l in lines[:2] + lines[n_exh // 2: n_exh // 2 + 1] + lines[-2:]:
        i = lines.index(l)
        ck.sample({"input": l, "implementation": out_i[i], "model": out_m[i] if model_ok and i < len(out_m) else None})

    # ---- verdicts ----
    for (l, bad, ans) in clause_fail[:5]:
        o, n = l.split("|")
        ck.violation("property clause(s) fail on the implementation: " + ",".join(bad),
                     {"old": o.strip(), "new": n.strip(), "tagged_old_storage": "old[i]=i+1", "implementation_answer": ans,
                      "how": "echo '<old> | <new>' | .cache/target/st/debug/st_diff"})
    if disagreements and not clause_fail:
        l, m_, i_ = disagreements[0]
        o, n = l.split("|")
        ck.broken.append("correspondence StateTree.Model.plan vs state_tree::build_state_storage_patch_plan")
        ck.violation("model and implementation disagree (no clause of the property fails on the explored inputs)",
                     {"correspondence": "StateTree.Model.{plan,apply_plan} vs state_tree::{build,apply}_state_storage_patch_plan",
                      "old": o.strip(), "new": n.strip(), "model": m_, "implementation": i_,
                      "disagreements": len(disagreements)}, no_input=True)
    if not proved and not clause_fail and not disagreements:
        ck.violation("a proof obligation of Props/C08.v no longer checks", {"broken": ck.broken}, no_input=True)
    return finish(ck)


def parse_sk(s):
    pos = [0]
    def sk():
        while s[pos[0]] == ' ':
            pos[0] += 1
        c = s[pos[0]]
        if c in "DME":
            pos[0] += 1
            st = pos[0]
            while pos[0] < len(s) and s[pos[0]].isdigit():
                pos[0] += 1
            return (c, int(s[st:pos[0]]))
        assert c == '['
        pos[0] += 1
        kids = []
        while True:
            while s[pos[0]] == ' ':
                pos[0] += 1
            if s[pos[0]] == ']':
                pos[0] += 1
                return ('C', kids)
            kids.append(sk())
    return sk()


def finish(ck):
    ck.finish(
        explanation=("Theorems of Props/C08.v are proved in Coq for ALL pairs of layouts (no size bound) over a complete Gallina "
                     "transcription of the state-tree crate; the transcription is tied to /repo by running the extracted model and the real "
                     "crate on the same layout pairs and comparing plans (as sorted sets) and migrated tagged storages byte for byte; the "
                     "clauses of the property are additionally evaluated directly on the implementation's answers."),
        trusted_base=["Coq 8.16.1 kernel (coqc, vm_compute; no native_compute)",
                      "extraction: ExtrOcamlBasic + ExtrOcamlString only, no Extract Constant of our own; OCaml 4.13.1; ocaml/st_drv.ml driver",
                      "translator translators/statetree_consts.py (DELAY_ADDITIONAL_OFFSET from tree.rs)",
                      "harness/st/src/bin/st_diff.rs and the python-side clause oracle in checks/C08.py",
                      "usize/u64 overflow of addresses (layouts >= 2^64 words) is outside the model"],
        rule=("exhaustive ordered pairs of layouts up to the stated node bound, then random pairs derived by edit scripts "
              "(delete/insert/replace/nest/resize), pure-deletion / pure-insertion pairs, mixed edits (subtrees removed AND added in one edit, also nested; "
              "a third unambiguous by construction) and rows of call sites with one site removed and another added elsewhere; a case is non-trivial when the plan is Some and has >= 1 patch; distinct = distinct input lines"))
