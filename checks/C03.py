"""C03 — programs accepted by the type checker run without crashes or memory errors.

P: Props/C03.v: C03_safety — every wf Lmmm program runs on both state disciplines without fault for every run length, every state
   access is inside the storage, dsp yields exactly the declared number of output words (corollary of C05).  PARTIAL: only the
   state layer of the fragment is modelled; Rust `unsafe` memory safety, closures/heap/arrays are not.
C/S: crash oracle on the real compiler + VM (hook H1 bounds of every state access) + WASM runtime, in supervised processes
   (panic / abort / SIGSEGV / timeout / stack overflow are attributed to the input): (a) generated well-typed core programs,
   (b) near-miss programs (type-changing mutations: string / tuple where a number is expected, wrong arity, non-literal delay size,
   non-numeric self ...): accepted => must run; rejected => diagnostics, never a compiler panic, (c) shipped sources and
   type-changing mutations of them.
"""
import glob, json, os, re
from vplib import *
import lmmm
import side_predicates
from lmmm import *

import importlib.util as _ilu0, sys as _sys0
if os.path.join(VERIF, "checks") not in _sys0.path:
    _sys0.path.insert(0, os.path.join(VERIF, "checks"))
def _load_part(name):
    sp = _ilu0.spec_from_file_location("part_" + name, os.path.join(VERIF, "checks", name + ".py"))
    m = _ilu0.module_from_spec(sp); sp.loader.exec_module(m)
    return m
bvm_part = _load_part("bvm_part")
lmmt_part = _load_part("lmmt_part")
OCAML = lmmm.OCAML + bvm_part.OCAML + lmmt_part.OCAML
HARNESS = lmmm.HARNESS + bvm_part.HARNESS + lmmt_part.HARNESS


def near_miss(rng, src):
    """type-changing textual mutation"""
    opts = []
    lits = list(re.finditer(r"(?<![\w.])\d+\.0\b", src))
    if lits: opts += ["str", "tuple", "unit"]
    calls = list(re.finditer(r"\b(f\d+)\(([^()]*)\)", src))
    calls = [c for c in calls if not src[max(0, c.start() - 3):c.start()] == "fn "]
    if calls: opts += ["droparg", "addarg"]
    if "delay(" in src: opts.append("delaysize")
    if "self" in src: opts.append("selftuple")
    if not opts:
        return None, None
    k = rng.choice(opts)
    if k in ("str", "tuple", "unit"):
        m = rng.choice(lits)
        rep = {"str": '"s"', "tuple": "(1.0, 2.0)", "unit": "()"}[k]
        return k, src[:m.start()] + rep + src[m.end():]
    if k == "droparg":
        m = rng.choice(calls)
        args = [a for a in m.group(2).split(",") if a.strip()]
        return k, src[:m.start()] + m.group(1) + "(" + ",".join(args[:-1]) + ")" + src[m.end():]
    if k == "addarg":
        m = rng.choice(calls)
        args = [a for a in m.group(2).split(",") if a.strip()] + [" 1.0"]
        return k, src[:m.start()] + m.group(1) + "(" + ",".join(args) + ")" + src[m.end():]
    if k == "delaysize":
        return k, re.sub(r"delay\(\d+\.0,", "delay(now,", src, count=1)
    if k == "selftuple":
        return k, src.replace("self", "(self, 1.0)", 1)
    return None, None


def outcome(b):
    """('reject',) ('compile-panic',msg) ('ok',) ('run-panic',msg)"""
    if b is None:
        return None
    if 'compile' in b:
        return ('reject',)
    if 'compile_panic' in b:
        return ('compile-panic', b['compile_panic'][:120])
    for s in b['samples']:
        if 'panic' in s:
            return ('run-panic', s['panic'][:120])
    return ('ok',)


def text_classes(src):
    """known-finding class predicates on source text (near-miss / shipped sources)"""
    c = set()
    # F13: an `if` lexically inside a tuple literal  ( ... , ... if ... )
    depth_stack = []
    i = 0
    # cheap approximation: a parenthesised group containing a top-level comma AND the keyword `if` at any depth
    for m in re.finditer(r"\(", src):
        d, j, comma, has_if = 0, m.start(), False, False
        while j < len(src):
            ch = src[j]
            if ch == '(':
                d += 1
            elif ch == ')':
                d -= 1
                if d == 0:
                    break
            elif ch == ',' and d == 1:
                comma = True
            elif src.startswith("if", j) and (j == 0 or not (src[j - 1].isalnum() or src[j - 1] == '_')) and not (src[j + 2:j + 3].isalnum()):
                has_if = True
            j += 1
        pre = src[max(0, m.start() - 1):m.start()]
        if comma and has_if and not (pre.isalnum() or pre == '_'):
            c.add("F13"); break
    # F26: delay whose first argument is not a numeric literal
    for dm in re.finditer(r"\bdelay\(\s*([^,]*),", src):
        if not re.fullmatch(r"\d+(\.\d+)?", dm.group(1).strip()):
            c.add("F26")
    # F40: arithmetic / comparison between a scalar and a tuple literal (tuple broadcasting accepted by the type checker)
    if re.search(r"(\+|-|\*|/|<=|>=|<|>|==|!=)\s*\(\s*-?\d+(\.\d+)?\s*,\s*-?\d+(\.\d+)?\s*\)", src) or \
       re.search(r"\(\s*-?\d+(\.\d+)?\s*,\s*-?\d+(\.\d+)?\s*\)\s*(\+|-|\*|/|<=|>=|<|>|==|!=)", src):
        c.add("F40")
    if "(1.0, 2.0)" in src and re.search(r"[=(,\[]\s*\(\s*\(1\.0, 2\.0\)|\(1\.0, 2\.0\)\s*,\s*-?\d", src):
        c.add("F40")      # ... or nested inside another tuple / record field where a number stood
    # F41: a string literal as an element of a tuple literal
    if re.search(r"\(\s*[^()\"]*,\s*\"[^\"]*\"\s*\)|\(\s*\"[^\"]*\"\s*,", src):
        c.add("F41")
    sizes = {}
    for fm in re.finditer(r"fn\s+(\w+)\s*\([^)]*\)\s*\{", src):
        pass
    # F3: two delay sizes in one function body (approximation: per `fn` chunk)
    for chunk in re.split(r"\bfn\s", src):
        ds = set(re.findall(r"delay\((\d+(?:\.\d+)?),", chunk))
        if len(ds) > 1:
            c.add("F3")
    return c


# known-finding classes identified by the panic SITE (message signature): (finding id, regex on the panic message)
PANIC_SITES = [
    ("F26", r"unbounded delay access"),
    ("F30", r"tys\.windows\(2\)"),
    ("F31", r"non function type"),
    ("F36", r"Qualified Var should be removed in the previous step"),
    ("F37", r"range end index \d+ out of range for slice of length \d+"),
    ("F38", r"value reg\(\d+\) not found|value extfun \w+ \w+ not found"),
    ("F34", r"called `Result::unwrap\(\)` on an `Err` value: \[TypeMismatch"),
    ("F39", r"Instruction not implemented: Error"),
    ("F61", r"index out of bounds: the len is \d+ but the index is \d{15,}"),
]

LIT = r"(?<![\w.])\d+\.0\b"


def witness_requests():
    """corpus/C03/witnesses.json: one or more concrete inputs per listed finding (and per repaired defect, which must stay repaired).
    They run first, so every listed finding is reported on every run and a finding that no longer reproduces is noticed."""
    out = []
    for w in json.load(open(os.path.join(VERIF, "corpus", "C03", "witnesses.json"))):
        rq = {"n": 8, "state": False, "sched": True, "isolate": True}
        if "file" in w:
            path = os.path.join(REPO, w["file"])
            if not os.path.exists(path):
                out.append((w, None)); continue
            src = open(path).read()
            if "literal" in w:
                ms = list(re.finditer(LIT, src))
                if w["literal"] >= len(ms):
                    out.append((w, None)); continue
                m = ms[w["literal"]]
                src = src[:m.start()] + {"str": '"s"', "tuple": "(1.0, 2.0)", "unit": "()"}[w["kind"]] + src[m.end():]
            rq["path"] = path
        else:
            src = w["src"]
        rq["src"] = src
        out.append((w, rq))
    return out



def site_class(msg):
    for fid, rx in PANIC_SITES:
        if re.search(rx, msg):
            return fid
    return None


def run(ck):
    ck.level = "other"
    proved = ck.prove(tables=["statetree_consts"], extra_targets=[lmmm.EXTRACT_TARGET])
    mexe, iexe = build_sides(ck)
    if iexe is None:
        ck.violation("harness does not build", {"broken": ck.broken}, no_input=True)
        return finish(ck)
    quick = ck.tier == "quick"
    findings = {f["id"]: f for f in known_findings("C03")}
    stats = {}
    def bump(k, n=1): stats[k] = stats.get(k, 0) + n
    viol = []
    n_cases, n_samples = (500, 24) if quick else (5000, 96)
    cases = load_corpus("lmmm") + gen_cases(ck, n_cases, n_samples, tag="C03")
    reqs, meta = [], []
    wits = witness_requests()
    for w, rq in wits:
        if rq is not None:
            reqs.append(rq); meta.append(("witness:" + w["id"] + (":repaired" if "repaired" in w else ""), text_classes(rq["src"]) | {w["id"]}, None))
    rng = ck.rng.fork("nearmiss")
    for (p, rows), rq in zip(cases, impl_requests(cases)):
        reqs.append(rq); meta.append(("gen", classes_of(p), len(p['outs'])))
        for _ in range(2):
            k, ms = near_miss(rng, rq["src"])
            if ms and ms != rq["src"]:
                r2 = {"src": ms, "n": rq["n"], "state": True}
                if "inputs" in rq:
                    r2["inputs"] = rq["inputs"]
                tc = text_classes(ms)
                if "F3" in tc:
                    r2["isolate"] = True
                reqs.append(r2); meta.append(("near:" + k, tc | {c for c in classes_of(p) if c != "F13"}, None))
    for msrc in [gen_match_source(ck.rng.fork(("match-C03", i))) for i in range(150 if quick else 1500)]:
        reqs.append({"src": msrc, "n": 8, "state": True}); meta.append(("match", set(), None))
    # closures / higher-order functions / boxed recursive values / scheduler tasks (generator of checks/C12.py), and first-order
    # programs whose `self` is a tuple / record / sum type (lib/wideself.py): the crash oracle only, no model behind them
    import importlib.util as _ilu, wideself as _wide
    _sp = _ilu.spec_from_file_location("check_C12_gen", os.path.join(VERIF, "checks", "C12.py"))
    _c12 = _ilu.module_from_spec(_sp); _sp.loader.exec_module(_c12)
    crng = ck.rng.fork("closures-C03")
    for i in range(200 if quick else 2500):
        g = _c12.gen_program(crng.fork(i))
        reqs.append({"src": g["src"], "n": 12, "state": False, "sched": True}); meta.append(("clos", set(g["tags"]), None))
    for i in range(100 if quick else 1500):
        wc = _wide.gen_case(ck.rng.fork(("wide-C03", i)), 8)
        reqs.append({"src": wc["src"], "n": 8, "state": True}); meta.append(("wide", set(), None))
    frng = Rng(20260925)
    files = sorted(glob.glob(REPO + "/examples/*.mmm") + glob.glob(REPO + "/lib/*.mmm") + glob.glob(REPO + "/crates/lib/mimium-test/tests/mmm/*.mmm"))
    for f in files:
        if os.path.basename(f) in ("scheduler_invalid.mmm",):
            continue
        src = open(f).read()
        reqs.append({"src": src, "path": f, "n": 48, "state": False, "sched": True}); meta.append(("file:" + os.path.basename(f), text_classes(src), None))
        # type-changing mutants of shipped sources: thorough tier only, drawn from a FIXED stream (independent of VERIF_SEED) so
        # that the set of recorded findings is stable; the generated-program mutants above follow VERIF_SEED
        for _ in range(0 if quick else 5):
            k, ms = near_miss(frng, src)
            if ms and ms != src:
                reqs.append({"src": ms, "path": f, "n": 48, "state": False, "sched": True}); meta.append(("filemut:" + k + ":" + os.path.basename(f), text_classes(ms), None))
    for si in range(60 if quick else 600):
        ssrc = lmmm.gen_side_source(ck.rng.fork(("side", si)))
        reqs.append({"src": ssrc, "n": 6, "state": False}); meta.append(("side", text_classes(ssrc), None))
    for rq in reqs:
        rq["typecheck"] = True
    res = run_impl(iexe, reqs, timeout_per_batch=400)
    # a crashed process reported no type-check verdict: ask for it alone (no backend is run)
    crashed = [i for i, r in enumerate(res) if 'crash' in r and meta[i][0] != "gen" and "typecheck" not in r]
    if crashed:
        tq = [{**{k: v for k, v in reqs[i].items() if k not in ("id", "isolate")}, "backends": [], "typecheck": True, "isolate": True} for i in crashed]
        tr = run_impl(iexe, tq, timeout_per_batch=120)
        for i, t in zip(crashed, tr):
            res[i]["typecheck"] = t.get("typecheck", "panic:typecheck crashed" if 'crash' in t else None)
        for i, rq in enumerate(reqs):
            rq['id'] = i
    distinct = set()
    reproduced = set()
    _known = ck.known
    def known_and_note(f, detail):
        reproduced.add(f["id"]); _known(f, detail)
    ck.known = known_and_note
    for (kind, cls, nouts), rq, r in zip(meta, reqs, res):
        src = rq["src"]
        tcv = r.get("typecheck", "ok" if kind == "gen" else None)
        if tcv is not None and tcv != "ok":
            # rejected by (or crashing) the front end: not an ACCEPTED program -> C04's domain, not C03's
            bump("not_accepted_" + ("frontend_panic" if tcv.startswith("panic") else "diagnostics")); continue
        if 'crash' in r and tcv is None and kind != "gen":
            # the process died before the verdict could be reported: re-classification impossible -> treat as accepted
            pass
        if 'crash' in r:
            if r['crash'] == "stack-overflow" and kind.startswith(("near", "filemut")):
                bump("mutant_unbounded_recursion"); continue
            hit = [c for c in ("F3", "F40", "F41", "X7") if c in cls and c in findings]
            if hit:
                bump("crash_in_known_class_" + hit[0]); ck.known(findings[hit[0]], kind + " " + src.replace("\n", " ")[:120]); continue
            viol.append(("process died (%s) on %s" % (r['crash'], kind), src, rq)); continue
        if kind == "side":
            ov, ow = outcome(r.get("vm")), outcome(r.get("wasm"))
            if ov is not None and ow is not None and ov[0] == 'ok' and ow[0] == 'ok':
                sv = [s_.get('out') for s_ in r['vm']['samples']]; sw = [s_.get('out') for s_ in r['wasm']['samples']]
                if sv != sw:
                    viol.append(("VM and WASM differ on a program of the side families (non-finite match scrutinee / large literals / pattern-binder "
                                 "scope / record width assignment): vm %s wasm %s" % (str(sv)[:120], str(sw)[:120]), src, rq))
                else:
                    bump("side_vm_equals_wasm")
            elif (ov is not None and ov[0] == 'reject') != (ow is not None and ow[0] == 'reject'):
                viol.append(("one backend rejects a side-family program that the other accepts", src, rq))
        for be in ("vm", "wasm"):
            o = outcome(r.get(be))
            if o is None:
                continue
            if "must be in the future" in str(o):
                bump("scheduler_premise_violated"); continue
            if o[0] in ("compile-panic", "run-panic"):
                sc = site_class(o[1])
                # F64 = C12/F26 seen by the crash oracle: the panic site alone does not identify it, the program must also
                # return a let-bound boxed value as the result of the scope that releases it
                if sc is None and re.search(r"BoxLoad: invalid heap index", o[1]) and _c12.let_result_pattern(src):
                    sc = "F64"
                # classes identified by panic site AND a predicate on the source (lib/side_predicates.py)
                if sc is None and side_predicates.closure_stored_in_array(src, o[1]):
                    sc = "B1"
                if sc is None and o[0] == "compile-panic" and "overflow" in o[1] and side_predicates.match_literals_far_apart(src):
                    sc = "J5"
                if sc is None and o[0] == "compile-panic" and re.search(r"value function \d+ not found|failed to find upvalue", o[1]) \
                        and side_predicates.assignment_to_lambda_bound_name(src):
                    sc = "T4b"
                if sc is None and o[0] == "compile-panic" and side_predicates.match_arm_value_is_lambda(src, o[1]):
                    sc = "ML"
                hit = [sc] if (sc and sc in findings) else [c for c in ("F3", "F40", "F41") if c in cls and c in findings]
                if hit:
                    bump(be + "_panic_in_known_class_" + hit[0]); ck.known(findings[hit[0]], kind + " " + src.replace("\n", " ")[:120])
                else:
                    viol.append(("%s %s on %s: %s" % (be, o[0], kind, o[1]), src, rq))
                continue
            bump(be + "_" + o[0] + "_" + kind.split(":")[0])
            if o[0] == 'ok':
                distinct.add(src)
                b = r[be]
                # declared number of outputs
                if nouts is not None and b.get('io') and b['io'][1] != nouts:
                    viol.append(("%s declares %d outputs for a dsp returning %d values" % (be, b['io'][1], nouts), src, rq))
                # VM: every state access hits a cell of the published layout (hence lies inside the storage sized from it)
                if be == "vm" and b.get('skel') and kind in ("gen", "match", "wide"):
                    for t, s in enumerate(b['samples']):
                        off = events_hit_cells(b['skel'], s.get('trace', []))
                        if off:
                            viol.append(("VM state access %s at sample %d is not inside a cell of the layout %s" % (off[0], t, b['skel']), src, rq)); break
                # VM: every state access inside the storage (hook H1 records the storage length with every access)
                if be == "vm":
                    for s in b['samples']:
                        for ev in s.get('trace', []):
                            if ev[0] <= 2 and ev[1] + ev[2] > ev[3]:
                                hit = [c for c in ("F3",) if c in cls and c in findings]
                                if hit:
                                    bump("oob_in_known_class_F3"); ck.known(findings["F3"], src.replace("\n", " ")[:120])
                                else:
                                    viol.append(("VM state access [%d,%d) outside the storage of %d words" % (ev[1], ev[1] + ev[2], ev[3]), src, rq))
                                break
    # ---------------- bytecode part: model VM = real VM on real bytecode, verified bytecode verifier (checks/bvm_part.py) ----------------
    ck.known = _known
    bvm_viol = bvm_part.run_part(ck, quick)
    # ---------------- type-system part: tc_prog (proved sound for the reference semantics) vs typing.rs (checks/lmmt_part.py) ----------------
    bvm_viol = bvm_viol + lmmt_part.run_part(ck, quick, site_class=site_class)
    ck.known = known_and_note
    stale = sorted(w["id"] for w, rq in wits if "repaired" not in w and w["id"] in findings and w["id"] not in reproduced)
    listed_without_witness = sorted(set(findings) - {w["id"] for w, _ in wits})
    for fid in stale:
        print(f"NOTE: property=C03 the witness of listed finding {fid} no longer shows the defect (repaired? then turn the line into `fixed:`)", flush=True)
    ck.coverage["findings_reproduced"] = sorted(reproduced)
    ck.coverage["findings_whose_witness_no_longer_fails"] = stale
    ck.coverage["findings_without_witness"] = listed_without_witness
    ck.coverage["evaluations"] = len(reqs)
    ck.coverage["distinct_nontrivial"] = len(distinct)
    ck.coverage["stats"] = stats
    for i in (0, 1, len(reqs) // 2, len(reqs) - 1):
        ck.sample({"kind": meta[i][0], "source": reqs[i]["src"][:400]})
    # one violation per distinct panic signature / kind
    seen_sig, uniq = set(), []
    for what, src, rq in viol:
        sig = re.sub(r"\d+", "N", what.split(" on ")[0] + "|" + what.split(": ", 1)[-1])[:120]
        if sig not in seen_sig:
            seen_sig.add(sig); uniq.append((what, src, rq))
    ck.coverage["distinct_unknown_failure_signatures"] = len(uniq)
    for what, src, rq in uniq[:12]:
        ck.violation(what, {"source": src, "request": {k: v for k, v in rq.items() if k not in ("src",)},
                            "how": "echo '<request json with src>' | .cache/target/lang/debug/lmmm_run"})
    for what, rp in bvm_viol[:6]:
        ck.violation(what, {k: v for k, v in rp.items() if k != "no_input"}, no_input=bool(rp.get("no_input")))
    if not proved and not viol and not bvm_viol:
        ck.violation("a proof obligation of Props/C03.v no longer checks", {"broken": ck.broken}, no_input=True)
    return finish(ck)


def finish(ck):
    ck.finish(
        explanation=("PARTIAL. Proved (Coq): well-formed Lmmm programs never fault on the VM-style or WASM-style state machine, all state accesses are "
                     "in bounds, dsp yields the declared number of words (C03_safety, corollary of C05). Everything else is a crash oracle, not a proof: "
                     "accepted programs (generated, near-miss mutants that still type-check, shipped sources and their mutants) must compile and run "
                     "N samples on both backends without panic / abort / SIGSEGV / timeout, VM state accesses are bounds-checked through hook H1; "
                     "rejected programs must be rejected by diagnostics, never by a compiler panic. Memory safety of Rust `unsafe` code itself, "
                     "closures, heap objects, arrays and globals are not modelled.  BYTECODE PART (Props/C03_bvm.v, checks/bvm_part.py): Bvm/Model.v "
                     "runs the real compiler's bytecode (one constructor per bytecode::Instruction variant, pinned each run) and agrees with the real VM "
                     "bit for bit per sample; Bvm/Verify.v is a bytecode verifier whose soundness is proved (C03_bvm_verified_safe / _main_safe / "
                     "_session_safe: accepted bytecode never faults for any arithmetic, input and number of samples, dsp leaves exactly its declared "
                     "words, storage = published size, cursor home; C03_bvm_fuel: explicit fuel bound) and which is run on the bytecode of every "
                     "generated and shipped program: a rejection of compiler-emitted bytecode is a violation covering all paths.  Outside the "
                     "bytecode part's subset: closures/upvalues, heap boxes, arrays, integer instructions, machine integer widths.  TYPE-SYSTEM PART "
                     "(Props/C03_types.v, theory Lmmt, checks/lmmt_part.py): an executable annotation-driven type checker tc_prog for the core language "
                     "with closures, and TYPE SOUNDNESS of the reference semantics Lmmx.Ref proved for the whole language (C03_types_sound / "
                     "_never_stuck / _sound_reachable / _preservation: an accepted program never answers Stuck for any fuel, input or reachable "
                     "state, and every output row has word_size(return type of dsp) numbers); typing.rs is compared with the extracted tc_prog on "
                     "generated programs and 44 kinds of type-changing mutants (strict model <= real <= lenient model), everything the real checker "
                     "accepts is run on both backends."),
        trusted_base=["Coq 8.16.1 kernel", "harness supervision (process exit status, catch_unwind)", "hook H1 bounds data", "lib/lmmm.py generator",
                      "extraction (ExtrOcamlBasic/ExtrOcamlString) + ocaml/bvm_drv.ml (Z/int64 conversion, IEEE and libm arithmetic record, external-function table)",
                      "harness bin bc_dump.rs", "checks/bvm_part.py class predicates and comparison"],
        rule="generated core programs + 2 type-changing near-miss mutants each + all shipped .mmm + near-miss mutants; distinct_nontrivial = distinct accepted sources that ran to the end on a backend")
