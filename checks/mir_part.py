"""MIR state-layer part of C05 (also serves C03 / C01 / C18; imported by checks/C05.py):  run_part(ck, quick) -> [(what, replay_obj)].

P: coq/theories/Props/C05_mir.v over Mirst/{Model,Spec,Cells,Sound,Examples}.v: a static checker `check_prog` for the state
   view of a whole MIR program (every function, every block, every arm; nothing is executed) and its soundness: an accepted
   program never faults on any path, every state access of every path hits exactly one cell of the published skeleton of the
   function that runs (offset, kind, size), every call returns with the cursor at its entry value, everything stays inside
   storage sized from the skeleton.  The MIR the compiler produced before the fixes F2 / F27 is rejected (and faults).
C: the REAL compiler's Mir of every input (harness/lang/src/bin/mir_dump.rs: Context::emit_mir, one line per instruction) is
   judged by the extracted checker (ocaml/mirst_drv.ml): generated first-order programs with stateful `if` arms (lib/lmmm.py),
   `match` programs (lmmm.gen_match_source), closures / higher-order functions / tuples / records / arrays / recursion
   (checks/C18.py XGen), closures and lambdas WITH state passed around (CGen below), and every *.mmm shipped in the repository.
   The verdict must be `accept`; a rejection is a concrete program whose MIR leaves the discipline on SOME path, taken or not.
S: on a sample the real VM runs the program (lmmm_run, hook H1): no panic, cursor home, and the recorded access trace of every
   dsp call must be a path of the dumped view (extracted `accepts_trace`, closures' private storages included) — this ties
   the interpreter the theorem is about to vm.rs + bytecodegen.rs.
"""
import concurrent.futures, glob, importlib.util, json, os, re, subprocess, sys, time
if not any(os.path.basename(p_) == "lib" and os.path.exists(os.path.join(p_, "vplib.py")) for p_ in sys.path):
    sys.path.insert(0, os.path.join(os.path.dirname(os.path.dirname(os.path.abspath(__file__))), "lib"))   # standalone runs
import vplib
from vplib import VERIF, log
import lmmm

OCAML = [("mirst_drv", ["mirst_model"], "ocaml/mirst_drv.ml")]
HARNESS = [("lang", ["mir_dump", "lmmm_run"], True)]
COQ_TARGETS = ["theories/Props/C05_mir.vo", "theories/Extract/MirstExtract.vo"]
PROPS = "C05_mir"
DUMP_TIMEOUT_S = 300
CDEPTH = 3           # how deep calls of closures may nest in an observed trace (Mirst/Follow.v)


# ------------------------------------------------------------------------------------------------
# generator: state inside closures, lambdas handed to higher-order functions, closure factories, nested branches
# ------------------------------------------------------------------------------------------------
class CGen:
    LITS = ["1.0", "2.0", "3.0", "0.5", "10.0"]

    def __init__(self, rng):
        self.r = rng
        self.k = 0

    def fresh(self, p):
        self.k += 1
        return "%s%d" % (p, self.k)

    def atom(self, vars_, in_fn):
        r = self.r
        v = r.choice(vars_) if vars_ and r.chance(2, 3) else r.choice(self.LITS)
        c = r.below(9)
        if c == 0: return "cnt(%s)" % v
        if c == 1: return "osc(%s)" % v
        if c == 2: return "mem(%s)" % v
        if c == 3: return "delay(%d.0, %s, %d.0)" % (r.range(1, 5), v, r.range(0, 2))
        if c == 4: return "acc()"
        if c == 5 and in_fn: return "self"
        if c == 6: return "pair(%s).%d" % (v, r.below(2))
        return v

    def expr(self, d, vars_, in_fn, funs):
        """float-valued expression with stateful sites; funs: names of callable (float)->float values in scope"""
        r = self.r
        if d <= 0:
            return self.atom(vars_, in_fn)
        c = r.below(12)
        sub = lambda: self.expr(d - 1, vars_, in_fn, funs)
        if c < 3: return "(%s + %s)" % (sub(), sub())
        if c < 5: return "(if (%s > %s) { %s } else { %s })" % (self.atom(vars_, in_fn), r.choice(self.LITS), sub(), sub())
        if c < 6:
            arms = ", ".join("%d => %s" % (i, sub()) for i in range(r.range(1, 2)))
            return "(match (%s) { %s, _ => %s })" % (r.choice(vars_) if vars_ else "now", arms, sub())
        if c < 8 and funs: return "%s(%s)" % (r.choice(funs), sub())
        if c < 9: return "hof(%s, %s)" % (self.lam(d - 1, vars_, funs), sub())
        if c < 10 and funs: return "(%s |> %s)" % (sub(), r.choice(funs))
        if c < 11:
            x = self.fresh("b")
            return "{ let %s = %s\n      %s }" % (x, sub(), self.expr(d - 1, vars_ + [x], in_fn, funs))
        return self.atom(vars_, in_fn)

    def lam(self, d, vars_, funs):
        y = self.fresh("y")
        return "|%s| { %s }" % (y, self.expr(d, vars_ + [y], False, funs))

    def program(self):
        r = self.r
        out = ["fn cnt(x){ self + x }", "fn osc(f){ mem(f) + delay(3.0, f, 1.0) }", "fn acc(){ self * 0.5 + 1.0 }",
               "fn pair(x)->(float,float){ let (a, b) = self\n  (a + x, b + 1.0) }",
               "fn hof(f:(float)->float, x:float){ f(x) + f(x + 1.0) }"]
        gfuns = ["cnt", "osc"]
        for _ in range(r.below(3)):
            kind = r.below(3)
            if kind == 0:      # named stateful function with branches
                n, q = self.fresh("fa"), self.fresh("q")
                out.append("fn %s(%s){\n  %s\n}" % (n, q, self.expr(r.range(1, 3), [q], True, list(gfuns))))
                gfuns.append(n)
            elif kind == 1:    # closure factory: the returned closure has state of its own and captures n
                n, q = self.fresh("mk"), self.fresh("n")
                out.append("fn %s(%s){\n  %s\n}" % (n, q, self.lam(r.range(1, 2), [q], list(gfuns))))
                g = self.fresh("k")
                out.append("let %s = %s(%s)" % (g, n, r.choice(self.LITS)))
                gfuns.append(g)
            else:              # higher-order function that calls its argument in a branch
                n, f, x = self.fresh("hb"), self.fresh("g"), self.fresh("x")
                out.append("fn %s(%s:(float)->float, %s:float){\n  if (%s > 1.0) { %s(%s) + cnt(%s) } else { %s(%s) }\n}" % (
                    n, f, x, x, f, x, x, r.choice(["osc", "cnt"]), x))
        lines = []
        vars_ = []
        funs = list(gfuns)
        for _ in range(r.range(1, 3)):
            c = r.below(4)
            if c == 0:
                x = self.fresh("c")
                lines.append("let %s = %s" % (x, self.lam(r.range(1, 2), vars_, list(funs))))
                funs.append(x)
            elif c == 1:
                x = self.fresh("v")
                lines.append("let %s = %s" % (x, self.expr(r.range(1, 3), vars_ + ["now"], False, list(funs))))
                vars_.append(x)
            elif c == 2:
                x = self.fresh("v")
                lines.append("let %s = %s %% %d.0" % (x, "now", r.range(2, 4)))
                vars_.append(x)
            else:
                hb = [l for l in out if l.startswith("fn hb")]
                if hb:
                    name = re.match(r"fn (hb\d+)", hb[-1]).group(1)
                    x = self.fresh("v")
                    lines.append("let %s = %s(%s, %s)" % (x, name, r.choice(funs), r.choice(vars_ + ["now"])))
                    vars_.append(x)
        lines.append(self.expr(r.range(1, 3), vars_ + ["now"], False, funs))
        out.append("fn dsp(){\n  %s\n}" % "\n  ".join(lines))
        return "\n".join(out) + "\n"


def _other_check(name):
    spec = importlib.util.spec_from_file_location(name + "_for_mir_part", os.path.join(VERIF, "checks", name + ".py"))
    m = importlib.util.module_from_spec(spec)
    spec.loader.exec_module(m)
    return m


def _c18():
    return _other_check("C18")


def shipped_files():
    fs = glob.glob(vplib.REPO + "/**/*.mmm", recursive=True)
    return sorted(f for f in fs if "/target/" not in f and "/node_modules/" not in f)


def corpus_dir():
    return os.path.join(VERIF, "corpus", "mirst")


def gen_inputs(ck, quick):
    """list of dict(name, src, path, stream)"""
    rng = ck.rng.fork("mir")
    n_l, n_m, n_x, n_c = (800, 500, 600, 900) if quick else (6000, 4000, 5000, 8000)
    out = []
    d = corpus_dir()
    if os.path.isdir(d):
        for fn in sorted(os.listdir(d)):
            if fn.endswith(".mmm"):
                out.append({"name": "corpus/" + fn, "src": open(os.path.join(d, fn)).read(), "path": None,
                            "stream": "witness" if fn.startswith("finding_") else "corpus"})
    fake = type("K", (), {})()
    fake.rng = rng.fork("lmmm")
    for i, (p, _rows) in enumerate(lmmm.gen_cases(fake, n_l, 1, tag="mir", stateful_arms_share=2)):
        # every 4th program is printed with non-integer delay maxima (the compiler truncates them, in the skeleton and in the code)
        out.append({"name": "lmmm%d" % i, "src": lmmm.pp_prog(p, {('opt', 'frac_delay'): True} if i % 4 == 3 else None),
                    "path": None, "stream": "lmmm"})
    try:
        # type-changing near misses of the first-order programs (checks/C03.py): the ones the compiler still accepts
        c03 = _other_check("C03")
        rn = rng.fork("nearmiss")
        base = [it for it in out if it["stream"] == "lmmm"]
        for i, it in enumerate(base[:len(base) // 2]):
            kind, src = c03.near_miss(rn.fork(i), it["src"])
            if src:
                out.append({"name": "nearmiss%d-%s" % (i, kind), "src": src, "path": None, "stream": "nearmiss"})
    except Exception as ex:
        log("mir_part: C03 near-miss generator unavailable: %s" % ex)
    rm = rng.fork("match")
    for i in range(n_m):
        out.append({"name": "match%d" % i, "src": lmmm.gen_match_source(rm.fork(i)), "path": None, "stream": "match"})
    try:
        c18 = _c18()
        fake2 = type("K", (), {})()
        fake2.rng = rng.fork("xgen")
        for c in c18.xgen_cases(fake2, n_x, 1):
            out.append({"name": c["name"], "src": c["src"], "path": None, "stream": "xgen"})
    except Exception as ex:          # the generator of another check is a convenience, not a dependency
        log("mir_part: C18 generator unavailable: %s" % ex)
    rc_ = rng.fork("cgen")
    for i in range(n_c):
        out.append({"name": "cgen%d" % i, "src": CGen(rc_.fork(i)).program(), "path": None, "stream": "cgen"})
    for f in shipped_files():
        try:
            out.append({"name": os.path.relpath(f, vplib.REPO), "src": open(f, errors="replace").read(), "path": f, "stream": "shipped"})
        except OSError:
            pass
    return out


# ------------------------------------------------------------------------------------------------
# running the dumper (supervised) and the model driver
# ------------------------------------------------------------------------------------------------
def parse_blocks(text):
    """-> {id: (status, [lines])}"""
    blocks, cur = {}, None
    for l in text.split("\n"):
        if l.startswith("@@BEGIN "):
            t = l.split(" ", 2)
            cur = (t[1], t[2] if len(t) > 2 else "", [])
        elif l.startswith("@@END"):
            if cur is not None:
                blocks[cur[0]] = (cur[1], cur[2])
            cur = None
        elif cur is not None:
            cur[2].append(l)
    return blocks


def _dump_batch(exe, reqs, timeout):
    text = "\n".join(json.dumps(r) for r in reqs) + "\n"
    try:
        p = subprocess.run([exe], input=text, stdout=subprocess.PIPE, stderr=subprocess.PIPE, text=True, errors="replace",
                           timeout=timeout, env={**os.environ, "RUST_LOG": "off"})
        return parse_blocks(p.stdout), p.returncode
    except subprocess.TimeoutExpired as ex:
        out = ex.stdout.decode(errors="replace") if isinstance(ex.stdout, bytes) else (ex.stdout or "")
        return parse_blocks(out), "timeout"


def dump_all(exe, items, shards=None):
    """items[i] -> (status, lines); a request the dumper process dies on is ('crash <rc>', [])"""
    reqs = [{"id": i, "src": it["src"], "path": it["path"], "sched": True} for i, it in enumerate(items)]
    res = [None] * len(items)
    shards = shards or max(1, min(vplib.NPROC, 8, len(reqs) // 16 or 1))
    chunks = [reqs[i::shards] for i in range(shards)]

    def work(chunk):
        todo = list(chunk)
        while todo:
            blocks, rc = _dump_batch(exe, todo, DUMP_TIMEOUT_S)
            done = 0
            for r in todo:
                b = blocks.get(str(r["id"]))
                if b is None:
                    break
                res[r["id"]] = b
                done += 1
            if done >= len(todo):
                break
            bad = todo[done]
            b1, rc1 = _dump_batch(exe, [bad], 60)
            res[bad["id"]] = b1.get(str(bad["id"]), ("crash %s" % rc1, []))
            todo = todo[done + 1:]
    with concurrent.futures.ThreadPoolExecutor(max_workers=shards) as ex:
        list(ex.map(work, chunks))
    return res


def _model_call(exe, blocks, timeout):
    text = []
    for i, st, lines in blocks:
        text.append("@@BEGIN %s %s" % (i, st))
        text.extend(lines)
        text.append("@@END %s" % i)
    rc, out, _ = vplib.sh([exe], input="\n".join(text) + "\n", timeout=timeout)
    ans = {}
    for l in out.split("\n"):
        if l.startswith("#"):
            t = l[1:].split(" ")
            ans[t[0]] = t[1:]
    return rc, ans, out


def run_model(exe, blocks, stats=None):
    """blocks: list of (id, status, lines) -> {id: answer words}.  Chunks run in parallel; a chunk that does not finish is
    halved until the slow program is alone, which is then judged without its observed traces (counted in stats)."""
    ans = {}

    def work(chunk, timeout=45):
        rc, a, out = _model_call(exe, chunk, timeout)
        if rc == 0 and len(a) == len(chunk):
            return a
        if rc != 124:
            raise RuntimeError("model driver failed rc=%s answers=%d/%d: %s" % (rc, len(a), len(chunk), out[-300:]))
        if len(chunk) > 1:
            h = len(chunk) // 2
            r = work(chunk[:h], timeout)
            r.update(work(chunk[h:], timeout))
            return r
        i, st, lines = chunk[0]
        rc, a, out = _model_call(exe, [(i, st, [l for l in lines if not l.startswith("S ")])], 300)
        if rc != 0 or len(a) != 1:
            raise RuntimeError("model driver failed on one program rc=%s: %s" % (rc, out[-300:]))
        if stats is not None:
            stats["trace_follow_timeouts"] = stats.get("trace_follow_timeouts", 0) + 1
        return a
    n = max(1, min(vplib.NPROC, 8))
    size = max(20, min(150, len(blocks) // (2 * n) + 1))
    chunks = [blocks[i:i + size] for i in range(0, len(blocks), size)]
    with concurrent.futures.ThreadPoolExecutor(max_workers=n) as ex:
        for a in ex.map(work, chunks):
            ans.update(a)
    if len(ans) != len(blocks):
        raise RuntimeError("model driver answered %d of %d programs" % (len(ans), len(blocks)))
    return ans


# ------------------------------------------------------------------------------------------------
# diagnostics: WHY a dump is rejected (python re-statement of Mirst/Model.v walk; the verdict itself is the extracted checker's)
# ------------------------------------------------------------------------------------------------
def parse_skel(s):
    pos = [0]

    def sk():
        while s[pos[0]] == ' ': pos[0] += 1
        c = s[pos[0]]
        if c in "DME":
            pos[0] += 1
            st = pos[0]
            while pos[0] < len(s) and s[pos[0]].isdigit(): pos[0] += 1
            return (c, int(s[st:pos[0]]))
        if c != '[':
            raise ValueError(s)
        pos[0] += 1
        ch = []
        while True:
            while s[pos[0]] == ' ': pos[0] += 1
            if s[pos[0]] == ']':
                pos[0] += 1
                return ('F', ch)
            ch.append(sk())
    return sk()


def sk_size(sk):
    if sk[0] == 'D': return sk[1] + 2
    if sk[0] in 'ME': return sk[1]
    return sum(sk_size(c) for c in sk[1])


def parse_dump(lines):
    funs = []
    for l in lines:
        if l.startswith("F "):
            _, idx, label, sk = l.split(" ", 3)
            funs.append({"idx": int(idx), "label": label, "skel": parse_skel(sk), "skels": sk, "blocks": []})
        elif l.startswith("B ") and funs:
            funs[-1]["blocks"].append([])
        elif l.startswith("I ") and funs and funs[-1]["blocks"]:
            t = l.split(" ")
            funs[-1]["blocks"][-1].append((t[1], t[2], t[3:]))
    return funs


class _Reject(Exception):
    pass


def flat_cells(sk, base):
    if sk[0] != 'F':
        return [(base, sk[0], sk_size(sk))]
    out = []
    for c in sk[1]:
        out += flat_cells(c, base)
        base += sk_size(c)
    return out


def explain_fun(funs, f):
    tops, off = [], 0
    for c in f["skel"][1] if f["skel"][0] == 'F' else []:
        tops.append((off, c))
        off += sk_size(c)
    used = [0] * len(tops)
    uint = {}
    for b in f["blocks"]:
        for d, n, a in b:
            if n == "Uinteger":
                uint.setdefault(d, []).append(int(a[0]))

    def site(cur, pred, what, slot=0):
        for i, (o, c) in enumerate(tops):
            if o == cur and pred(c) and not (used[i] & (1 << slot)):
                used[i] |= (1 << slot)
                return
        raise _Reject("%s at cursor %d: no free cell of that kind and size at that offset in %s" % (what, cur, f["skels"]))

    def walk(b, cur, depth):
        if depth > len(f["blocks"]) + 1 or b >= len(f["blocks"]):
            raise _Reject("block structure (block %d)" % b)
        blk = f["blocks"][b]
        k = 0
        while k < len(blk):
            d, n, a = blk[k]
            k += 1
            if n == "PushStateOffset": cur += int(a[0])
            elif n == "PopStateOffset":
                if cur < int(a[0]): raise _Reject("popstateidx %s with the cursor at %d (block %d)" % (a[0], cur, b))
                cur -= int(a[0])
            elif n == "GetState": site(cur, lambda c: c == ('E', int(a[0])), "getstate of %s words" % a[0], 0)
            elif n == "ReturnFeed":
                if cur != 0: raise _Reject("cursor %d at retfeed (block %d)" % (cur, b))
                site(cur, lambda c: c == ('E', int(a[0])), "retfeed of %s words" % a[0], 1)
                return cur, True
            elif n == "Mem": site(cur, lambda c: c == ('M', 1), "mem")
            elif n == "Delay": site(cur, lambda c: c == ('D', int(a[0])), "delay %s" % a[0])
            elif n == "Call":
                if a[0].startswith("r"):
                    ds = uint.get(a[0][1:], [])
                    if len(ds) != 1: raise _Reject("call through a register that is not one uint constant")
                    if ds[0] >= len(funs): raise _Reject("call of unknown function %d" % ds[0])
                    g = funs[ds[0]]
                    if g["skel"] != ('F', []):
                        try:
                            site(cur, lambda c: c == g["skel"], "call of %s with state %s" % (g["label"], g["skels"]))
                        except _Reject:
                            # Mirst/Model.v shared_ok: the callee's cells are all cells of this function's layout (recursion)
                            if not all(x in flat_cells(f["skel"], 0) for x in flat_cells(g["skel"], cur)):
                                raise
                elif a[0] != "ext": raise _Reject("call " + a[0])
            elif n in ("CallCls", "CallIndirect"):
                if not (a[0].startswith("r") or a[0] == "ext"): raise _Reject(n + " " + a[0])
            elif n in ("JmpIf", "Switch"):
                if n == "JmpIf":
                    arms, m = [int(a[0]), int(a[1])], int(a[2])
                else:
                    m = int(a[0])
                    arms = [int(x) for x in a[3:]] + ([int(a[1])] if a[1] != "-" else [])
                if not arms: raise _Reject("switch without arms")
                cs = []
                for x in arms:
                    c, r = walk(x, cur, depth + 1)
                    if r: raise _Reject("return inside an arm (block %d)" % x)
                    cs.append(c)
                if len(set(cs)) != 1:
                    raise _Reject("the arms %s of the branch in block %d re-join with cursors %s" % (arms, b, cs))
                cur, r = walk(m, cs[0], depth + 1)
                if r: return cur, True
            elif n == "Return":
                if cur != 0: raise _Reject("cursor %d at ret (block %d)" % (cur, b))
                return cur, True
            elif n == "Jmp": raise _Reject("jmp")
        return cur, False

    if f["skel"][0] != 'F': raise _Reject("skeleton is not a FnCall")
    if not f["blocks"]: raise _Reject("no entry block")
    _, ret = walk(0, 0, 0)
    if not ret: raise _Reject("the function falls off its end")
    for i, (o, c) in enumerate(tops):
        if sk_size(c) != 0 and used[i] != (3 if c[0] == 'E' else 1):
            raise _Reject("cell %d (%s at offset %d) of %s is %s" % (i, c, o, f["skels"], "never used" if used[i] == 0 else "used by only one of getstate / retfeed"))


def rejected_functions(lines):
    """[(function dict, reason)] for every function the python restatement of the walk rejects"""
    funs = parse_dump(lines)
    out = []
    for f in funs:
        try:
            explain_fun(funs, f)
        except _Reject as e:
            out.append((f, str(e)))
        except Exception as ex:
            out.append((f, "error: %s" % ex))
    return out


# ---- known finding F64 (class generic-self-sized-before-resolution) ----------------------------------------------------
# fn f(x){ self }  instantiated at a multi-word type: the monomorphised instance publishes a Feed cell sized from the still
# unresolved type of `self` (1 word) while its getstate / retfeed move the words of the resolved type.
F64 = {"id": "F64", "cls": "generic-self-sized-before-resolution",
       "witness": "finding_F64_generic_self.mmm"}


def in_class_F64(lines):
    """every rejected function is a `_mono_` instance whose only fault is a getstate / retfeed word size that differs from
    the size of the Feed cell it publishes at offset 0"""
    try:
        bad = rejected_functions(lines)
    except Exception:
        return False
    if not bad:
        return False
    for f, _why in bad:
        if "_mono_" not in f["label"]:
            return False
        ws = set(int(a[0]) for b in f["blocks"] for (_d, n, a) in b if n in ("GetState", "ReturnFeed"))
        kids = f["skel"][1] if f["skel"][0] == 'F' else []
        if not kids or kids[0][0] != 'E' or len(ws) != 1 or kids[0][1] in ws:
            return False
        # with the Feed cell resized to what the code moves the function must be fine (sizes of the later cells shift, so
        # only check a function whose Feed is its only cell or recompute: re-run the walk on the patched skeleton)
        g = dict(f)
        g["skel"] = ('F', [('E', ws.pop())] + list(kids[1:]))
        g["skels"] = f["skels"]
        try:
            # calls inside g see the other functions' skeletons unchanged
            explain_fun(parse_dump(lines), g)
        except _Reject:
            return False
        except Exception:
            return False
    return True


def explain(lines):
    try:
        funs = parse_dump(lines)
    except Exception as ex:
        return "dump not parsed: %s" % ex
    for f in funs:
        try:
            explain_fun(funs, f)
        except _Reject as e:
            return "fn %s: %s" % (f["label"], e)
        except Exception as ex:
            return "fn %s: %s" % (f["label"], ex)
    return "(the python restatement accepts: see Mirst/Model.v walk)"


def closure_calls(funs):
    """does the program call through a function VALUE (CallCls / CallIndirect of a register)?  Then the H1 trace may mix the
    closures' private storages with the global one."""
    return any(n in ("CallCls", "CallIndirect") and a and a[0].startswith("r")
               for f in funs for b in f["blocks"] for (_d, n, a) in b)


def closure_state(funs):
    """... and is there a stateful function a closure could be made of at all?"""
    return closure_calls(funs) and sum(1 for f in funs if f["skel"] != ('F', [])) > 0


def h1_line(trace, cdepth):
    ws = []
    for ev in trace:
        k, pos, sz = ev[0], ev[1], ev[2]
        if k <= 2:
            ws.append("%s:%d:%d:%d" % ("gsd"[k], pos, sz, ev[3]))
    return "S %d " % cdepth + " ".join(ws)


# ------------------------------------------------------------------------------------------------
# the part
# ------------------------------------------------------------------------------------------------
def prove_part(ck):
    if os.environ.get("VERIF_DEV_NOPROVE") == "1":
        return []
    bad = []
    rc, out, dt = vplib.coq_make([COQ_TARGETS[0]], timeout=1500)
    ck.coverage["mir_coq_build_s"] = round(dt, 1)
    if rc != 0:
        return ["coq: " + vplib.first_coq_error(out).replace("\n", " | ")[:600]]
    hits = [h for h in vplib.coq_audit_sources() if "/Mirst/" in h or "C05_mir" in h or "MirstExtract" in h]
    if hits:
        return ["audit: forbidden construct: " + "; ".join(hits[:5])]
    thms, exs = vplib.props_theorems(PROPS)
    ck.coverage["mir_theorems"] = thms
    ck.coverage["mir_examples"] = exs
    try:
        ax = vplib.coq_print_assumptions(PROPS, thms + exs)
    except RuntimeError as ex:
        return ["audit: " + str(ex)[:400]]
    open_ = {k: v for k, v in ax.items() if v}
    if open_ or set(ax) != set(thms + exs):
        bad.append("audit: theorems of Props/C05_mir.v are not closed under the global context: %r" % open_)
    ck.coverage["mir_print_assumptions"] = {k: (v or ["Closed under the global context"]) for k, v in ax.items()}
    ck.obligations += len(thms) + len(exs)
    if not bad:
        ck.discharged += len(thms) + len(exs)
    return bad


def corpus_dumps():
    """corpus/mirst/*.dump: raw dumps (mir_dump format) whose first line is `# expect accept|reject`"""
    out = []
    d = corpus_dir()
    if os.path.isdir(d):
        for fn in sorted(os.listdir(d)):
            if fn.endswith(".dump"):
                ls = open(os.path.join(d, fn)).read().split("\n")
                want = ls[0].replace("# expect", "").strip() if ls and ls[0].startswith("# expect") else "accept"
                out.append((fn, want, [l for l in ls if l and not l.startswith("#")]))
    return out


def run_part(ck, quick=True):
    t0 = time.time()
    viol = []
    for b in prove_part(ck):
        ck.broken.append("mir: " + b)
        viol.append(("MIR state checker: proof obligation no longer checks: " + b, {"no_input": True}))
    rc, out, _ = vplib.coq_make([COQ_TARGETS[1]], timeout=900)
    if rc != 0:
        return viol + [("MIR state checker: extraction failed: " + vplib.first_coq_error(out)[:300], {"no_input": True})]
    rc, out, model = vplib.ocaml_build("mirst_drv", ["mirst_model"], os.path.join(VERIF, "ocaml", "mirst_drv.ml"))
    if rc != 0:
        return viol + [("MIR state checker: model driver does not build: " + out[-300:], {"no_input": True})]
    rc, out, bindir = vplib.cargo_build("lang", ["mir_dump", "lmmm_run"])
    if rc != 0:
        return viol + [("MIR state checker: harness (mir_dump / lmmm_run) does not build against the repository: " + out[-400:],
                        {"no_input": True})]
    dumper, runner = os.path.join(bindir, "mir_dump"), os.path.join(bindir, "lmmm_run")
    cov = {"programs": 0, "accepted": 0, "rejected": 0, "compile_errors": 0, "compiler_panics": 0, "dumper_crashes": 0,
           "functions": 0, "blocks": 0, "state_events": 0, "branches": 0, "branches_with_state_in_arms": 0,
           "closure_calls": 0, "closures_with_state_programs": 0, "distinct_skeletons": 0,
           "accepted_with_shared_cells_recursion": 0, "rejected_in_known_class_F64": 0, "traces_checked": 0, "trace_follow_timeouts": 0, "programs_traced": 0, "programs_traced_with_closure_state": 0, "per_stream": {}}

    # ---- regression dumps first: old compiler output must be rejected, current one accepted --------------------
    cd = corpus_dumps()
    if cd:
        ans = run_model(model, [("c%d" % i, "ok", ls) for i, (_, _, ls) in enumerate(cd)])
        for i, (fn, want, ls) in enumerate(cd):
            got = ans["c%d" % i][0]
            if got != want:
                viol.append(("MIR state checker: regression dump corpus/mirst/%s is judged '%s' (expected '%s')" % (fn, got, want),
                             {"no_input": True, "dump": fn, "answer": " ".join(ans["c%d" % i])}))
        cov["regression_dumps"] = len(cd)

    # ---- the real compiler's MIR of every input ---------------------------------------------------------------
    items = gen_inputs(ck, quick)
    dumps = dump_all(dumper, items)
    t_dump = time.time()
    ok_idx = [i for i, d in enumerate(dumps) if d is not None and d[0].startswith("ok")]
    for i, d in enumerate(dumps):
        st = "crash" if d is None else d[0].split(" ")[0]
        ps = cov["per_stream"].setdefault(items[i]["stream"], {"n": 0, "ok": 0})
        ps["n"] += 1
        if st == "ok": ps["ok"] += 1
        elif st == "err": cov["compile_errors"] += 1
        elif st == "panic": cov["compiler_panics"] += 1
        else: cov["dumper_crashes"] += 1
    # a sample of the accepted-by-the-compiler programs also runs on the real VM
    n_trace = 500 if quick else 4000
    rs = ck.rng.fork("mir-trace")
    parsed = {}
    cand = []
    for i in ok_idx:
        funs = parse_dump(dumps[i][1])
        parsed[i] = funs
        if any(f["label"] == "dsp" for f in funs):
            cand.append(i)
    by_stream = {}
    for i in cand:
        by_stream.setdefault(items[i]["stream"], []).append(i)
    chosen = []
    for s, l in sorted(by_stream.items()):
        share = len(l) if s in ("corpus", "witness") else max(8, n_trace * len(l) // max(1, len(cand)))
        pool = list(l)
        while pool and share > 0:
            chosen.append(pool.pop(rs.below(len(pool))))
            share -= 1
    n_samples = 6 if quick else 16
    reqs = [{"src": items[i]["src"], "path": items[i]["path"], "n": n_samples, "state": True, "backends": ["vm"], "sched": False}
            for i in chosen]
    runs = lmmm.run_impl(runner, reqs, timeout_per_batch=300) if reqs else []
    t_run = time.time()
    extra = {}
    dyn = {}
    for i, r in zip(chosen, runs):
        vm = (r or {}).get("vm") if r and "crash" not in r else None
        dyn[i] = r
        if not vm or "samples" not in vm:
            continue
        cl = closure_state(parsed[i])
        lines = [h1_line(s["trace"], CDEPTH if cl else 0) for s in vm["samples"] if "trace" in s]
        if lines:
            extra[i] = lines
            cov["programs_traced"] += 1
            cov["programs_traced_with_closure_state"] += 1 if cl else 0
    blocks = [(str(i), dumps[i][0], dumps[i][1] + extra.get(i, [])) for i in ok_idx]
    ans = run_model(model, blocks, cov) if blocks else {}
    seen_sk = set()
    reported = 0
    for i in ok_idx:
        a = ans[str(i)]
        it = items[i]
        cov["programs"] += 1
        funs = parsed[i]
        for f in funs:
            if f["skels"] != "[]":
                seen_sk.add(f["skels"])
            for b in f["blocks"]:
                for k, (d, n, args) in enumerate(b):
                    if n in ("JmpIf", "Switch"):
                        cov["branches"] += 1
                        arms = ([int(args[0]), int(args[1])] if n == "JmpIf" else [int(x) for x in args[3:]] + ([int(args[1])] if args[1] != "-" else []))
                        if any(any(x[1] in ("Mem", "Delay", "PushStateOffset", "GetState") for x in f["blocks"][q]) for q in arms if q < len(f["blocks"])):
                            cov["branches_with_state_in_arms"] += 1
                    elif n in ("CallCls", "CallIndirect"):
                        cov["closure_calls"] += 1
        if closure_state(funs):
            cov["closures_with_state_programs"] += 1
        how = ("echo '{\"id\":0,\"src\":<source>,\"path\":<path>,\"sched\":true,\"text\":true}' | .cache/target/lang/debug/mir_dump "
               "| .cache/ocaml/mirst_drv/mirst_drv      (T lines = the compiler's own rendering of the Mir)")
        if a[0] == "accept":
            cov["accepted"] += 1
            cov["functions"] += int(a[1]); cov["blocks"] += int(a[2]); cov["state_events"] += int(a[3])
            if a[4] == "shared":
                cov["accepted_with_shared_cells_recursion"] += 1
            if "traces" in a:
                cov["traces_checked"] += int(a[a.index("traces") + 1])
            if "mismatch" in a and reported < 5:
                reported += 1
                k = int(a[a.index("mismatch") + 1])
                vm = dyn[i]["vm"]
                viol.append(("the state accesses the real VM made in one dsp call are not a path of the state view of the "
                             "compiler's MIR (interpreter of Mirst/Model.v vs bytecodegen.rs + vm.rs)",
                             {"source": it["src"], "path": it["path"], "name": it["name"], "sample": k,
                              "observed": extra[i][k] if 0 <= k < len(extra[i]) else None,
                              "dsp_skeleton": vm.get("skel"), "how": how}))
        elif a[0] == "reject" and in_class_F64(dumps[i][1]):
            cov["rejected"] += 1
            cov["rejected_in_known_class_F64"] += 1
            fd = [f_ for f_ in vplib.known_findings("C05") if f_["id"] == F64["id"]]
            detail = it["src"].replace("\n", " ")[:160] + " -> " + explain(dumps[i][1])[:160]
            if fd and hasattr(ck, "known"):
                ck.known(fd[0], detail)
            elif not cov.get("F64_example"):
                cov["F64_example"] = detail
        elif a[0] == "reject":
            cov["rejected"] += 1
            if reported < 5:
                reported += 1
                why = explain(dumps[i][1])
                r = dyn.get(i)
                if r is None:
                    rr = lmmm.run_impl(runner, [{"src": it["src"], "path": it["path"], "n": 8, "state": True, "backends": ["vm"], "sched": False}])
                    r = rr[0] if rr else None
                obs = None
                if r is not None:
                    if "crash" in r:
                        obs = "the VM process died: %s" % r["crash"]
                    else:
                        vm = r.get("vm") or {}
                        pans = [s["panic"] for s in vm.get("samples", []) if "panic" in s]
                        poss = [s.get("pos") for s in vm.get("samples", []) if "pos" in s]
                        obs = {"vm_panics": pans[:2], "cursor_after_each_dsp_call": poss}
                viol.append(("the compiler's MIR leaves the state-layout discipline on some path (verified checker of "
                             "Props/C05_mir.v rejects it): " + why,
                             {"source": it["src"], "path": it["path"], "name": it["name"], "function": " ".join(a[1:]),
                              "why": why, "observed_on_the_real_vm": obs, "how": how}))
        else:
            viol.append(("MIR state checker: the dump of the compiler's MIR is not understood by the model driver (%s)" % " ".join(a),
                         {"no_input": True, "name": it["name"], "source": it["src"][:2000]}))
        if it["stream"] == "witness" and a[0] == "reject":
            # the recorded finding replayed on the real VM: an access that is not a cell of the published layout
            vm = ((dyn.get(i) or {}).get("vm") or {}) if "crash" not in (dyn.get(i) or {"crash": 1}) else {}
            off = []
            for smp in vm.get("samples", []):
                if "trace" in smp and vm.get("skel"):
                    off += lmmm.events_hit_cells(vm["skel"], smp["trace"])
            cov.setdefault("finding_witness_on_the_real_vm", {})[it["name"]] = (
                "state access outside the published cells: %s (skeleton %s)" % (off[:2], vm.get("skel")) if off
                else "no offending access observed")
        if it["stream"] == "witness" and not (a[0] == "reject" and in_class_F64(dumps[i][1])):
            # a recorded finding that stops reproducing is noticed (not a violation of the property)
            cov.setdefault("finding_witness_not_reproduced", []).append(it["name"] + ": " + " ".join(a))
            log("mir_part: the witness %s of a recorded finding is now judged: %s" % (it["name"], " ".join(a)))
        if i % 97 == 5:
            ck.sample({"name": it["name"], "verdict": " ".join(a), "skeletons": [f["skels"] for f in funs][:6]})
    # ---- the property's run-time clauses on the sampled runs (independent of the model) ----------------------------
    for i in chosen:
        r = dyn.get(i)
        if r is None or "crash" in r or ans.get(str(i), ["?"])[0] != "accept":
            continue
        vm = r.get("vm") or {}
        for t, s in enumerate(vm.get("samples", [])):
            if "panic" in s and re.search(r"subtract with overflow|out of range|out of bounds", s["panic"]) and reported < 5:
                # a state-cursor underflow / out-of-bounds access in a program the checker accepted would contradict the theorem
                pass
            if "pos" in s and s["pos"] != 0 and reported < 5:
                reported += 1
                viol.append(("state cursor not back at the origin after a dsp call although the MIR checker accepts the program",
                             {"source": items[i]["src"], "path": items[i]["path"], "sample": t, "pos": s["pos"]}))
                break
    cov["distinct_skeletons"] = len(seen_sk)
    cov["dump_s"] = round(t_dump - t0, 1)
    cov["vm_runs_s"] = round(t_run - t_dump, 1)
    cov["wall_s"] = round(time.time() - t0, 1)
    for k, v in cov.items():
        ck.coverage["mir_" + k] = v
    ck.add("evaluations", cov["programs"])
    ck.add("distinct_nontrivial", len(seen_sk))
    return viol


class _DevCheck:
    """what run_part needs of vplib.Check (standalone development runs; writes nothing)"""
    def __init__(self, seed):
        self.rng = vplib.Rng(seed)
        self.seed = seed
        self.coverage = {"samples": []}
        self.broken = []
        self.obligations = 0
        self.discharged = 0

    def sample(self, x, cap=6):
        if len(self.coverage["samples"]) < cap:
            self.coverage["samples"].append(x)

    def add(self, key, n=1):
        self.coverage[key] = self.coverage.get(key, 0) + n

    def known(self, finding, detail):
        print("KNOWN-FINDING: property=C05 %s %s [e.g. %s]" % (finding["id"], finding["text"], detail), flush=True)


if __name__ == "__main__":
    try:
        seed = int(os.environ.get("VERIF_SEED", "0"))
    except ValueError:
        seed = 0
    ck = _DevCheck(seed)
    t0 = time.time()
    vs = run_part(ck, quick="--thorough" not in sys.argv)
    print(json.dumps({k: v for k, v in ck.coverage.items() if k != "samples"}, indent=1, sort_keys=True))
    print("obligations %d discharged %d broken %s" % (ck.obligations, ck.discharged, ck.broken))
    for what, obj in vs:
        print("VIOLATION:", what)
        print(json.dumps(obj, indent=1)[:3000])
    print("%d violation(s), %.1f s" % (len(vs), time.time() - t0))
    sys.exit(1 if vs else 0)
