"""Generated-Rust runtime part of C18 (serves C01, C12):  run_part(ck, quick) -> list of (what, replay_obj).

P: coq/theories/Props/C18_rt.v over RustRt2/{Model,Ops}.v: a literal transcription of the runtime that rustgen embeds in every
   generated program (compiler/mimium_placeholder.rs.template: handle encodings, MemoryStore, ArrayStorage, the array builtins of
   call_ext, ClosureStorage, load_upvalue / store_upvalue, get_current_statestorage) and of the text rustgen.rs emits for array
   literals and element reads / writes; theorems: the array runtime refines the abstract contract Prims/Spec.v (the one the VM and
   the WASM host are proved to refine) for EVERY operation sequence under the extracted hypotheses rt_pre; memory load/store,
   handle encodings, closure cells; *_differs lemmas with witnesses outside the hypotheses.  Findings C18/R1 (index +infinity) and
   C18/R2 (`len` counted words) are REPAIRED in rustgen.rs / the template; the model follows the repaired text, the hypotheses on the
   index and on the element size of `len` are gone, the witnesses are regression inputs (FIXED below, corpus/C18/cases.jsonl).
PIN: every transcribed function is tied to the CURRENT text of the template / of rustgen.rs by a hash of its normalised body
   (PINS below): any edit makes the pin fail and names the function.
C: the runtime part of the template, CUT FROM THE TEMPLATE TEXT AT RUN TIME (the whole file: its placeholders are comments) + the
   statements rustgen.rs emits for Array / GetArrayElem / SetArrayElem (cut from rustgen.rs's string literals) + a driver `main`
   (DRIVER below), compiled with rustc the way checks/C18.py compiles generated programs, run on generated operation sequences and
   compared operation by operation with the extracted model (ocaml/rtpl_drv.ml).
S: the property itself on the real answers: (arrays) wherever rt_pre holds along the contract's run the real answers must be
   related to the contract's through the handles the real runtime returned itself; (memory) a load right after a store through the
   same handle returns what was stored; (closures) a store through one closure's indirect upvalue is read by every closure
   holding the same cell; (handles) decode(encode(i)) round-trips and the tags decode disjointly.
"""
import hashlib, os, re, struct, subprocess, sys, time
sys.path.insert(0, os.path.join(os.path.dirname(os.path.dirname(os.path.abspath(__file__))), "lib"))   # standalone runs
import vplib
from vplib import VERIF

OCAML = [("rtpl_drv", ["rtpl_model"], "ocaml/rtpl_drv.ml")]
HARNESS = []
COQ_TARGETS = ["theories/Props/C18_rt.vo", "theories/Extract/RustRt2Extract.vo"]
PROPS = "C18_rt"
TEMPLATE_REL = "crates/lib/mimium-lang/src/compiler/mimium_placeholder.rs.template"
RUSTGEN_REL = "crates/lib/mimium-lang/src/compiler/rustgen.rs"
BATCH_TIMEOUT_S = 300


def fhex(x):
    return "%x" % struct.unpack(">Q", struct.pack(">d", x))[0]


NAN, PINF, NINF = "7ff8000000000000", "7ff0000000000000", "fff0000000000000"
ODD_FLOATS = [NAN, PINF, NINF, "8000000000000000", "1", "fff8000000000001", fhex(0.5), fhex(-0.5), fhex(1.5), fhex(-1.0),
              fhex(2.999), fhex(1e9), fhex(1e19), fhex(-1e19), fhex(9.3e18), fhex(4294967296.0), fhex(1e300), "7ff0000000000001"]
TAG_F, TAG_C, TAG_M = 1 << 63, 1 << 62, 1 << 61

# ------------------------------------------------------------------------------------------------
# PIN: normalised text of every transcribed function -> sha256[:16]
# ------------------------------------------------------------------------------------------------
def norm(t):
    t = re.sub(r"//[^\n]*", "", t)
    t = re.sub(r"/\*.*?\*/", "", t, flags=re.S)
    return re.sub(r"\s+", "", t)


def balanced(src, start):
    i = src.index("{", start)
    depth, j = 0, i
    while j < len(src):
        if src[j] == "{":
            depth += 1
        elif src[j] == "}":
            depth -= 1
            if depth == 0:
                return src[start:j + 1]
        j += 1
    raise RuntimeError("unbalanced braces")


def balanced_code(src, start):
    """like balanced, but braces inside string literals do not count (rustgen.rs emits text full of braces)"""
    i = src.index("{", start)
    depth, j, n = 0, i, len(src)
    while j < n:
        ch = src[j]
        if ch == '"':
            j += 1
            while j < n and src[j] != '"':
                j += 2 if src[j] == "\\" else 1
        elif ch == "{":
            depth += 1
        elif ch == "}":
            depth -= 1
            if depth == 0:
                return src[start:j + 1]
        j += 1
    raise RuntimeError("unbalanced braces")


def fn_in(block, name):
    m = re.search(r"\bfn\s+%s\s*(?:<[^>]*>)?\s*\(" % re.escape(name), block)
    if not m:
        raise KeyError(name)
    return balanced(block, m.start())


def call_ext_arm(body, key):
    """the match arm of call_ext whose pattern mentions `key`"""
    m = re.search(r'(?:"%s"\s*=>|_\s+if\s+name\s*==\s*"%s"[^\n]*=>)\s*\{' % (key, key), body)
    if not m:
        raise KeyError("call_ext arm " + key)
    return balanced(body, m.start())


def rustgen_arm(src, head):
    m = re.search(re.escape(head) + r"\s*=>\s*\{", src)
    if not m:
        raise KeyError(head)
    return balanced_code(src, m.start())


def emitted_literals(arm):
    """(is_format, text) of every string literal handed to writer.line in an arm of rustgen.rs, in source order"""
    out = []
    for m in re.finditer(r'writer\s*\.\s*line\(\s*(format!\(\s*)?"((?:[^"\\]|\\.)*)"', arm):
        out.append((bool(m.group(1)), m.group(2).replace('\\"', '"')))
    return out


def template_items(repo):
    """name -> text of every transcribed item, cut from the current sources"""
    tpl = open(os.path.join(repo, TEMPLATE_REL)).read()
    gen = open(os.path.join(repo, RUSTGEN_REL)).read()
    items = {}
    for c in ("FUNCTION_HANDLE_TAG", "CLOSURE_HANDLE_TAG", "MEMORY_HANDLE_TAG"):
        m = re.search(r"const %s: Word = [^;]*;" % c, tpl)
        if not m:
            raise KeyError(c)
        items[c] = m.group(0)
    for f in ("encode_function", "encode_closure", "encode_memory", "decode_memory", "decode_function", "decode_closure",
              "parse_specialized_arity"):
        items[f] = fn_in(tpl, f)
    for st in ("Pointer", "MemoryStore", "ArrayObject", "ArrayStorage", "ClosureObject", "ClosureStorage"):
        m = re.search(r"struct %s\s*\{" % st, tpl)
        if not m:
            raise KeyError("struct " + st)
        items["struct " + st] = balanced(tpl, m.start())
    for imp, fns in (("MemoryStore", ["alloc", "ptr", "get_element", "load", "store"]),
                     ("ArrayStorage", ["alloc_array", "alloc_array_with_data", "get", "get_mut"]),
                     ("ClosureStorage", ["alloc", "get", "get_mut"])):
        m = re.search(r"impl %s\s*\{" % imp, tpl)
        if not m:
            raise KeyError("impl " + imp)
        blk = balanced(tpl, m.start())
        names = re.findall(r"\bfn\s+(\w+)\s*\(", blk)
        if names != fns:
            raise KeyError("impl %s has methods %s, the transcription covers %s" % (imp, names, fns))
        for f in fns:
            items["%s::%s" % (imp, f)] = fn_in(blk, f)
    m = re.search(r"impl<H: MimiumHost> MimiumProgram<H>\s*\{", tpl)
    if not m:
        raise KeyError("impl MimiumProgram")
    prog = balanced(tpl, m.start())
    for f in ("get_current_statestorage", "load_upvalue", "store_upvalue"):
        items["MimiumProgram::" + f] = fn_in(prog, f)
    ce = fn_in(prog, "call_ext")
    for k in ("len", "split_head", "split_tail", "prepend", "append"):
        items["call_ext/" + k] = call_ext_arm(ce, k)
    for head, nm in (("Instruction::Array(values, elem_ty)", "rustgen/Array"),
                     ("Instruction::GetArrayElem(arr, idx, elem_ty)", "rustgen/GetArrayElem"),
                     ("Instruction::SetArrayElem(arr, idx, value, elem_ty)", "rustgen/SetArrayElem")):
        items[nm] = rustgen_arm(gen, head)
    return items, tpl, gen


PINS = {
    'ArrayStorage::alloc_array': "d4aa5a871680f2b7",
    'ArrayStorage::alloc_array_with_data': "0f79cec09dba2d26",
    'ArrayStorage::get': "34c533b29a500988",
    'ArrayStorage::get_mut': "7826c6d6be786c35",
    'CLOSURE_HANDLE_TAG': "fced2651b4039877",
    'ClosureStorage::alloc': "812212d980f005b0",
    'ClosureStorage::get': "80b5607a80366ca1",
    'ClosureStorage::get_mut': "281d07ff5502cbf8",
    'FUNCTION_HANDLE_TAG': "224985e1df13260c",
    'MEMORY_HANDLE_TAG': "9629d9e06595b007",
    'MemoryStore::alloc': "e22a2f51e6df0e79",
    'MemoryStore::get_element': "aebad483072318ff",
    'MemoryStore::load': "5423802d253ef363",
    'MemoryStore::ptr': "c54427fea31e7c07",
    'MemoryStore::store': "b9bcc64059090120",
    'MimiumProgram::get_current_statestorage': "87cf97f0c4888a1e",
    'MimiumProgram::load_upvalue': "d37de17464feed65",
    'MimiumProgram::store_upvalue': "03626b7dd1bf675b",
    'call_ext/append': "61c29c8d62d14d47",
    'call_ext/len': "1128341b12a9dc2b",            # repaired (C18/R2): counts elements
    'call_ext/prepend': "4c156658f8afae5e",
    'call_ext/split_head': "06c40007ec3828ab",
    'call_ext/split_tail': "91246937dfb26446",
    'decode_closure': "43d3658f60489b80",
    'decode_function': "216eff72f1b6d324",
    'decode_memory': "0cce3dad8a4abfc9",
    'encode_closure': "58b01102f1249551",
    'encode_function': "a839bedeffd813a4",
    'encode_memory': "486864106996a645",
    'parse_specialized_arity': "21eaacca654ff343",
    'rustgen/Array': "1c447bc429c4ee24",
    'rustgen/GetArrayElem': "7b9ecfc12b813d81",    # repaired (C18/R1): saturating cast, then clamp
    'rustgen/SetArrayElem': "00865ab9d4218429",    # repaired (C18/R1)
    'struct ArrayObject': "6b2a20078b118f79",
    'struct ArrayStorage': "1fb5dfad9d272871",
    'struct ClosureObject': "41e5456ca5ec5634",
    'struct ClosureStorage': "d1d0e7a89433e627",
    'struct MemoryStore': "6777b7130cfc288e",
    'struct Pointer': "d50df2b79f877739",
}


def pin_digest(text):
    return hashlib.sha256(norm(text).encode()).hexdigest()[:16]


def check_pins(repo):
    """-> (list of names whose text changed or is missing, items, template text, rustgen text)"""
    try:
        items, tpl, gen = template_items(repo)
    except (KeyError, RuntimeError, ValueError) as ex:
        return ["<shape>: %s no longer found in the template / rustgen.rs" % ex], None, None, None
    bad = [n for n in sorted(PINS) if n not in items or pin_digest(items[n]) != PINS[n]]
    bad += [n + " (not pinned)" for n in sorted(items) if n not in PINS]
    return bad, items, tpl, gen


# ------------------------------------------------------------------------------------------------
# the Rust driver: template text + emitted array statements + main
# ------------------------------------------------------------------------------------------------
def subst_line(is_format, text, names):
    """one emitted line with the generator's placeholders replaced by the driver's variables"""
    if not is_format:
        return text
    def rep(m):
        key = m.group(1)
        if key not in names:
            raise KeyError("placeholder {%s} in %r" % (key, text))
        return names[key]
    t = re.sub(r"(?<!\{)\{(\w*)\}(?:usize)?(?!\})", rep, text)
    return t.replace("{{", "{").replace("}}", "}")


def array_methods(items):
    """Rust methods whose bodies are the statements rustgen.rs emits for Array / GetArrayElem / SetArrayElem"""
    lit = emitted_literals(items["rustgen/Array"])
    # 0: alloc_array line; 1..: the per-element block; last: dest[0] = array_handle
    if len(lit) < 3 or "alloc_array" not in lit[0][1]:
        raise KeyError("rustgen/Array: emitted lines no longer have the transcribed shape")
    first = re.sub(r"alloc_array\(\{\},\s*\{\}usize\)", "alloc_array(n, elem_words)", lit[0][1])
    names = {"index": "i", "": "elem_words", "expr": "&values[i][..]", "dest": "dest"}
    block = "\n".join(subst_line(f, t, names) for f, t in lit[1:-1])
    new = ("fn drv_array_new(&mut self, n: usize, elem_words: usize, values: &[Vec<Word>]) -> Result<Word, String> {\n"
           "let mut dest = [0u64; 1];\n" + first + "\nfor i in 0..n {\n" + block + "\n}\n"
           + subst_line(lit[-1][0], lit[-1][1], names) + "\nOk(dest[0])\n}\n")
    names = {"idx_expr": "index_word_arg", "arr_expr": "arr", "": "elem_words", "dest": "dest", "elem_words": "elem_words"}
    lines = []
    for f, t in emitted_literals(items["rustgen/GetArrayElem"]):
        if "memory." in t:
            continue                                   # the deep-copy variant (aggregate elements go through MemoryStore)
        if t == "{dest} = {};":
            lines.append("dest.copy_from_slice(&array.data[start..end]);")    # copy_words::<N>(&array.data[start..end])?
        else:
            lines.append(subst_line(f, t, names))
    get = ("fn drv_array_get(&mut self, arr: Word, index_word_arg: Word, elem_words: usize) -> Result<Vec<Word>, String> {\n"
           "let mut dest = vec![0u64; elem_words];\n" + "\n".join(lines) + "\nOk(dest)\n}\n")
    names = {"idx_expr": "index_word_arg", "arr_expr": "arr", "": "elem_words", "value_expr": "value"}
    lines = [subst_line(f, t, names) for f, t in emitted_literals(items["rustgen/SetArrayElem"])]
    st = ("fn drv_array_set(&mut self, arr: Word, index_word_arg: Word, value: &[Word], elem_words: usize) -> Result<(), String> {\n"
          + "\n".join(lines) + "\nOk(())\n}\n")
    return "impl<H: MimiumHost> MimiumProgram<H> {\n" + new + get + st + "}\n"


DRIVER = r'''
// ---------------- driver (checks/rtpl_part.py); everything above is the template's own text ----------------
use std::io::{BufRead, Write};
use std::panic::{catch_unwind, AssertUnwindSafe};

fn err_class(m: &str) -> String {
    let c = if m.starts_with("invalid memory handle") { "Em" } else if m.starts_with("invalid memory slot") { "Es" }
    else if m.starts_with("load out of bounds") { "El" } else if m.starts_with("store out of bounds") { "Eo" }
    else if m.starts_with("invalid array handle") { "Ea" } else if m.starts_with("invalid closure handle") { "Ec" }
    else if m.starts_with("invalid upvalue index") { "Ei" } else if m.starts_with("missing upvalue metadata") { "Ed" }
    else if m.starts_with("direct upvalue") { "Ew" } else if m.contains("mismatch") { "Ex" }
    else if m.contains("shorter than one element") { "Eh" } else if m.contains("not divisible") { "Ev" }
    else if m.contains("specialization") { "En" } else if m.contains("expects") { "Eg" } else { "E?" };
    c.to_string()
}
struct Tabs { m: Vec<Word>, a: Vec<Word>, c: Vec<Word> }
fn num(s: &str) -> usize {
    if let Some(h) = s.strip_prefix("0x") { usize::from_str_radix(h, 16).unwrap() } else { s.parse::<usize>().unwrap() }
}
fn hexw(s: &str) -> Word { u64::from_str_radix(s, 16).unwrap() }
fn tok(t: &Tabs, s: &str) -> Word {
    let r = &s[1..];
    match s.as_bytes()[0] {
        b'n' => hexw(r),
        b'm' => *t.m.get(r.parse::<usize>().unwrap()).unwrap_or(&0),
        b'a' => *t.a.get(r.parse::<usize>().unwrap()).unwrap_or(&0),
        b'c' => *t.c.get(r.parse::<usize>().unwrap()).unwrap_or(&0),
        _ => panic!("bad token"),
    }
}
fn toks(t: &Tabs, s: &str) -> Vec<Word> { if s.is_empty() { vec![] } else { s.split(',').map(|x| tok(t, x)).collect() } }
fn words(v: &[Word]) -> String { format!("w{}", v.iter().map(|x| format!("{:x}", x)).collect::<Vec<_>>().join(",")) }
fn opt(v: Option<usize>) -> String { match v { Some(i) => format!("w{:x}", i), None => "o".to_string() } }
fn name_of(base: &str, ew: &str) -> String { if ew == "d" { base.to_string() } else { format!("{}$arity{}", base, ew) } }

fn step(p: &mut MimiumProgram<PanicHost>, t: &mut Tabs, op: &str) -> String {
    let f: Vec<&str> = op.split(':').collect();
    match f[0] {
        "MA" => { let h = p.memory.alloc(num(f[1])); t.m.push(h); format!("h{:x}", h) }
        "MG" => match p.memory.get_element(tok(t, f[1]), num(f[2])) { Ok(h) => { t.m.push(h); format!("h{:x}", h) } Err(e) => err_class(&e) },
        "ML" => match p.memory.load(tok(t, f[1]), num(f[2])) { Ok(v) => words(&v), Err(e) => err_class(&e) },
        "MS" => { let src = toks(t, f[3]); match p.memory.store(tok(t, f[1]), &src, num(f[2])) { Ok(()) => "u".to_string(), Err(e) => err_class(&e) } }
        "AN" => {
            let esz = num(f[1]); let data = toks(t, f[2]);
            if esz == 0 || data.len() % esz != 0 { return "x".to_string(); }
            let vals: Vec<Vec<Word>> = data.chunks(esz).map(|c| c.to_vec()).collect();
            match p.drv_array_new(vals.len(), esz, &vals) { Ok(h) => { t.a.push(h); format!("h{:x}", h) } Err(e) => err_class(&e) }
        }
        "AG" => match p.drv_array_get(tok(t, f[1]), hexw(f[2]), num(f[3])) { Ok(v) => words(&v), Err(e) => err_class(&e) },
        "AS" => { let v = toks(t, f[3]); match p.drv_array_set(tok(t, f[1]), hexw(f[2]), &v, num(f[4])) { Ok(()) => "u".to_string(), Err(e) => err_class(&e) } }
        "AL" => match p.call_ext("len", &[tok(t, f[1])], 1) { Ok(v) => words(&v), Err(e) => err_class(&e) },
        "PP" => { let mut a = toks(t, f[2]); a.push(tok(t, f[3]));
                  match p.call_ext(&name_of("prepend", f[1]), &a, 1) { Ok(v) => { if v.len() == 1 { t.a.push(v[0]); } words(&v) } Err(e) => err_class(&e) } }
        "AP" => { let mut a = vec![tok(t, f[2])]; a.extend(toks(t, f[3]));
                  match p.call_ext(&name_of("append", f[1]), &a, 1) { Ok(v) => { if v.len() == 1 { t.a.push(v[0]); } words(&v) } Err(e) => err_class(&e) } }
        "SH" => match p.call_ext(&name_of("split_head", f[1]), &[tok(t, f[2])], 0) { Ok(v) => { t.a.push(*v.last().unwrap_or(&0)); words(&v) } Err(e) => err_class(&e) },
        "ST" => match p.call_ext(&name_of("split_tail", f[1]), &[tok(t, f[2])], 0) { Ok(v) => { if !v.is_empty() { t.a.push(v[0]); } words(&v) } Err(e) => err_class(&e) },
        "CA" => { let ups = toks(t, f[2]); let ind: Vec<bool> = if f[3] == "-" { vec![] } else { f[3].bytes().map(|b| b == b'1').collect() };
                  match p.closures.alloc(tok(t, f[1]), ups, ind, num(f[4])) { Ok(h) => { t.c.push(h); format!("h{:x}", h) } Err(e) => err_class(&e) } }
        "CL" => match p.load_upvalue(tok(t, f[1]), num(f[2]), num(f[3])) { Ok(v) => words(&v), Err(e) => err_class(&e) },
        "CS" => { let src = toks(t, f[4]); match p.store_upvalue(tok(t, f[1]), num(f[2]), &src, num(f[3])) { Ok(()) => "u".to_string(), Err(e) => err_class(&e) } }
        "EN" => { p.state_storage_stack.push(tok(t, f[1])); "u".to_string() }
        "EX" => { p.state_storage_stack.pop(); "u".to_string() }
        "FS" => { p.function_states.push(StateStorage::new(num(f[1]))); "u".to_string() }
        "FN" => { p.current_function_state = Some(num(f[1])); "u".to_string() }
        "SM" => { let w = p.get_current_statestorage().mem(hexw(f[1])); format!("w{:x}", w) }
        "DM" => opt(decode_memory(hexw(f[1]))),
        "DF" => opt(decode_function(hexw(f[1]))),
        "DC" => opt(decode_closure(hexw(f[1]))),
        "EM" => format!("w{:x}", encode_memory(num(f[1]))),
        "EF" => format!("w{:x}", encode_function(num(f[1]))),
        "EC" => format!("w{:x}", encode_closure(num(f[1]))),
        _ => panic!("bad operation"),
    }
}

fn main() {
    std::panic::set_hook(Box::new(|_| {}));
    let stdin = std::io::stdin();
    let out = std::io::stdout();
    let mut out = out.lock();
    let mut id = 0usize;
    for line in stdin.lock().lines() {
        let line = line.unwrap();
        if line.trim().is_empty() { continue; }
        let mut p = MimiumProgram::new();
        let mut t = Tabs { m: vec![], a: vec![], c: vec![] };
        let mut res: Vec<String> = vec![];
        for op in line.trim().split(';') {
            if op.is_empty() { continue; }
            match catch_unwind(AssertUnwindSafe(|| step(&mut p, &mut t, op))) {
                Ok(r) => res.push(r),
                Err(_) => { res.push("P".to_string()); break; }
            }
        }
        writeln!(out, "#{} tpl={}", id, res.join(";")).unwrap();
        id += 1;
    }
    out.flush().unwrap();
}
'''


def build_real_driver(items, tpl):
    """-> (exe or None, error text)"""
    d = os.path.join(vplib.CACHE, "rtpl" + ("-" + hashlib.sha256(os.path.realpath(vplib.REPO).encode()).hexdigest()[:10] if vplib.ALT else ""))
    os.makedirs(d, exist_ok=True)
    try:
        methods = array_methods(items)
    except KeyError as ex:
        return None, "the statements rustgen.rs emits for arrays no longer have the transcribed shape: %s" % ex
    src = tpl + "\n" + methods + DRIVER
    srcp, exe = os.path.join(d, "rtpl_real.rs"), os.path.join(d, "rtpl_real.bin")
    if os.path.exists(exe) and os.path.exists(srcp) and open(srcp).read() == src:
        return exe, ""
    open(srcp, "w").write(src)
    if os.path.exists(exe):
        os.remove(exe)
    rc, out, _ = vplib.sh(["rustc", "--edition=2024", "-Awarnings", "-Cdebuginfo=0", srcp, "-o", exe], timeout=300)
    if rc != 0:
        return None, "the template + driver does not compile: " + out[-900:]
    return exe, ""


# ------------------------------------------------------------------------------------------------
# generator
# ------------------------------------------------------------------------------------------------
class Gen:
    def __init__(self, rng, style):
        self.r = rng
        self.style = style
        self.bad = style == "malformed"
        self.mem = []        # per memory-handle ordinal: [slot id, offset]
        self.slots = []      # slot sizes
        self.arrs = []       # per array ordinal: [esz, nwords] (None: unknown / null)
        self.clos = []       # per closure ordinal: (list of upvalue tokens, bits, state size)
        self.fstates = 0
        self.ops = []

    def word(self):
        r = self.r
        c = r.below(9)
        if c == 0:
            return r.choice(ODD_FLOATS)
        if c == 1:
            return "%x" % r.below(2 ** 64)
        if c == 2:
            return "%x" % r.below(16)
        if c == 3:
            return "%x" % (r.choice([TAG_M, TAG_C, TAG_F, TAG_M | TAG_C]) | r.below(6))      # words that look like handles
        return fhex(float(r.range(-20, 200)) / r.choice([1, 1, 2, 4]))

    def val(self):
        r = self.r
        if self.arrs and r.chance(1, 8):
            return "a%d" % r.below(len(self.arrs))
        if self.mem and r.chance(1, 10):
            return "m%d" % r.below(len(self.mem))
        return "n" + self.word()

    def vals(self, n):
        return ",".join(self.val() for _ in range(n))

    def nums(self, n):
        return ",".join("n" + self.word() for _ in range(n))

    def mhandle(self):
        r = self.r
        if self.bad and r.chance(1, 4):
            return r.choice(["n0", "n%x" % TAG_M, "n%x" % (TAG_M | (len(self.mem) + 1 + r.below(3))), "n" + self.word(),
                             "m%d" % (len(self.mem) + r.below(2)), "a0", "c0", "n%x" % (TAG_M | TAG_C | 1), "n%x" % (TAG_F | TAG_M | 1)])
        if self.mem:
            return "m%d" % r.below(len(self.mem))
        return "n%x" % (TAG_M | 1)

    def ahandle(self):
        r = self.r
        if self.bad and r.chance(1, 4):
            return r.choice(["n0", "n0", "n1", "n%x" % (len(self.arrs) + 1 + r.below(3)), "n" + self.word(), "a%d" % (len(self.arrs) + r.below(2)),
                             "m0", "c0", "n%x" % (2 ** 64 - 1)])
        if self.arrs:
            return "a%d" % r.below(len(self.arrs))
        return "a0"

    def chandle(self):
        r = self.r
        if self.bad and r.chance(1, 4):
            return r.choice(["n0", "n%x" % TAG_C, "n%x" % (TAG_C | (len(self.clos) + r.below(3))), "n" + self.word(), "c%d" % (len(self.clos) + r.below(2)),
                             "m0", "n%x" % (TAG_F | TAG_C), "n%x" % (TAG_C | TAG_M)])
        if self.clos:
            return "c%d" % r.below(len(self.clos))
        return "n%x" % TAG_C

    def big(self):
        return self.r.choice(["0x7fffffffffffffff", "0xffffffffffffffff", "0xfffffffffffffffe", "0x100000000", "1000"])

    def index(self, n):
        r = self.r
        c = r.below(10)
        if c < 5 and n > 0:
            return fhex(float(r.below(n)))
        if c == 5:
            return fhex(float(n) + r.choice([-1.0, 0.0, 0.5, 1.0, 7.0]))
        if c == 6:
            return fhex(r.below(max(1, n)) + r.choice([0.25, 0.5, 0.999]))
        if c == 7:
            return r.choice(ODD_FLOATS)
        if c == 8:
            return fhex(-float(r.below(5)))
        return fhex(float(r.below(2 * n + 3)))

    # -- memory ---------------------------------------------------------------------------------
    def mem_op(self):
        r = self.r
        c = r.below(12)
        if c < 2 or not self.mem:
            size = r.choice([0, 1, 1, 2, 3, 4, 6])
            self.ops.append("MA:%d" % size)
            self.slots.append(size)
            self.mem.append([len(self.slots) - 1, 0])
            return
        h = self.mhandle()
        k = int(h[1:]) if h[0] == "m" and int(h[1:]) < len(self.mem) else None
        room = self.slots[self.mem[k][0]] - self.mem[k][1] if k is not None else 1
        if c < 4:
            off = r.below(max(1, room) + 1) if not (self.bad and r.chance(1, 5)) else r.choice([max(0, room) + 1, max(0, room) + 5, self.big()])
            if r.chance(1, 20):
                off = self.big()
            self.ops.append("MG:%s:%s" % (h, off))
            if k is not None and isinstance(off, int):
                self.mem.append([self.mem[k][0], self.mem[k][1] + off])
            elif k is not None and not str(off).startswith("0xf"):
                self.mem.append([self.mem[k][0], self.mem[k][1] + int(off, 0)])
            return
        size = r.below(max(0, room) + 1) if room > 0 else 0
        if r.chance(1, 6):
            size = r.choice([0, 1, max(0, room) + 1, max(0, room) + 2])
        if self.bad and r.chance(1, 12):
            size = self.big()
        if c < 8:
            n = size if isinstance(size, int) else 2
            if r.chance(1, 10):
                n = max(0, n + r.choice([-1, 1, 2]))
            self.ops.append("MS:%s:%s:%s" % (h, size, self.vals(min(n, 12))))
            if r.chance(2, 3):
                self.ops.append("ML:%s:%s" % (h, size))          # load after store (the property is read off this pair)
        else:
            self.ops.append("ML:%s:%s" % (h, size))

    # -- arrays ---------------------------------------------------------------------------------
    def array_op(self):
        r = self.r
        c = r.below(16)
        if c < 3 or not self.arrs:
            esz = r.choice([1, 1, 1, 2, 2, 3])
            n = r.choice([0, 1, 2, 3, 3, 5, 9])
            cnt = n * esz
            if self.bad and r.chance(1, 5):
                esz = r.choice([0, esz])
                cnt = cnt + r.choice([0, 1])
            self.ops.append("AN:%d:%s" % (esz, self.vals(cnt)))
            if esz > 0 and cnt % esz == 0:
                self.arrs.append([esz, cnt])
            return
        a = self.ahandle()
        k = int(a[1:]) if a[0] == "a" and int(a[1:]) < len(self.arrs) else None
        ar = self.arrs[k] if k is not None and self.arrs[k] else [1, 1]
        esz = ar[0]
        nel = ar[1] // esz if esz else 0
        ew = esz
        if self.bad and r.chance(1, 5):
            ew = r.choice([0, 1, 2, esz + 1])
        if c < 7:
            self.ops.append("AG:%s:%s:%d" % (a, self.index(nel), ew))
        elif c < 9:
            n = ew if not (self.bad and r.chance(1, 6)) else max(0, ew + r.choice([-1, 1]))
            self.ops.append("AS:%s:%s:%s:%d" % (a, self.index(nel), self.vals(n), ew))
        elif c < 10:
            self.ops.append("AL:" + a)
        else:
            ews = str(ew) if not (ew == 1 and r.chance(1, 2)) else "d"
            if self.bad and r.chance(1, 10):
                ews = r.choice(["x", "0", "7"])
            ewn = 1 if ews == "d" else (int(ews) if ews.isdigit() else None)
            if c < 12:
                n = ewn if ewn is not None else 1
                if self.bad and r.chance(1, 6):
                    n = max(0, n + r.choice([-1, 1]))
                if c == 10:
                    self.ops.append("PP:%s:%s:%s" % (ews, self.vals(n), a))
                else:
                    self.ops.append("AP:%s:%s:%s" % (ews, a, self.vals(n)))
                # the new array exists when the call succeeds; the generator only needs a plausible shape
                if ewn is not None and (k is None or ewn == esz) and n >= (ewn or 0):
                    self.arrs.append([ewn or 1, (ar[1] if k is not None else 0) + (ewn or 0)] if (ewn or 0) > 0 else None)
                    if a[0] == "n" and a != "n0":
                        self.arrs.pop()
            else:
                self.ops.append(("SH:%s:%s" if c < 14 else "ST:%s:%s") % (ews, a))
                if ewn and k is not None and ar[1] >= ewn and ar[1] % ewn == 0:
                    self.arrs.append([esz, ar[1] - ewn])
                elif a == "n0" and ewn is not None:
                    self.arrs.append(None)              # the null array: the result's handle word is 0

    # -- closures -------------------------------------------------------------------------------
    def closure_op(self):
        r = self.r
        c = r.below(14)
        if c < 3 or not self.clos:
            n = r.choice([0, 1, 2, 2, 3])
            ups, bits = [], ""
            for _ in range(n):
                if r.chance(2, 3):
                    if not self.mem or r.chance(1, 3):
                        size = r.choice([1, 1, 2, 3])
                        self.ops.append("MA:%d" % size)
                        self.slots.append(size)
                        self.mem.append([len(self.slots) - 1, 0])
                    ups.append("m%d" % r.below(len(self.mem)))
                    bits += "1"
                else:
                    ups.append("n" + self.word())
                    bits += "0"
            if self.bad and r.chance(1, 6):
                bits = bits[:-1] if bits and r.chance(1, 2) else bits + "1"
            ssz = r.choice([0, 1, 1, 2, 4])
            self.ops.append("CA:n%x:%s:%s:%d" % (TAG_F | r.below(4), ",".join(ups), bits or "-", ssz))
            if len(bits) == len(ups):
                self.clos.append((ups, bits, ssz))
            return
        h = self.chandle()
        k = int(h[1:]) if h[0] == "c" and int(h[1:]) < len(self.clos) else None
        ups, bits, _ = self.clos[k] if k is not None else ([], "", 0)
        if c < 9:
            i = r.below(len(ups)) if ups and not r.chance(1, 8) else r.choice([0, len(ups), len(ups) + 2])
            size = 1
            if i < len(ups) and bits[i] == "1":
                mk = int(ups[i][1:])
                size = max(0, self.slots[self.mem[mk][0]] - self.mem[mk][1])
            if r.chance(1, 8):
                size = r.choice([0, 1, 2, size + 1])
            if c < 6:
                n = size if not r.chance(1, 10) else max(0, size + r.choice([-1, 1]))
                self.ops.append("CS:%s:%d:%d:%s" % (h, i, size, self.nums(n)))
                # read the same cell back through ANOTHER closure that holds it (the sharing property) or the same one
                if i < len(ups):
                    same = [(kk, ii) for kk, (u2, b2, _) in enumerate(self.clos) for ii in range(len(u2)) if u2[ii] == ups[i] and b2[ii] == bits[i] == "1"]
                    if same and r.chance(3, 4):
                        kk, ii = r.choice(same)
                        self.ops.append("CL:c%d:%d:%d" % (kk, ii, size))
            else:
                self.ops.append("CL:%s:%d:%d" % (h, i, size))
        elif c < 11:
            self.ops.append("EN:" + h)
            for _ in range(r.range(1, 3)):
                self.ops.append("SM:" + self.word())
            if not r.chance(1, 6):
                self.ops.append("EX")
        elif c == 11:
            self.ops.append("FS:%d" % r.choice([0, 1, 2]))
            self.fstates += 1
        elif c == 12:
            self.ops.append("FN:%d" % (r.below(self.fstates) if self.fstates and not (self.bad and r.chance(1, 4)) else r.choice([0, 3])))
            self.ops.append("SM:" + self.word())
        else:
            self.ops.append("SM:" + self.word())

    def handle_op(self):
        r = self.r
        i = r.choice([0, 1, 2, 5, 1000, 2 ** 32, 2 ** 61 - 1, r.below(2 ** 61)])
        if self.bad and r.chance(1, 4):
            i = r.choice([2 ** 61, 2 ** 62, 2 ** 63 - 1, 2 ** 62 + 5, 2 ** 61 + 2 ** 62])
        e = r.choice("MFC")
        w = {"M": TAG_M, "F": TAG_F, "C": TAG_C}[e] | i
        self.ops.append("E%s:0x%x" % (e, i))
        for d in "MFC":
            self.ops.append("D%s:%x" % (d, w))
        if r.chance(1, 3):
            self.ops.append("D%s:%s" % (r.choice("MFC"), self.word()))

    def run(self, nops):
        r = self.r
        for _ in range(nops):
            st = self.style
            if st in ("mixed", "malformed"):
                st = r.choice(["memory", "array", "array", "closure", "closure", "handles"])
            if st == "memory":
                self.mem_op()
            elif st == "array":
                self.array_op()
            elif st == "closure":
                self.closure_op()
            else:
                self.handle_op()
        # probes of the final stores
        for k, a in enumerate(self.arrs):
            if a and r.chance(3, 4):
                self.ops.append("AL:a%d" % k)
                for i in range(min(a[1] // a[0], 6)):
                    self.ops.append("AG:a%d:%s:%d" % (k, fhex(float(i)), a[0]))
        for k, (sl, off) in enumerate(self.mem):
            if r.chance(1, 2) and self.slots[sl] - off >= 0:
                self.ops.append("ML:m%d:%d" % (k, self.slots[sl] - off))
        for k, (ups, bits, _) in enumerate(self.clos):
            for i in range(len(ups)):
                if bits[i] == "0" and r.chance(1, 2):
                    self.ops.append("CL:c%d:%d:1" % (k, i))
        return ";".join(self.ops)


STYLES = ["memory", "memory", "array", "array", "array", "closure", "closure", "mixed", "mixed", "malformed", "malformed", "handles"]


def gen_case(rng):
    return Gen(rng, rng.choice(STYLES)).run(rng.choice([3, 6, 10, 16, 24, 40]))


# ------------------------------------------------------------------------------------------------
# witnesses of the *_differs lemmas and of the positive examples of Props/C18_rt.v, replayed first on the real runtime:
# (name, sequence, the real template's recorded answers)
# ------------------------------------------------------------------------------------------------
F = fhex
FIXED = [
    ("REPAIRED (finding C18/R1) C18_rt_index_infinity_agrees: the index +infinity reads the LAST element, -infinity and NaN the "
     "first, like the VM and the contract (before the repair generated Rust read element 0 for +infinity)",
     "AN:1:n%s,n%s,n%s;AG:a0:%s:1;AG:a0:%s:1;AG:a0:%s:1;AS:a0:%s:n%s:1;AG:a0:%s:1" % (F(10.0), F(20.0), F(30.0), PINF, NINF, NAN, PINF, F(7.0), F(2.0)),
     "h1;w%s;w%s;w%s;u;w%s" % (F(30.0), F(10.0), F(10.0), F(7.0))),
    ("REPAIRED (finding C18/R2) C18_rt_len_counts_elements: len of an array of two-word elements counts ELEMENTS, like the VM and "
     "the contract (before the repair generated Rust counted words: 4)",
     "AN:2:n1,n2,n3,n4;AL:a0", "h1;w" + F(2.0)),
    ("C18_rt_zero_handle_differs: the zero array handle is the empty array for len / prepend / append / split (the VM panics)",
     "AL:n0;PP:d:n7:n0;AG:a0:0:1;SH:d:n0;AG:n0:0:1", "w0;w1;w7;w0,0;Ea"),
    ("C18_rt_load_immediate_fallback (finding F22): a word that is no live pointer handle is its own value for a one-word load, "
     "a float whose bits carry the memory tag reads the slot",
     "ML:n%s:1;ML:n2000000000000001:1;MA:1;MS:m0:1:n%s;ML:n2000000000000001:1;ML:n2000000000000002:1;ML:n2000000000000002:2" % (F(7.0), F(9.0)),
     "w%s;w2000000000000001;h2000000000000001;u;w%s;w2000000000000002;Em" % (F(7.0), F(9.0))),
    ("C18_rt_ex_cells_shared: two closures over one cell observe each other's stores; a direct upvalue is the closure's own copy",
     "MA:1;CA:n8000000000000001:m0,n5:10:1;CA:n8000000000000002:m0,n5:10:1;CS:c0:0:1:n2a;CL:c1:0:1;CS:c0:1:1:n2b;CL:c1:1:1;CL:c0:1:1",
     "h2000000000000001;h4000000000000000;h4000000000000001;u;w2a;u;w5;w2b"),
    ("C18_rt_ex_closure_state_own: mem on the state storage of the closure on top of the stack, then of another closure, then of the function",
     "CA:n8000000000000001::-:1;CA:n8000000000000001::-:1;FS:1;FN:0;EN:c0;SM:7;SM:8;EX;EN:c1;SM:9;EX;SM:a;EN:c0;SM:b;EX;SM:c",
     "h4000000000000000;h4000000000000001;u;u;u;w0;w7;u;u;w0;u;w0;u;w8;u;wa"),
    ("C18_rt_ex_memory: get_element pointers share the slot; out-of-range store / load are Err, not a panic",
     "MA:3;MG:m0:1;MS:m1:2:n5,n6;ML:m0:3;MS:m1:3:n1,n2,n3;ML:m1:3;MG:m1:0xffffffffffffffff",
     "h2000000000000001;h2000000000000002;u;w0,5,6;Eo;El;P"),
]


def corpus_sequences():
    d = os.path.join(VERIF, "corpus", "rtpl")
    out = []
    if os.path.isdir(d):
        for fn in sorted(os.listdir(d)):
            if fn.endswith(".seq"):
                for l in open(os.path.join(d, fn)):
                    l = l.split("#")[0].strip()
                    if l:
                        out.append(l)
    return out


# ------------------------------------------------------------------------------------------------
# running both sides
# ------------------------------------------------------------------------------------------------
def parse_answer(line):
    body = line.split(" ", 1)[1] if " " in line else ""
    if body.startswith("!"):
        return {"error": body}
    d = {}
    for part in body.split("|"):
        k, _, v = part.partition("=")
        d[k] = v
    for k in ("tpl", "spec"):
        if k in d:
            d[k] = d[k].split(";") if d[k] != "" else []
    return d


def run_model(exe, lines):
    rc, out, _ = vplib.sh([exe], input="\n".join(lines) + "\n", timeout=BATCH_TIMEOUT_S * 2)
    res = [l for l in out.split("\n") if l.startswith("#")]
    if rc != 0 or len(res) != len(lines):
        raise RuntimeError("rtpl model driver failed rc=%s answers=%d/%d: %s" % (rc, len(res), len(lines), out[-400:]))
    return [parse_answer(l) for l in res]


def run_real(exe, lines):
    """supervised: a dead process gives {'crash': ..} for the line it died on"""
    answers = []
    i = 0
    while i < len(lines):
        chunk = lines[i:]
        try:
            p = subprocess.run([exe], input=("\n".join(chunk) + "\n").encode(), stdout=subprocess.PIPE, stderr=subprocess.PIPE,
                               timeout=BATCH_TIMEOUT_S if len(chunk) > 1 else 30)
            rc, out, err = p.returncode, p.stdout.decode(errors="replace"), p.stderr.decode(errors="replace")
        except subprocess.TimeoutExpired as ex:
            rc, out, err = 124, (ex.stdout or b"").decode(errors="replace"), "timeout"
        got = [l for l in out.split("\n") if l.startswith("#")]
        for l in got:
            answers.append(parse_answer(l))
        i += len(got)
        if i >= len(lines):
            break
        if rc == 0:
            raise RuntimeError("the real driver ended early without an error: " + out[-300:] + err[-300:])
        answers.append({"crash": "timeout" if rc == 124 else "process died rc=%s: %s" % (rc, err.strip()[-200:])})
        i += 1
    return answers


# ------------------------------------------------------------------------------------------------
# the property on the real runtime's own answers
# ------------------------------------------------------------------------------------------------
def op_list(line):
    return [p for p in line.split(";") if p]


class Tables:
    """the handles the REAL runtime returned, in order (same bookkeeping as both drivers)"""
    def __init__(self):
        self.m, self.a, self.c = [], [], []

    def tok(self, s):
        k = s[0]
        if k == "n":
            return int(s[1:], 16)
        tb = {"m": self.m, "a": self.a, "c": self.c}[k]
        i = int(s[1:])
        return tb[i] if i < len(tb) else 0

    def toks(self, s):
        return [self.tok(x) for x in s.split(",") if x]

    def record(self, op, res):
        kind = op.split(":")[0]
        if res.startswith("h"):
            w = int(res[1:], 16)
            if kind in ("MA", "MG"):
                self.m.append(w)
            elif kind == "AN":
                self.a.append(w)
            elif kind == "CA":
                self.c.append(w)
        elif res.startswith("w"):
            ws = [int(x, 16) for x in res[1:].split(",") if x]
            if kind in ("PP", "AP") and len(ws) == 1:
                self.a.append(ws[0])
            elif kind == "SH":
                self.a.append(ws[-1] if ws else 0)
            elif kind == "ST" and ws:
                self.a.append(ws[0])


def related(sres, res, tabs, n_arr_before):
    """res_rel of Prims/Pre.v, through the handles the real runtime returned itself"""
    if sres[0] == "A":
        # a new array: prepend / append answer vec![handle] (w<h>), the literal answers h<h>
        return (res[0] == "h" or (res[0] == "w" and "," not in res and len(res) > 1)) and int(sres[1:]) == n_arr_before
    if sres[0] == "v":
        if res[0] != "w":
            return False
        sv = [x for x in sres[1:].split(",") if x]
        iw = [x for x in res[1:].split(",") if x]
        if len(sv) != len(iw):
            return False
        for v, w in zip(sv, iw):
            if v[0] == "n":
                want = int(v[1:], 16)
            elif v[0] == "a":
                k = int(v[1:])
                want = tabs.a[k] if k < len(tabs.a) else None      # a handle returned by THIS step: checked after recording
            else:
                want = 0
            if want is not None and want != int(w, 16):
                return False
        return True
    if sres[0] == "F":
        return res[0] == "E" or res in ("P", "x")
    return sres == res


def judge(line, m, a):
    """-> list of (kind, text): 'C' model / real runtime differ, 'P' the property fails on the real answers; info"""
    if "crash" in a:
        return [("P", "the real driver died on this sequence: " + a["crash"])], {}
    if "error" in m:
        return [("C", "input error: %s" % m.get("error"))], {}
    bad = []
    ops = op_list(line)
    real, mod = a["tpl"], m["tpl"]
    if m.get("chk") != "ok":
        bad.append(("C", "the theorem's step function and the transcribed functions disagree: " + str(m.get("chk"))))
    if real != mod:
        k = next((i for i, (x, y) in enumerate(zip(real, mod)) if x != y), min(len(real), len(mod)))
        bad.append(("C", "model (RustRt2/Model.v) and the real template differ at step %d (%s): model %s, real %s"
                    % (k, ops[k] if k < len(ops) else "?", mod[k] if k < len(mod) else "<end>", real[k] if k < len(real) else "<end>")))
    info = {"arr_steps": 0, "mem_pairs": 0, "cell_pairs": 0, "handle_checks": 0, "outside": None}
    tabs = Tables()
    claiming = True
    clos = []          # per closure ordinal: (upvalue tokens, bits) as written in the CA op
    last_enc = None
    for i, res in enumerate(real):
        op = ops[i]
        f = op.split(":")
        kind = f[0]
        sres = m["spec"][i] if i < len(m["spec"]) else "-"
        flag = m["pre"][i] if i < len(m["pre"]) else "-"
        n_arr_before = len(tabs.a)
        # (arrays) refinement of the contract under rt_pre
        if sres != "-" and claiming:
            if flag != "1":
                claiming = False
                if not related(sres, res, tabs, n_arr_before):
                    info["outside"] = kind
            else:
                tabs_after = Tables()
                tabs_after.m, tabs_after.a, tabs_after.c = list(tabs.m), list(tabs.a), list(tabs.c)
                tabs_after.record(op, res)
                if not related(sres, res, tabs_after, n_arr_before):
                    bad.append(("P", "under rt_pre the real runtime answers %s at step %d (%s), the contract %s" % (res, i, op, sres)))
                    claiming = False
                else:
                    info["arr_steps"] += 1
                if sres[0] == "F":
                    claiming = False
        # (memory) load right after a successful store through the same handle and size
        if kind == "ML" and i > 0 and ops[i - 1].startswith("MS:") and real[i - 1] == "u":
            g = ops[i - 1].split(":")
            if g[1] == f[1] and g[2] == f[2]:
                want = tabs.toks(g[3])[:int(f[2], 0)]
                got = [int(x, 16) for x in res[1:].split(",") if x] if res.startswith("w") else None
                info["mem_pairs"] += 1
                if got != want:
                    bad.append(("P", "load after store: stored %s, the next load through the same handle returns %s (step %d, %s)"
                                % (["%x" % w for w in want], res, i, op)))
        # (closures) a store through an indirect upvalue is read through every closure holding the same cell
        if kind == "CL" and i > 0 and ops[i - 1].startswith("CS:") and real[i - 1] == "u":
            g = ops[i - 1].split(":")
            try:
                k1, i1, k2, i2 = int(g[1][1:]), int(g[2]), int(f[1][1:]), int(f[2])
                ok = g[1][0] == "c" and f[1][0] == "c" and g[3] == f[3]
                c1, c2 = clos[k1], clos[k2]
                ok = ok and c1 and c2 and c1[0][i1] == c2[0][i2] and c1[1][i1] == c2[1][i2] == "1"
            except (ValueError, IndexError):
                ok = False
            if ok:
                want = tabs.toks(g[4])[:int(g[3])]
                got = [int(x, 16) for x in res[1:].split(",") if x] if res.startswith("w") else None
                info["cell_pairs"] += 1
                if got != want:
                    bad.append(("P", "shared cell: %s stored %s, %s reads %s" % (ops[i - 1], ["%x" % w for w in want], op, res)))
        # (handles) round trip and disjointness
        if kind in ("EM", "EF", "EC"):
            last_enc = (kind[1], int(f[1], 0), int(res[1:], 16) if res.startswith("w") else None)
        if kind in ("DM", "DF", "DC") and last_enc and last_enc[2] is not None and int(f[1], 16) == last_enc[2] and last_enc[1] < 2 ** 61:
            e, idx, w = last_enc
            d = kind[1]
            want = ("w%x" % idx) if d == e else ("w%x" % w if d == "F" else "o")
            info["handle_checks"] += 1
            if res != want:
                bad.append(("P", "handle encoding: decode_%s(encode_%s(%d)) = %s, expected %s" % (d, e, idx, res, want)))
        if kind == "CA":
            if res.startswith("h"):
                clos.append(([x for x in f[2].split(",") if x], f[3] if f[3] != "-" else ""))
        tabs.record(op, res)
    return bad, info


def shrink(line, fails, budget=120):
    ops = op_list(line)
    changed = True
    while changed and budget > 0:
        changed = False
        for i in range(len(ops) - 1, -1, -1):
            cand = ops[:i] + ops[i + 1:]
            budget -= 1
            if cand and fails(";".join(cand)):
                ops = cand
                changed = True
                break
            if budget <= 0:
                break
    return ";".join(ops)


# ------------------------------------------------------------------------------------------------
# the part
# ------------------------------------------------------------------------------------------------
def prove_part(ck):
    if os.environ.get("VERIF_DEV_NOPROVE") == "1":
        return []
    bad = []
    for name, err in vplib.regen_tables(["rustrt_template"]):
        bad.append("translator:%s: %s" % (name, err[:300]))
    rc, out, dt = vplib.coq_make([COQ_TARGETS[0]], timeout=1500)
    ck.coverage["rtpl_coq_build_s"] = round(dt, 1)
    if rc != 0:
        return bad + ["coq: " + vplib.first_coq_error(out).replace("\n", " | ")[:600]]
    hits = [h for h in vplib.coq_audit_sources() if "RustRt2" in h or "C18_rt" in h]
    if hits:
        bad.append("audit: forbidden construct: " + "; ".join(hits[:5]))
    thms, exs = vplib.props_theorems(PROPS)
    ck.coverage["rtpl_theorems"] = thms
    ck.coverage["rtpl_examples"] = exs
    try:
        ax = vplib.coq_print_assumptions(PROPS, thms + exs)
    except RuntimeError as ex:
        return bad + ["audit: " + str(ex)[:400]]
    open_ = {k: v for k, v in ax.items() if v}
    if open_ or set(ax) != set(thms + exs):
        bad.append("audit: theorems of Props/C18_rt.v are not closed under the global context: %r" % open_)
    ck.coverage["rtpl_print_assumptions"] = "Closed under the global context (%d statements)" % len(ax) if not open_ else open_
    ck.obligations += len(thms) + len(exs)
    if not bad:
        ck.discharged += len(thms) + len(exs)
    return bad


def run_part(ck, quick=True):
    t0 = time.time()
    viol = []
    have_props = os.path.exists(os.path.join(vplib.COQ, "theories", "Props", PROPS + ".v"))
    if have_props:
        for b in prove_part(ck):
            ck.broken.append("rtpl: " + b)
            viol.append(("generated-Rust runtime: proof obligation no longer checks: " + b, {"no_input": True}))
    # (a) PIN
    changed, items, tpl, gen = check_pins(vplib.REPO)
    ck.coverage["rtpl_pinned_functions"] = len(PINS)
    if changed:
        ck.broken.append("rtpl: pin: " + ", ".join(changed)[:400])
        viol.append(("generated-Rust runtime: the text of %s changed since RustRt2/Model.v was transcribed from it (the theorems of "
                     "Props/C18_rt.v are about the old text); re-transcribe and re-pin" % ", ".join(changed)[:600],
                     {"no_input": True, "changed": changed}))
        if items is None:
            return viol
    # (b) CORRESPONDENCE
    rc, out, _ = vplib.coq_make([COQ_TARGETS[1]], timeout=900)
    if rc != 0:
        return viol + [("generated-Rust runtime: extraction of the model failed: " + vplib.first_coq_error(out)[:300], {"no_input": True})]
    rc, out, model = vplib.ocaml_build("rtpl_drv", ["rtpl_model"], os.path.join(VERIF, "ocaml", "rtpl_drv.ml"))
    if rc != 0:
        return viol + [("generated-Rust runtime: model driver does not build: " + out[-300:], {"no_input": True})]
    real, err = build_real_driver(items, tpl)
    if real is None:
        return viol + [("generated-Rust runtime: " + err, {"no_input": True})]

    rng = ck.rng.fork("rtpl")
    ncases = 3000 if quick else 60000
    lines = [f[1] for f in FIXED] + corpus_sequences() + [gen_case(rng) for _ in range(ncases)]
    m_ans = run_model(model, lines)
    r_ans = run_real(real, lines)

    cov = {"sequences": len(lines), "operations": 0, "array_steps_under_hypotheses": 0, "load_after_store_pairs": 0,
           "shared_cell_pairs": 0, "handle_round_trips": 0, "panics": 0, "errors": 0, "differences_outside_hypotheses": {}}
    seen = set()

    def fail_kind(line):
        m = run_model(model, [line])[0]
        a = run_real(real, [line])[0]
        b, _ = judge(line, m, a)
        return b[0][0] if b else ""

    reported = 0
    for idx, line in enumerate(lines):
        m, a = m_ans[idx], r_ans[idx]
        bad, info = judge(line, m, a)
        if idx < len(FIXED) and "tpl" in a:
            name, _, want = FIXED[idx]
            if ";".join(a["tpl"]) != want:
                viol.append(("generated-Rust runtime: the witness '%s' no longer behaves as recorded (real %s; recorded %s)"
                             % (name, ";".join(a["tpl"]), want), {"sequence": line}))
        if "tpl" in a:
            cov["operations"] += len(a["tpl"])
            cov["panics"] += 1 if a["tpl"] and a["tpl"][-1] == "P" else 0
            cov["errors"] += sum(1 for x in a["tpl"] if x.startswith("E"))
            seen.add(";".join(a["tpl"]))
        if info:
            cov["array_steps_under_hypotheses"] += info["arr_steps"]
            cov["load_after_store_pairs"] += info["mem_pairs"]
            cov["shared_cell_pairs"] += info["cell_pairs"]
            cov["handle_round_trips"] += info["handle_checks"]
            if info["outside"]:
                d = cov["differences_outside_hypotheses"]
                d[info["outside"]] = d.get(info["outside"], 0) + 1
        if idx % 300 == 11 and "tpl" in a:
            ck.sample({"sequence": line[:300], "real": ";".join(a["tpl"])[:300]})
        if not bad or reported >= 5:
            continue
        reported += 1
        kind, text = bad[0]
        small = shrink(line, lambda c: fail_kind(c) == kind)
        sm = run_model(model, [small])[0]
        sa = run_real(real, [small])[0]
        sb, _ = judge(small, sm, sa)
        obj = {"sequence": small, "original_sequence": line, "real": sa, "model": sm,
               "how": "echo '<sequence>' | %s   (model: .cache/ocaml/rtpl_drv/rtpl_drv)" % real}
        text = sb[0][1] if sb else text
        viol.append(("generated-Rust runtime: " + text, obj))
    cov["distinct_answers"] = len(seen)
    cov["wall_s"] = round(time.time() - t0, 1)
    for k, v in cov.items():
        ck.coverage["rtpl_" + k] = v
    ck.add("evaluations", len(lines))
    ck.add("distinct_nontrivial", len(seen))
    return viol


if __name__ == "__main__":
    if "--pins" in sys.argv:
        items, _, _ = template_items(vplib.REPO)
        for n in sorted(items):
            print('    %r: "%s",' % (n, pin_digest(items[n])))
        sys.exit(0)
    thorough = "--thorough" in sys.argv
    ck = vplib.Check("C18", ["--tier", "thorough" if thorough else "quick"])
    v = run_part(ck, quick=not thorough)
    for k in sorted(ck.coverage):
        if k.startswith("rtpl_"):
            print("%-45s %s" % (k, ck.coverage[k]))
    print("violations:", len(v))
    for what, obj in v:
        print(" *", what)
        print("     ", str(obj)[:1500])
    sys.exit(1 if v else 0)
