"""C07 — hot-swap after an edit preserves the state of untouched signal paths.

P: Props/C07.v (C07_untouched_voice_continues over Lmmm machine + HotSwap + StateTree theorems C08_same_shape/C08_survivors/
   C08_zero_elsewhere) — see the evidence for which theorems are discharged.
C: extracted model of the whole swap (StateTree.plan/apply_plan + Lmmm machine) vs the real VM after an edit (all channels, state words).
S: the property evaluated on the real runtimes WITHOUT the migration model: every voice is also simulated STANDALONE on the
   implementation (a one-voice program started at the sample the voice was created, constants changed by one-voice swaps); after
   every edit each untouched voice's channel must equal its standalone simulation, new voices must start from zero state, and an
   edit that does not compile must leave program and state unchanged.
"""
import json, os
from vplib import *
import lmmm
from lmmm import *

OCAML = lmmm.OCAML
HARNESS = lmmm.HARNESS

# edits that remove one site and add another at a different position in ONE swap (response to seeded change C07b).  When the added
# site shares a cell with an old site other than the removed one's position counterpart the layout pair is AMBIGUOUS and an untouched site can
# continue from a neighbour's state: finding F29 (class predicate checks/C08.py mixed_edit_ambiguous, the hypothesis of the theorem
# C08_survivors_mixed_unambiguous / C07_untouched_voices_continue_mixed); on unambiguous pairs every untouched voice must continue.
MIXED_EDITS = True

# ---- voices: functions with pairwise distinct state shapes ----
def template(k):
    """k -> (has_self, n_mem, delay_n|0); distinct k give distinct skeletons"""
    has_self = k % 2
    n_mem = (k // 2) % 4
    dn = (k // 8) % 5
    if not has_self and n_mem == 0 and dn == 0:
        n_mem = 1
    return (has_self, n_mem, dn)


def voice_fun(k):
    """AST of voice template k:  fn f<k>(x){ [self +] mem(mem(..x)) [+ delay(dn, x + <prev>, c)] }"""
    hs, nm, dn = template(k)
    x = 900 + k
    e = None
    if nm:
        e = ('var', x)
        for _ in range(nm):
            e = ('mem', e)
    if dn:
        d = ('delay', dn, ('bin', 'add', ('var', x), ('now',)), ('lit', max(1, dn - 1)))
        e = d if e is None else ('bin', 'add', e, d)
    if hs:
        e = ('bin', 'add', ('self',), e if e is not None else ('var', x))
        # keep magnitudes small: self is reduced modulo via min
        e = ('bin', 'min', e, ('lit', 1000000))
    return (100 + k, [x], e)


def shares_cell(k1, k2):
    """class predicate of finding F24: the two voice templates have a cell of the same kind and size"""
    a, b = template(k1), template(k2)
    return bool((a[0] and b[0]) or (a[1] and b[1]) or (a[2] and a[2] == b[2]))


def shape_key(k):
    return template(k)


class Voice:
    _n = 0
    def __init__(self, k, c, born, nest=0):
        Voice._n += 1
        self.id = Voice._n
        self.k, self.c, self.born, self.nest = k, c, born, nest
        self.hist = [(born, c)]       # (time, constant) changes


def prog_of_voices(voices):
    funs, seen = [], set()
    outs = []
    wrappers = []
    for v in voices:
        if v.k not in seen:
            seen.add(v.k)
            funs.append(voice_fun(v.k))
    for v in voices:
        call = ('call', 100 + v.k, [('lit', v.c)])
        for d in range(v.nest):
            w = 5000 + v.id * 10 + d
            wrappers.append((w, [], call))
            call = ('call', w, [])
        outs.append(call)
    return {"funs": funs + wrappers, "inputs": [], "lets": [], "outs": outs}


def src_of(voices, broken=None):
    s = pp_prog(prog_of_voices(voices))
    if broken == "syntax":
        s = s.replace("fn dsp(", "fn dsp((", 1)
    elif broken == "type":
        s = s.replace("fn dsp(){\n", "fn dsp(){\n  let zz = undefined_name_q + 1.0\n", 1)
    return s


# ---- edits INSIDE the body of a voice function that is instantiated several times (response to seeded change C07c) ----
def shared_body_stream(ck, iexe, n_hist, N):
    """dsp = (V(c1), V(c2)[, V(c3)]) with  fn V(x){ f_a(x) + f_b(x) + .. };  ONE edit inserts or removes a stateful call inside V's
    body (all templates have pairwise distinct state shapes, so the layout pair is unambiguous at every level).  Every surviving inner
    voice of EVERY instance must continue: channel j = sum of the standalone simulations of its inner voices with constant c_j."""
    ks_all, seen_t = [], set()
    for k_ in range(40):
        if template(k_) not in seen_t:
            seen_t.add(template(k_)); ks_all.append(k_)
    W = 7000
    def prog(inner, consts):
        funs = [voice_fun(k) for k in inner]
        e = None
        for k in inner:
            c = ('call', 100 + k, [('var', 7900)])
            e = c if e is None else ('bin', 'add', e, c)
        return {"funs": funs + [(W, [7900], e)], "inputs": [], "lets": [], "outs": [('call', W, [('lit', c)]) for c in consts]}
    reqs, meta, hists = [], [], []
    for h in range(n_hist):
        r = ck.rng.fork(("shared-body", h))
        ks = list(ks_all)
        for i in range(len(ks) - 1, 0, -1):
            j = r.below(i + 1); ks[i], ks[j] = ks[j], ks[i]
        n_in = r.range(1, 3)
        inner = ks[:n_in]
        consts = [r.range(1, 6) for _ in range(r.range(2, 3))]
        te = r.choice([1, 2, 3, 5, 8, 12])
        kind = r.choice(["append", "prepend", "insert", "remove"]) if n_in > 1 else r.choice(["append", "prepend"])
        born = {k: 0 for k in inner}
        if kind == "remove":
            new_inner = list(inner); del new_inner[r.below(len(new_inner))]
        else:
            nk = ks[n_in]
            born[nk] = te
            pos = {"append": len(inner), "prepend": 0}.get(kind, r.below(len(inner) + 1))
            new_inner = list(inner); new_inner.insert(pos, nk)
        hists.append({"inner": inner, "new_inner": new_inner, "consts": consts, "at": te, "kind": kind, "born": born})
        reqs.append({"src": pp_prog(prog(inner, consts)), "n": N, "state": False,
                     "swaps": [{"at": te, "src": pp_prog(prog(new_inner, consts))}]})
        meta.append(("hist", h, None))
        for k in set(inner) | set(new_inner):
            for c in sorted(set(consts)):
                b = born[k]
                base = Voice(k, c, b); Voice._n -= 1
                reqs.append({"src": src_of([base]), "n": N - b, "t0": b, "state": False, "swaps": []})
                meta.append(("solo", h, (k, c)))
    res = run_impl(iexe, reqs)
    solo = {(h, kc): r for (kind, h, kc), r in zip(meta, res) if kind == "solo"}
    viol, ok = [], 0
    for (kind, h, _), rq, r in zip(meta, reqs, res):
        if kind != "hist":
            continue
        H = hists[h]
        if 'crash' in r:
            viol.append(("harness process died during a shared-body hot-swap history", rq, {"rc": str(r['crash'])})); continue
        for be in ("vm", "wasm"):
            b = r.get(be)
            if b is None or 'samples' not in b:
                viol.append((be + ": the initial program does not compile", rq, {"answer": str(b)[:300]})); continue
            sw = (b.get('swaps') or [{}])[0]
            if 'panic' in sw or not sw.get('ok'):
                viol.append((be + ": hot swap of a compiling edit inside a shared voice body failed: " + str(sw)[:200], rq, {})); continue
            bad = None
            for t in range(N):
                s = b['samples'][t] if t < len(b['samples']) else {"panic": "missing"}
                if 'panic' in s:
                    bad = "panic at sample %d: %s" % (t, s['panic'][:160]); break
                cur = H["inner"] if t < H["at"] else H["new_inner"]
                for j, c in enumerate(H["consts"]):
                    want = 0.0
                    for k in cur:
                        so = solo.get((h, (k, c)))
                        kk = t - H["born"][k]
                        if so is None or 'crash' in so or be not in so or 'samples' not in so[be] or kk < 0 or kk >= len(so[be]['samples']) \
                                or 'out' not in so[be]['samples'][kk]:
                            want = None; break
                        want += bits_to_float(so[be]['samples'][kk]['out'][0])
                    if want is None:
                        continue
                    got = bits_to_float(s['out'][j])
                    if got != want:
                        bad = ("instance %d of the shared voice (constant %s) gives %s at sample %d, its inner voices alone give %s; edit '%s' of the "
                               "body at sample %d: %s -> %s" % (j, c, got, t, want, H["kind"], H["at"],
                                                                ["f%d" % (100 + k) for k in H["inner"]], ["f%d" % (100 + k) for k in H["new_inner"]]))
                        break
                if bad:
                    break
            if bad:
                viol.append((be + ": " + bad, rq, {}))
            else:
                ok += 1
    return viol, ok, len(reqs), hists


def run(ck):
    ck.level = "proof"
    proved = ck.prove(tables=["statetree_consts"], extra_targets=[lmmm.EXTRACT_TARGET])
    mexe, iexe = build_sides(ck)
    if iexe is None:
        ck.violation("harness does not build", {"broken": ck.broken}, no_input=True)
        return finish(ck)
    quick = ck.tier == "quick"
    n_hist = 120 if quick else 1500
    N = 24 if quick else 48
    findings = {f["id"]: f for f in known_findings("C07")}
    stats = {}
    def bump(k, n=1): stats[k] = stats.get(k, 0) + n

    import importlib.util as _ilu
    _sp = _ilu.spec_from_file_location("check_C08_pred", os.path.join(VERIF, "checks", "C08.py"))
    _c08 = _ilu.module_from_spec(_sp); _sp.loader.exec_module(_c08)
    ambiguous_at = {}        # history -> {time of a delete+insert edit: layout pair ambiguous?}
    histories = []
    for h in range(n_hist):
        r = ck.rng.fork(("hist", h))
        ks, seen_t = [], set()
        for k_ in range(40):                     # one kind per DISTINCT state shape (template(0) == template(2))
            if template(k_) not in seen_t:
                seen_t.add(template(k_)); ks.append(k_)
        # shuffle
        for i in range(len(ks) - 1, 0, -1):
            j = r.below(i + 1); ks[i], ks[j] = ks[j], ks[i]
        pool = list(ks)
        def take(pred=None):
            for q in pool:
                if pred is None or pred(q):
                    pool.remove(q); return q
            return None
        class _Fresh:
            def __next__(self_):
                q = take()
                if q is None:
                    raise StopIteration
                return q
        fresh = _Fresh()
        def vsize(q):
            hs_, nm_, dn_ = template(q)
            return hs_ + nm_ + (dn_ + 2 if dn_ else 0)
        voices = [Voice(next(fresh), r.range(1, 5), 0) for _ in range(r.range(2, 4))]
        versions = [(0, list(voices), None)]     # (time, voices, broken)
        events = []
        ntimes = sorted(set(r.choice([0, 1, 2, 3, 5, 8, 12, 16]) for _ in range(r.range(1, 3))))
        for t in ntimes:
            if t >= N:
                continue
            cur = list(versions[-1][1])
            kind = r.choice(["insert", "delete", "replace", "const", "nest", "syntaxerr", "typeerr", "insert", "delete"] + (["delins", "delins"] if MIXED_EDITS else []))
            if kind == "insert":
                cur.insert(r.below(len(cur) + 1), Voice(next(fresh), r.range(1, 5), t))
            elif kind == "delete" and len(cur) > 1:
                del cur[r.below(len(cur))]
            elif kind == "delins" and len(cur) > 1:
                # ONE edit removes a voice and adds a new one at ANOTHER position: the number of sites stays the same and the
                # untouched voices keep their relative order but change their index
                i = r.below(len(cur))
                bal = None
                if len(cur) >= 3 and r.chance(1, 2):
                    # BALANCED variant (response to seeded change C07d): +k words in front of an untouched voice A, the 2k words of the voice
                    # between A and the next untouched voice B removed: A moves up by k, B moves down by k
                    cands = [x for x in range(1, len(cur) - 1) if vsize(cur[x].k) % 2 == 0 and vsize(cur[x].k) > 0]
                    for x in cands:
                        qk = take(lambda q: vsize(q) * 2 == vsize(cur[x].k))
                        if qk is not None:
                            bal = (x, qk); break
                if bal is not None:
                    i = bal[0]
                gone = cur[i]
                del cur[i]
                js = [j for j in range(len(cur) + 1) if j != i]
                if bal is not None:
                    js = [i - 1]          # directly in front of A = cur[i - 1]
                    bump("edit_delins_balanced")
                nv = Voice(bal[1] if bal is not None else next(fresh), r.range(1, 5), t)
                nv.replaced = gone.k          # the new site may inherit same-shaped cells of the removed one (class F24)
                oldv = list(versions[-1][1])
                cur.insert(r.choice(js), nv)
                pairs = [(oldv.index(v), cur.index(v)) for v in cur if v in oldv]
                amb = _c08.mixed_edit_ambiguous([_c08.flat_site(*template(v.k)) for v in oldv], [_c08.flat_site(*template(v.k)) for v in cur], pairs)
                ambiguous_at.setdefault(h, {})[t] = amb
            elif kind == "replace":
                pos = r.below(len(cur))
                nv = Voice(next(fresh), r.range(1, 5), t)
                nv.replaced = cur[pos].k
                cur[pos] = nv
            elif kind == "const":
                v = cur[r.below(len(cur))]
                v2 = Voice(v.k, v.c + r.range(1, 3), v.born, v.nest); v2.hist = v.hist + [(t, v2.c)]; v2.id = v.id
                for attr in ("replaced", "unknown"):       # still the same call site
                    if hasattr(v, attr):
                        setattr(v2, attr, getattr(v, attr))
                cur[cur.index(v)] = v2
            elif kind == "nest":
                v = cur[r.below(len(cur))]
                v2 = Voice(v.k, v.c, t, v.nest + 1)      # a nested voice is a touched site: no guarantee -> treated as unknown
                v2.unknown = True
                cur[cur.index(v)] = v2
            elif kind in ("syntaxerr", "typeerr"):
                events.append((t, kind))
                versions.append((t, list(versions[-1][1]), "syntax" if kind == "syntaxerr" else "type"))
                continue
            else:
                continue
            events.append((t, kind))
            versions.append((t, cur, None))
        histories.append((versions, events))

    # ---- requests: the multi-voice history, plus one standalone simulation per voice instance ----
    reqs, meta = [], []
    for hi, (versions, events) in enumerate(histories):
        t0v = versions[0][1]
        rq = {"src": src_of(t0v), "n": N, "state": True,
              "swaps": [{"at": t, "src": src_of(vs, broken)} for (t, vs, broken) in versions[1:]]}
        reqs.append(rq); meta.append(("hist", hi, None))
        seen = set()
        for (t, vs, broken) in versions:
            for v in vs:
                if v.id in seen or getattr(v, "unknown", False):
                    continue
                # the LAST version of this voice instance carries its full constant history
                last = v
                for (_, vs2, _) in versions:
                    for w in vs2:
                        if w.id == v.id and len(w.hist) >= len(last.hist):
                            last = w
                seen.add(v.id)
                base = Voice(last.k, last.hist[0][1], last.born); Voice._n -= 1
                sq = {"src": src_of([base]), "n": N - last.born, "t0": last.born, "state": False,
                      "swaps": []}
                for (tc, c) in last.hist[1:]:
                    vv = Voice(last.k, c, last.born); Voice._n -= 1
                    sq["swaps"].append({"at": tc - last.born, "src": src_of([vv])})
                reqs.append(sq); meta.append(("solo", hi, v.id))
    res = run_impl(iexe, reqs)
    solo = {}
    for (kind, hi, vid), r in zip(meta, res):
        if kind == "solo":
            solo[(hi, vid)] = r

    viol = []
    distinct = 0
    for (kind, hi, _), rq, r in zip(meta, reqs, res):
        if kind != "hist":
            continue
        versions, events = histories[hi]
        if 'crash' in r:
            viol.append(("harness process died during a hot-swap history", hi, {"rc": str(r['crash'])})); continue
        for be in ("vm", "wasm"):
            b = r.get(be)
            if b is None or 'samples' not in b:
                viol.append((be + ": the initial program does not compile", hi, {"answer": str(b)[:300]})); continue
            bad = None
            known_hit = None
            f29_hit = None
            f25 = False
            # swaps: compile failures must be reported as failed swaps, others must succeed
            for (t, vs, broken), sw in zip(versions[1:], b.get('swaps', [])):
                if 'panic' in sw:
                    bad = "hot swap at sample %d panicked: %s" % (t, sw['panic'][:160]); break
                if broken and sw.get('ok'):
                    bad = "an edit that does not compile was swapped in at sample %d" % t; break
                if not broken and not sw.get('ok'):
                    bad = "hot swap of a compiling edit at sample %d failed: %s" % (t, str(sw.get('errs'))[:160]); break
            if bad is None:
                for t in range(N):
                    cur = [vs for (tt, vs, broken) in versions if tt <= t and not broken][-1]
                    s = b['samples'][t] if t < len(b['samples']) else {"panic": "missing"}
                    if 'panic' in s:
                        bad = "panic at sample %d: %s" % (t, s['panic'][:160]); break
                    if be == "wasm" and len(cur) != len(versions[0][1]) and "F25" in findings:
                        # WasmDspRuntime keeps the channel count of the program it was created with
                        f25 = True; break
                    if len(s['out']) != len(cur):
                        bad = "sample %d has %d channels, the running program has %d voices" % (t, len(s['out']), len(cur)); break
                    for j, v in enumerate(cur):
                        if getattr(v, "unknown", False):
                            continue
                        so = solo.get((hi, v.id))
                        if so is None or 'crash' in so or be not in so or 'samples' not in so[be]:
                            continue
                        ss = so[be]['samples']
                        k = t - v.born
                        if k < 0 or k >= len(ss) or 'out' not in ss[k]:
                            continue
                        if ss[k]['out'][0] != s['out'][j]:
                            if hasattr(v, "replaced") and shares_cell(v.k, v.replaced):
                                known_hit = (j, v); break
                            amb_times = [tt for tt, a in ambiguous_at.get(hi, {}).items() if a and tt <= t]
                            if amb_times and "F29" in findings:
                                f29_hit = (j, v, amb_times[-1]); break
                            bad = ("channel %d (voice f%d(%s), created at sample %d) at sample %d is %s but the voice alone gives %s; edits: %s"
                                   % (j, 100 + v.k, v.c, v.born, t, bits_to_float(s['out'][j]), bits_to_float(ss[k]['out'][0]), events)); break
                    if bad or known_hit or f29_hit:
                        break
            if f25 and not bad and not known_hit:
                bump("wasm_channel_count_changed_F25")
                ck.known(findings["F25"], "history %d: %s" % (hi, events))
                continue
            if f29_hit and not bad:
                bump(be + "_mixed_edit_ambiguous_F29")
                ck.known(findings["F29"], "history %d: voice f%d after the delete+insert edit at sample %d" % (hi, 100 + f29_hit[1].k, f29_hit[2]))
                continue
            if known_hit and not bad and "F24" in findings:
                bump(be + "_replace_inherits_state_F24")
                ck.known(findings["F24"], "voice f%d replaced voice f%d" % (100 + known_hit[1].k, 100 + known_hit[1].replaced))
            elif bad or known_hit:
                viol.append((be + ": " + (bad or "replaced voice inherits state"), hi, {}))
            else:
                bump(be + "_histories_ok")
                distinct += 1
    for (t, k) in [e for (_, evs) in histories for e in evs]:
        bump("edit_" + k)

    # ---- edits inside the body of a voice function instantiated several times ----
    sviol, sok, sreq, shists = shared_body_stream(ck, iexe, 40 if quick else 400, N)
    stats["shared_body_histories"] = len(shists)
    stats["shared_body_backend_runs_ok"] = sok
    for H in shists:
        bump("shared_body_edit_" + H["kind"])
    distinct += sok

    # ---- model of the whole swap vs the real VM (single-edit histories) ----
    disag = []
    if mexe:
        lines, idxs = [], []
        for hi, (versions, events) in enumerate(histories):
            if len(versions) == 2 and versions[1][2] is None:
                n1 = versions[1][0]
                p1, p2 = prog_of_voices(versions[0][1]), prog_of_voices(versions[1][1])
                lines.append(f"SWAP {n1} {N - n1} 0 | {prog_sx(p1)} | {prog_sx(p2)}"); idxs.append(hi)
        if lines:
            import subprocess
            pr = subprocess.run([mexe], input="\n".join(lines) + "\n", stdout=subprocess.PIPE, text=True, timeout=900)
            outs = [json.loads(l) for l in pr.stdout.split("\n") if l]
            hist_res = {hi: r for (kind, hi, _), r in zip(meta, res) if kind == "hist"}
            for hi, mo in zip(idxs, outs):
                r = hist_res[hi]
                if 'crash' in r or 'samples' not in r.get('vm', {}):
                    continue
                n1 = histories[hi][0][1][0]
                if mo.get('swap') != 'ok':
                    if not any('panic' in sw for sw in r['vm'].get('swaps', [])):
                        disag.append(("model swap outcome %s but the VM swapped fine" % mo.get('swap'), hi))
                    continue
                for k, ms in enumerate(mo['vm']):
                    s = r['vm']['samples'][n1 + k]
                    if ms is None or 'out' not in s:
                        disag.append(("model/VM fault mismatch after swap", hi)); break
                    if [bits_to_float(h) for h in s['out']] != [float(v) for v in ms['out']]:
                        disag.append(("outputs after the swap differ: model %s VM %s (sample %d)" % (ms['out'], [bits_to_float(h) for h in s['out']], n1 + k), hi)); break
                    dw = decode_words(s['words'], mo['new_skel'])
                    if dw is not None and dw != ms['words']:
                        disag.append(("migrated state words differ: model %s VM %s" % (ms['words'], dw), hi)); break
                else:
                    bump("model_swap_agrees")

    ck.coverage["evaluations"] = len(reqs) + sreq
    ck.coverage["histories"] = len(histories)
    ck.coverage["distinct_nontrivial"] = distinct
    ck.coverage["stats"] = stats
    ck.coverage["model_vs_impl_disagreements"] = len(disag)
    for hi in (0, len(histories) // 2, len(histories) - 1):
        versions, events = histories[hi]
        ck.sample({"initial_source": src_of(versions[0][1]), "edits": events,
                   "final_source": src_of(versions[-1][1], versions[-1][2])})
    for what, hi, det in viol[:5]:
        versions, events = histories[hi]
        ck.violation(what, {"initial_source": src_of(versions[0][1]), "n_samples": N,
                            "swaps": [{"at": t, "src": src_of(vs, broken)} for (t, vs, broken) in versions[1:]], "edits": events, **det,
                            "how": "lmmm_run request {src, n, swaps:[{at,src}]}"})
    for what, rq, det in sviol[:5]:
        ck.violation(what, {"initial_source": rq["src"], "n_samples": N, "swaps": rq["swaps"], **det,
                            "how": "lmmm_run request {src, n, swaps:[{at,src}]}"})
    if disag and not viol:
        ck.broken.append("correspondence HotSwap.swap_run vs VM new_resume: " + disag[0][0])
        versions, events = histories[disag[0][1]]
        ck.violation("model and implementation disagree on a swap; no clause of the property fails: " + disag[0][0],
                     {"initial_source": src_of(versions[0][1]), "swaps": [{"at": t, "src": src_of(vs, b)} for (t, vs, b) in versions[1:]]}, no_input=True)
    if not proved and not viol and not disag and not sviol:
        ck.violation("a proof obligation of Props/C07.v no longer checks", {"broken": ck.broken}, no_input=True)
    return finish(ck)


def finish(ck):
    ck.finish(
        explanation=("Programs are tuples of independent stateful voices with pairwise distinct state shapes; histories are sequences of edits "
                     "(insert/delete/replace a voice at any position, change a constant, nest a voice one call deeper, syntax error, type error) at "
                     "swap times incl. sample 0. On both runtimes every untouched voice's channel must equal the voice simulated alone on the same "
                     "runtime (created at its birth sample, constants changed by one-voice swaps), new voices start from zero, a non-compiling edit "
                     "changes nothing. The extracted model of the whole swap (StateTree plan/apply + Lmmm machine) is compared with the real VM "
                     "(outputs and migrated words). Theorems: see coverage.theorems. Not covered: closures created by main, arrays, scheduler "
                     "tasks across a swap; voices with identical shapes (exchange allowed by the property) are avoided by construction."),
        trusted_base=["Coq 8.16.1 kernel", "extraction + ocaml/lmmm_drv.ml (SWAP command)", "harness/lang runner.rs (replicates the CLI's WASM payload preparation)",
                      "standalone-voice oracle: relies on C06 (same-shape swap is a plain copy) for constant changes"],
        rule="random edit histories over voice programs; distinct_nontrivial = (history, backend) pairs in which every checked channel matched its standalone voice")
