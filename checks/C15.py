"""C15 — compilation is deterministic (level: other / partial, narrow theorem + differential search).

P: Props/C15.v over Interner/{Model,Lemmas,Conc,Sort,SiteClasses,Sites}.v: resolve/intern laws for every history, history
   independence of symbol programs (logical relation), the two order-insensitive idioms (sort on unique keys, running
   maximum) and the finite audit C15_sites_classified over Tables/HashIterSites.v (regenerated from the source by
   translators/hash_iter_sites.py on every run).
C: the extracted interner model vs the real SessionGlobals on random operation sequences (fresh processes, exact ids).
S: the property itself on the real compiler: every source (shipped examples / library / test fixtures that the harness can
   compile, corpus/C15, generated core programs, generated type-declaration programs) is observed
     (a) twice in a row in a fresh process with no history,
     (b) after other programs (different ones in every pass, sometimes preceded by a program that interns the source's
         identifiers in reverse order),
     (c) in 8 different processes (different RandomState seeds);
   Mir Display, bytecode listing, WASM bytes, state skeleton, io channels, 32 output samples of both runtimes and the
   diagnostics (as a multiset) must be identical in all observations.
"""
import concurrent.futures, glob, json, os, re, time
from vplib import *
import lmmm

ARTS = ("mir", "bc", "wasm", "skel", "io", "vm_out", "wasm_out")
KEYWORDS = {"fn", "let", "letrec", "if", "else", "self", "now", "samplerate", "match", "type", "alias", "rec", "mod", "use", "pub",
            "float", "int", "string", "struct", "macro", "include", "true", "false", "stage", "main", "void"}


# ---------------------------------------------------------------------------------------------------------------------
# sources
# ---------------------------------------------------------------------------------------------------------------------
def shipped_sources():
    pats = ["crates/lib/mimium-test/tests/mmm/*.mmm", "examples/*.mmm", "lib/*.mmm"]
    out = []
    for pat in pats:
        for f in sorted(glob.glob(os.path.join(REPO, pat))):
            try:
                src = open(f, encoding="utf-8").read()
            except (OSError, UnicodeDecodeError):
                continue
            out.append({"name": os.path.relpath(f, REPO), "src": src, "path": f, "sched": True, "kind": "shipped"})
    return out


def corpus_sources():
    out = []
    for f in sorted(glob.glob(os.path.join(VERIF, "corpus", "C15", "*.mmm"))):
        out.append({"name": "corpus/C15/" + os.path.basename(f), "src": open(f).read(), "path": None, "sched": True, "kind": "corpus"})
    return out


def gen_core_sources(ck, n):
    out = []
    i = 0
    while len(out) < n:
        r = ck.rng.fork(("C15core", i))
        i += 1
        g = lmmm.Gen(r, stateful_arms=False, max_funs=r.choice([1, 2, 3, 4, 5]), depth=r.choice([2, 3, 3, 4, 4, 5]))
        p = g.program()
        if lmmm.classes_of(p) or lmmm.has_stateful_arm(p):
            continue   # F3 / F13 / F2 classes belong to other properties (crashes, memory corruption)
        out.append({"name": "gen-core-%d" % i, "src": lmmm.pp_prog(p), "path": None, "sched": False, "kind": "gen-core"})
    return out


def gen_type_prog(r, shared_ctor=False):
    """sum types / aliases with pairwise different names, every constructor used; shared_ctor: class F20"""
    nt = r.range(2, 6)
    lines, uses = [], []
    cid = 0
    for t in range(nt):
        rec = r.chance(1, 4)
        nv = r.range(1, 4)
        vs = []
        for _ in range(nv):
            kind = r.below(3)
            vs.append(("K%d" % cid, kind))
            cid += 1
        if shared_ctor and t == 1:
            vs[0] = ("K0", vs[0][1])
        def vdecl(v):
            return v[0] if v[1] == 0 else (v[0] + "(float)" if v[1] == 1 else v[0] + "((float,float))")
        lines.append("type %sT%d = %s" % ("rec " if rec else "", t, " | ".join(vdecl(v) for v in vs)))
        arms = []
        for j, v in enumerate(vs):
            k = r.range(1, 9)
            if v[1] == 0:
                arms.append("    %s => %d.0" % (v[0], k))
            elif v[1] == 1:
                arms.append("    %s(x) => x*%d.0" % (v[0], k))
            else:
                arms.append("    %s((x,y)) => x*%d.0+y" % (v[0], k))
        lines.append("fn f%d(v:T%d){\n  match v {\n%s\n  }\n}" % (t, t, ",\n".join(arms)))
        if not (shared_ctor and t < 2):
            v = r.choice(vs)
            arg = v[0] if v[1] == 0 else ("%s(%d.0)" % (v[0], r.range(1, 5)) if v[1] == 1 else "%s((%d.0,%d.0))" % (v[0], r.range(1, 5), r.range(1, 5)))
            uses.append("f%d(%s)" % (t, arg))
    if shared_ctor:
        uses.append("f0(K0)")
    for a in range(r.range(0, 3)):
        lines.append("type alias Al%d = %s" % (a, r.choice(["float", "(float,float)"])))
    r2 = list(lines)
    # declaration order is shuffled: the compiler's tables are hash maps anyway
    for i in range(len(r2) - 1, 0, -1):
        j = r.below(i + 1)
        r2[i], r2[j] = r2[j], r2[i]
    return "\n".join(r2) + "\nfn dsp(){\n  " + " + ".join(uses or ["0.0"]) + "\n}\n"


def gen_module_prog(r):
    """modules exporting public functions drawn from a small pool (so names collide), two or more `use m::*`, explicit imports of
    colliding names, a local definition shadowing imports; `dsp` calls bare and qualified names.  "First match wins" shapes."""
    mod_pool = ["synth", "fx", "mid", "zed", "abc", "osc2", "Q", "util", "m9", "beta", "alpha", "core2"]
    fn_pool = ["level", "gain", "tone", "wet", "mix", "a", "b", "pan"]
    nm = r.range(2, 4)
    mods = []
    pool = list(mod_pool)
    for _ in range(nm):
        mods.append(pool.pop(r.below(len(pool))))
    exports = {}
    lines = []
    val = 1
    nested = r.chance(1, 5)
    for m in mods:
        fs = []
        for f in fn_pool:
            if r.chance(2, 5):
                fs.append(f)
        if not fs:
            fs = [r.choice(fn_pool)]
        exports[m] = fs
        body = []
        for f in fs:
            body.append("    pub fn %s() { %d.0 }" % (f, val)); val *= 2
        if r.chance(1, 3):
            body.append("    fn hidden_%s() { 0.5 }" % m)
        lines.append("%smod %s {\n%s\n}" % ("pub " if nested else "", m, "\n".join(body)))
    if nested:
        lines = ["mod outer {\n" + "\n".join("  " + l.replace("\n", "\n  ") for l in lines) + "\n}"]
    pref = "outer::" if nested else ""
    wild = [m for m in mods if r.chance(3, 4)]
    if len(wild) < 2:
        wild = mods[:2]
    for i in range(len(wild) - 1, 0, -1):
        j = r.below(i + 1)
        wild[i], wild[j] = wild[j], wild[i]
    uses = ["use %s%s::*" % (pref, m) for m in wild]
    explicit = {}
    for m in mods:
        if r.chance(1, 3):
            f = r.choice(exports[m])
            if f not in explicit:
                explicit[f] = m
                uses.insert(r.below(len(uses) + 1), "use %s%s::%s" % (pref, m, f))
    local = None
    if r.chance(1, 3):
        local = r.choice(fn_pool)
        lines.append("fn %s() { %d.0 }" % (local, val)); val *= 2
    avail = sorted({f for m in wild for f in exports[m]} | set(explicit) | ({local} if local else set()))
    terms = ["%s()" % f for f in avail]
    for m in mods:
        if r.chance(1, 2):
            terms.append("%s%s::%s()" % (pref, m, r.choice(exports[m])))
    return "\n".join(lines) + "\n" + "\n".join(uses) + "\nfn dsp() {\n  " + " + ".join(terms) + "\n}\n"


def gen_same_type_name_prog(r):
    """sibling modules (same nesting depth) declaring type aliases / types with the SAME short name, and unqualified references to
    that name from the top level or from one of the modules (response to seeded change C15b: a fallback that scans hash-map keys)"""
    mods = ["osc", "env", "flt", "mix", "adsr"]
    for i in range(len(mods) - 1, 0, -1):
        j = r.below(i + 1); mods[i], mods[j] = mods[j], mods[i]
    k = r.range(2, 4)
    tn = r.choice(["Params", "State", "Cfg"])
    shapes = ["{freq:float, amp:float}", "{amp:float, attack:float, release:float}", "(float, float)", "{amp:float}", "(float, float, float)"]
    L = []
    for m, sh in zip(mods[:k], shapes):
        nested = r.chance(1, 4)
        body = "  pub type alias %s = %s\n" % (tn, sh)
        if r.chance(1, 2):
            body += "  pub fn level(p:%s)->float { %s }\n" % (tn, "p.amp" if "amp" in sh else "p.0")
        L.append(("mod %s {\n%s}\n" % (m, body)) if not nested else ("mod %s {\n  pub mod inner {\n  %s  }\n}\n" % (m, body.replace("\n", "\n  ").rstrip(" "))))
    user = r.below(3)
    if user == 0:
        L.append("fn lev(p:%s)->float { 1.0 }\nfn dsp(){\n  0.25\n}\n" % tn)
    elif user == 1:
        L.append("fn dsp(){\n  let p : %s = {amp = 0.5}\n  0.5\n}\n" % tn)
    else:
        L.append("use %s::*\nfn lev(p:%s)->float { 2.0 }\nfn dsp(){\n  0.75\n}\n" % (mods[0], tn))
    return "".join(L)


def gen_project_sources(ck, n):
    """Pairs of projects on disk whose main files are the SAME text and pull in a file by the same bare name (include / `mod x`), which
    resolves to DIFFERENT files: for ws_a through the workspace's lib/ directory, for proj_b next to the including file.  Each main file
    is observed alone and after its sibling has been compiled in the same process (response to seeded change C15c: a process-wide cache
    of parsed includes keyed by the name as written)."""
    import shutil
    import atexit
    root = os.path.join(VERIF, ".cache", "tmp", "C15proj-%s-%d" % (ck.seed, os.getpid()))     # private to this run
    shutil.rmtree(root, ignore_errors=True)
    atexit.register(shutil.rmtree, root, ignore_errors=True)
    out = []
    for i in range(n):
        r = ck.rng.fork(("C15proj", i))
        lib = r.choice(["filterlib", "voices", "fx", "util%d" % i])
        form = r.choice(["include", "include", "mod"])
        fa = r.choice(["x * 0.5", "x + 1.0", "x * x"])
        fb = r.choice(["self * 0.5 + x * 0.5", "mem(x) + x", "delay(4.0, x, 2.0) + x", "x * 0.25 + 3.0"])
        if form == "include":
            song = 'include("%s.mmm")\nfn dsp(){\n  smooth(%s.0) + now\n}\n' % (lib, r.range(1, 9))
            mk = lambda body: "fn smooth(x){\n  %s\n}\n" % body
        else:
            song = 'mod %s\nfn dsp(){\n  %s::smooth(%s.0) + now\n}\n' % (lib, lib, r.range(1, 9))
            mk = lambda body: "pub fn smooth(x){\n  %s\n}\n" % body
        d = os.path.join(root, "p%d" % i)
        files = {"ws_a/lib/%s.mmm" % lib: mk(fa), "ws_a/song.mmm": song, "proj_b/%s.mmm" % lib: mk(fb), "proj_b/song.mmm": song}
        if r.below(2):
            files["ws_a/lib/%s.mmm" % lib], files["proj_b/%s.mmm" % lib] = mk(fb), mk(fa)
        for rel, txt in files.items():
            os.makedirs(os.path.dirname(os.path.join(d, rel)), exist_ok=True)
            open(os.path.join(d, rel), "w").write(txt)
        a = {"name": "proj-%d/ws_a/song.mmm" % i, "src": song, "path": os.path.join(d, "ws_a", "song.mmm"), "sched": False, "kind": "project",
             "files": files}
        b = {"name": "proj-%d/proj_b/song.mmm" % i, "src": song, "path": os.path.join(d, "proj_b", "song.mmm"), "sched": False, "kind": "project",
             "files": files}
        a["sibling"], b["sibling"] = b, a
        out += [a, b]
    return out


def gen_module_sources(ck, n):
    return [{"name": "gen-mods-%d" % i, "src": gen_module_prog(ck.rng.fork(("C15mods", i))), "path": None, "sched": False,
             "kind": "gen-mods"} for i in range(n)] + \
           [{"name": "gen-sametype-%d" % i, "src": gen_same_type_name_prog(ck.rng.fork(("C15sametype", i))), "path": None, "sched": False,
             "kind": "gen-mods"} for i in range(max(8, n // 4))]


def gen_type_sources(ck, n):
    return [{"name": "gen-types-%d" % i, "src": gen_type_prog(ck.rng.fork(("C15types", i))), "path": None, "sched": False,
             "kind": "gen-types"} for i in range(n)]


# ---------------------------------------------------------------------------------------------------------------------
# class predicates of the known findings
# ---------------------------------------------------------------------------------------------------------------------
def strip_mmm_comments(src):
    src = re.sub(r"/\*.*?\*/", " ", src, flags=re.S)
    return re.sub(r"//[^\n]*", " ", src)


def f20_class(src):
    """constructor-name-shared-by-two-sum-types: two `type` declarations (both `rec` or both not: each group is registered in
    its own loop over the HashMap) declare a constructor with the same name"""
    s = strip_mmm_comments(src)
    seen = {}
    for m in re.finditer(r"\btype\s+(rec\s+)?([A-Za-z_]\w*)\s*=\s*([^\n]*(?:\n\s*\|[^\n]*)*)", s):
        if re.match(r"alias\b", m.group(2)):
            continue
        rec = bool(m.group(1))
        body = m.group(3)
        # top-level alternatives
        depth, cur, alts = 0, "", []
        for ch in body:
            if ch in "([{":
                depth += 1
            elif ch in ")]}":
                depth -= 1
            if ch == "|" and depth == 0:
                alts.append(cur); cur = ""
            else:
                cur += ch
        alts.append(cur)
        for a in alts:
            cm = re.match(r"\s*([A-Za-z_]\w*)", a)
            if cm:
                key = (rec, cm.group(1))
                if key in seen and seen[key] != m.group(2):
                    return True
                seen[key] = m.group(2)
    return False


def f21_class(err_lists):
    """diagnostics-order-of-type-declaration-errors: the observed diagnostics are permutations of one another and the ones
    that change place are RecursiveTypeAlias errors"""
    base = sorted(err_lists[0])
    if any(sorted(e) != base for e in err_lists):
        return False
    moved = set()
    for e in err_lists[1:]:
        for x, y in zip(err_lists[0], e):
            if x != y:
                moved.add(x); moved.add(y)
    return bool(moved) and all(m.startswith("Recursive type") for m in moved)


# ---------------------------------------------------------------------------------------------------------------------
# running
# ---------------------------------------------------------------------------------------------------------------------
def obs_req(s, n, full=False):
    return {"op": "obs", "src": s["src"], "path": s["path"], "sched": s["sched"], "n": n, "full": full, "tag": s["name"]}


def idents_of(src):
    seen, out = set(), []
    for i in re.findall(r"[A-Za-z_][A-Za-z0-9_]*", strip_mmm_comments(src)):
        if i not in seen and i not in KEYWORDS:
            seen.add(i); out.append(i)
    return out


def prelude_for(s, mode, r):
    """A PRIOR program of the same process that interns the names of s in another order than s itself does.
    mode "rev":   a program mentioning the identifiers of s in REVERSE order of first occurrence (a fresh process interns them in
                  order of first occurrence, so every pair of names ends up in the opposite Symbol order);
    mode "shuf":  the identifiers in random order;
    mode "uses":  s itself with its `use` statements in reverse order (also permutes the mangled names a$b of nested paths).
    A source that has a SIBLING project (gen_project_sources) is always preceded by its sibling."""
    if s.get("sibling"):
        b = s["sibling"]
        return {"op": "hist", "src": b["src"], "path": b["path"], "sched": b["sched"], "tag": "sibling-project(" + b["name"] + ")"}
    if mode == "uses":
        lines = s["src"].split("\n")
        idx = [i for i, l in enumerate(lines) if re.match(r"\s*(pub\s+)?use\b", l)]
        if len(idx) >= 2:
            vals = [lines[i] for i in idx][::-1]
            for i, v in zip(idx, vals):
                lines[i] = v
            return {"op": "hist", "src": "\n".join(lines), "path": s["path"], "sched": s["sched"], "tag": "uses-reversed(" + s["name"] + ")"}
        mode = "rev"
    ids = idents_of(s["src"])[:600]
    if mode == "rev":
        ids = ids[::-1]
    else:
        for i in range(len(ids) - 1, 0, -1):
            j = r.below(i + 1)
            ids[i], ids[j] = ids[j], ids[i]
    body = "\n".join("  let %s = 0.0" % i for i in ids)
    return {"op": "hist", "src": "fn hist_prelude(){\n%s\n  0.0\n}\n" % body, "path": None, "sched": False, "tag": mode + "-prelude(" + s["name"] + ")"}


def run_script(exe, reqs, timeout):
    for i, r in enumerate(reqs):
        r["id"] = i
    res, rc = lmmm._run_batch(exe, reqs, timeout)
    return res, rc


def canon(art, v):
    if isinstance(v, dict):
        if "hg" in v:
            return ("ok", v["hg"])         # Mir Display with the numerals of `arg <id>:` and `g(<n>)` masked (F22 / F23 are judged separately)
        if "h" in v:
            return ("ok", v["h"])
        if "err" in v:
            return ("err", tuple(sorted(v["err"])))
        if "panic" in v:
            return ("panic", re.sub(r"\d+", "#", str(v["panic"]))[:120])
    return ("val", json.dumps(v, sort_keys=True))


def first_diff(a, b):
    la, lb = a.split("\n"), b.split("\n")
    for i in range(max(len(la), len(lb))):
        x = la[i] if i < len(la) else "<end>"
        y = lb[i] if i < len(lb) else "<end>"
        if x != y:
            return {"line": i + 1, "a": x[:300], "b": y[:300]}
    return None


def site_status():
    """python view of C15_sites_classified: sites of the current source without a matching entry in SiteClasses.v"""
    import importlib.util
    spec = importlib.util.spec_from_file_location("tr_his", os.path.join(VERIF, "translators", "hash_iter_sites.py"))
    m = importlib.util.module_from_spec(spec)
    spec.loader.exec_module(m)
    try:
        _, _, _, _, sites, osites = m.scan(REPO)
    except Exception as ex:
        return None, "translator: %s" % ex
    src = open(os.path.join(COQ, "theories", "Interner", "SiteClasses.v")).read()
    pat = r'mkClass\s+"((?:[^"]|"")*)"\s+"((?:[^"]|"")*)"\s+"((?:[^"]|"")*)"\s+"((?:[^"]|"")*)"\s+(\w+)'
    cut = src.index("Definition order_classes")
    ents_h, ents_o = [], []
    for m_ in re.finditer(pat, src):
        e = tuple(x.replace('""', '"') for x in m_.groups()[:4]) + (m_.group(5),)
        (ents_h if m_.start() < cut else ents_o).append(e)
    missing = []
    for table, tsites, tents in (("hash_iter_sites", sites, ents_h), ("symbol_order_sites", osites, ents_o)):
        for f, fn, txt, ln, fp in tsites:
            ok = any(e[0] == f and e[1] == fn and e[2] == txt and (e[3] == fp or (e[3] == "*" and e[4] == "NotHash")) for e in tents)
            if not ok:
                missing.append({"table": table, "file": f, "function": fn, "line": ln, "text": txt, "fingerprint": fp})
    return sites + osites, missing


def interner_correspondence(ck, mexe, cexe, n_seq):
    """extracted model vs the real interner: random sequences, each in a fresh process (exact ids and keys)"""
    bad = []
    words = ["dsp", "x", "y", "osc", "m$f", "_mimium_global", "a", "b", "", "phase", "é", "K0", "freq gain"]
    def one(i):
        r = ck.rng.fork(("C15seq", i))
        ops_m, ops_r = [], []
        ni = nk = 0
        for _ in range(r.range(5, 40)):
            c = r.below(10)
            if c < 5:
                w = r.choice(words) + (str(r.below(4)) if r.chance(1, 2) else "")
                h = w.encode().hex()
                ops_m.append("i" + h); ops_r.append("i" + h); ni += 1
            elif c < 7:
                k = r.below(ni + 3)
                ops_m.append("r%d" % k); ops_r.append("r%d" % k)
            elif c < 9:
                v = str(r.below(1000))
                ops_m.append("s" + v.encode().hex()); ops_r.append("s" + v); nk += 1
            else:
                k = r.below(nk + 2)
                ops_m.append("l%d" % k); ops_r.append("l%d" % k)
        rc, out, _ = run_lines(mexe, "seq " + " ".join(ops_m) + "\n", timeout=60)
        res, rc2 = lmmm._run_batch(cexe, [{"op": "seq", "id": 0, "ops": ops_r}], 60)
        m = out[0].split() if out else None
        im = res[0]["out"] if res else None
        return (ops_r, m, im)
    with concurrent.futures.ThreadPoolExecutor(max_workers=NPROC) as ex:
        for ops, m, im in ex.map(one, range(n_seq)):
            ck.add("interner_ops_compared", len(ops))
            if m != im:
                bad.append({"ops": ops, "model": m, "real": im})
    return bad


def run(ck):
    ck.level = "other"
    proved = ck.prove(tables=["hash_iter_sites"], extra_targets=["theories/Extract/InternerExtract.vo"])
    quick = ck.tier == "quick"
    rc, out, bindir = cargo_build("lang", ["determinism_run", "concurrency_run"])
    if rc != 0:
        ck.broken.append("harness build failed: " + out[-600:])
        ck.violation("harness does not build against the repository", {"broken": ck.broken}, no_input=True)
        return finish(ck)
    exe = os.path.join(bindir, "determinism_run")
    cexe = os.path.join(bindir, "concurrency_run")
    rcm, outm, mexe = ocaml_build("interner_drv", ["interner_model"], os.path.join(VERIF, "ocaml", "interner_drv.ml"))
    viol = []        # (what, replay)
    findings = {f["id"]: f for f in known_findings("C15")}

    # ---- C: model vs real interner ------------------------------------------------------------------------------
    if rcm == 0 and mexe:
        bad = interner_correspondence(ck, mexe, cexe, 48 if quick else 400)
        if bad:
            ck.broken.append("correspondence Interner.Model intern/resolve/store/load vs interner.rs")
            viol.append(("model and real interner disagree on a sequential operation sequence (fresh process)", bad[0], True))
    else:
        ck.broken.append("ocaml driver build failed: " + str(outm)[-300:])

    # ---- sources -------------------------------------------------------------------------------------------------
    n_samples = 32
    srcs = corpus_sources() + shipped_sources() + gen_core_sources(ck, 100 if quick else 1200) + gen_type_sources(ck, 30 if quick else 300) + gen_module_sources(ck, 40 if quick else 400) + gen_project_sources(ck, 8 if quick else 40)
    if ck.replay:
        rp = json.load(open(ck.replay))["replay"]
        if "source" in rp:
            srcs = [{"name": "replay", "src": rp["source"], "path": rp.get("path"), "sched": rp.get("sched", True), "kind": "replay"}]
    for s in srcs:
        s["classes"] = {"F20"} if f20_class(s["src"]) else set()
    ck.coverage["sources_by_kind"] = {}
    for s in srcs:
        ck.coverage["sources_by_kind"][s["kind"]] = ck.coverage["sources_by_kind"].get(s["kind"], 0) + 1

    # ---- phase Q: alone, no history, twice in a row -----------------------------------------------------------------
    t_alone = 12 if quick else 150
    groups = []
    small = [s for s in srcs if s["kind"].startswith("gen")]
    big = [s for s in srcs if not s["kind"].startswith("gen")]
    for s in big:
        groups.append([s])
    for i in range(0, len(small), 6):
        groups.append(small[i:i + 6])
    obs = {s["name"]: [] for s in srcs}      # name -> list of (context, answer)
    scripts = {}                              # context id -> list of requests (to re-run for a replay)
    excluded = {}

    def phase_q(gi):
        g = groups[gi]
        reqs = []
        for s in g:
            reqs += [obs_req(s, n_samples), obs_req(s, n_samples)]
        res, rc = run_script(exe, reqs, t_alone * max(1, len(g) // 2))
        return gi, reqs, res, rc
    t0 = time.time()
    with concurrent.futures.ThreadPoolExecutor(max_workers=NPROC) as ex:
        for gi, reqs, res, rc in ex.map(phase_q, range(len(groups))):
            ctx = "Q%d" % gi
            scripts[ctx] = reqs
            for k, s in enumerate(groups[gi]):
                a = [r for r in res if r["id"] in (2 * k, 2 * k + 1)]
                if len(a) < 2:
                    excluded[s["name"]] = "timeout" if rc == "timeout" else ("process died rc=%s" % rc)
                    continue
                for r in a:
                    obs[s["name"]].append((ctx, r["id"], r))
    ck.coverage["phase_alone_s"] = round(time.time() - t0, 1)
    qualified = [s for s in srcs if s["name"] not in excluded]
    # a source none of whose artefacts exists (rejected program) stays in: its diagnostics are compared
    ck.coverage["excluded"] = {"count": len(excluded), "timeout(quick tier budget %ds)" % t_alone: sum(1 for v in excluded.values() if v == "timeout"),
                               "died_alone": sorted(k for k, v in excluded.items() if v != "timeout")[:12]}

    # ---- phase B: other histories, other processes ---------------------------------------------------------------------
    passes = 7
    nshard = max(1, (2 * NPROC) // passes)
    jobs = []
    for p in range(passes):
        r = ck.rng.fork(("C15pass", p))
        order = list(qualified)
        for i in range(len(order) - 1, 0, -1):
            j = r.below(i + 1)
            order[i], order[j] = order[j], order[i]
        for sh in range(nshard):
            part = order[sh::nshard]
            reqs, owners = [], []
            for s in part:
                # EVERY observation of these passes is preceded by a prior program that interns this source's names differently
                mode = ("rev", "uses", "shuf", "rev", "shuf", "uses", "rev")[p % 7]
                reqs.append(prelude_for(s, mode, r)); owners.append(None)
                reqs.append(obs_req(s, n_samples)); owners.append(s)
            jobs.append(("B%d.%d" % (p, sh), reqs, owners))

    def phase_b(j):
        ctx, reqs, owners = jobs[j]
        res, rc = run_script(exe, reqs, 900 if quick else 3000)
        return j, res, rc
    t0 = time.time()
    died = []
    with concurrent.futures.ThreadPoolExecutor(max_workers=NPROC) as ex:
        for j, res, rc in ex.map(phase_b, range(len(jobs))):
            ctx, reqs, owners = jobs[j]
            scripts[ctx] = reqs
            for r in res:
                s = owners[r["id"]]
                if s is not None:
                    obs[s["name"]].append((ctx, r["id"], r))
            if len(res) < len(reqs):
                died.append((ctx, len(res), rc))
    ck.coverage["phase_histories_s"] = round(time.time() - t0, 1)
    ck.coverage["processes"] = len(groups) + len(jobs)

    # a process of phase B that died: is it the history? (each of these sources survived alone)
    for ctx, k, rc in died[:3]:
        reqs = scripts[ctx]
        res2, rc2 = run_script(exe, [dict(r) for r in reqs[:k + 1]], 600)
        ck.add("died_in_history_process")
        if len(res2) < k + 1:
            viol.append(("the harness process dies (rc=%s) while compiling/running a source after other programs, although the same source "
                         "compiles and runs alone in a fresh process" % rc2,
                         {"source": reqs[k].get("src"), "path": reqs[k].get("path"), "after": [r.get("tag") for r in reqs[:k]][-12:],
                          "how": "feed the requests of this script to .cache/target/lang/debug/determinism_run", "n_requests": k + 1}, False))
        else:
            ck.add("died_not_reproduced")

    # ---- compare -----------------------------------------------------------------------------------------------------
    stats = {}
    def bump(k, n=1): stats[k] = stats.get(k, 0) + n
    n_obs = 0
    nontrivial = 0
    for s in qualified:
        o = obs[s["name"]]
        n_obs += len(o)
        if len(o) < 2:
            continue
        ok_arts = [a for a in ARTS if isinstance(o[0][2].get(a), dict) and "h" in o[0][2].get(a, {})]
        if ok_arts:
            nontrivial += 1
        diffs = {}
        for a in ARTS:
            groups_ = {}
            for ctx, rid, r in o:
                groups_.setdefault(canon(a, r.get(a)), []).append((ctx, rid))
            if len(groups_) > 1:
                diffs[a] = groups_
        # diagnostics order (F21) and raw Mir Display (F22) are judged separately
        errlists = [tuple(r["mir"]["err"]) for _, _, r in o if isinstance(r.get("mir"), dict) and "err" in r["mir"]]
        if len(set(errlists)) > 1 and not diffs:
            if f21_class([list(e) for e in errlists]) and "F21" in findings:
                bump("diagnostics_order_differs(F21)")
                ck.known(findings["F21"], s["name"] + ": " + " / ".join(errlists[0])[:160])
            else:
                diffs["diagnostics-order"] = {("order", i): [] for i in range(2)}
        mirs = [r["mir"] for _, _, r in o if isinstance(r.get("mir"), dict) and "h" in r["mir"]]
        if "mir" not in diffs and len({m["hm"] for m in mirs}) > 1:
            # equal up to g(<n>): class F23 = the Mir retains a generic function (type-scheme variables)
            if "F23" in findings and all(m.get("generic") for m in mirs):
                bump("mir_display_type_scheme_numbering_differs(F23)")
                ck.known(findings["F23"], s["name"])
            else:
                diffs["mir-typescheme-numbering"] = {("hm", m["hm"]): [] for m in mirs[:2]}
        elif "mir" not in diffs and len({m["h"] for m in mirs}) > 1:
            if "F22" in findings:
                bump("mir_display_raw_symbol_id_differs(F22)")
                ck.known(findings["F22"], s["name"])
            else:
                diffs["mir-raw-symbol-id"] = {("raw", m["h"]): [] for m in mirs[:2]}
        if not diffs:
            bump("sources_identical_in_all_observations")
            continue
        if "F20" in s["classes"] and "F20" in findings:
            bump("differences_in_F20_class")
            kinds = sorted({k[0] for g in diffs.values() for k in g})
            ck.known(findings["F20"], "%s: artefacts %s differ between compilations (%s)" % (s["name"], sorted(diffs), kinds))
            continue
        # a genuine difference: fetch the two artefacts in full by re-running the two scripts
        art = sorted(diffs)[0]
        detail = {"artefact": art}
        bump("sources_with_unexplained_difference")
        if len(viol) >= 5:
            continue        # only the first five are written out as replays
        if art in ARTS:
            (k1, l1), (k2, l2) = list(diffs[art].items())[:2]
            c1, c2 = l1[0], l2[0]
            # prefer an observation that a fresh process reproduces from its immediately preceding prior program alone
            fresh = [c for c in l1 + l2 if c[0].startswith("Q")]
            if fresh:
                base, _ = run_script(exe, [dict(scripts[fresh[0][0]][fresh[0][1]])], 300)
                gq = k1 if fresh[0] in l1 else k2
                for cand in [c for c in (l2 if gq == k1 else l1) if c[1] > 0 and scripts[c[0]][c[1] - 1].get("op") == "hist"][:6]:
                    after, _ = run_script(exe, [dict(scripts[cand[0]][cand[1] - 1]), dict(scripts[cand[0]][cand[1]])], 300)
                    if base and len(after) == 2 and canon(art, base[0].get(art)) != canon(art, after[1].get(art)):
                        c1, c2 = fresh[0], cand
                        k1, k2 = gq, (k2 if gq == k1 else k1)
                        break
            detail["observation_a"] = {"context": c1[0], "after": [r.get("tag") for r in scripts[c1[0]][:c1[1]]][-8:], "value": list(k1)[:2]}
            detail["observation_b"] = {"context": c2[0], "after": [r.get("tag") for r in scripts[c2[0]][:c2[1]]][-8:], "value": list(k2)[:2]}
            # a self-contained replay: does the prior program that immediately precedes the observation suffice?
            for key, (cx, rid) in (("observation_a", c1), ("observation_b", c2)):
                if rid > 0 and scripts[cx][rid - 1].get("op") == "hist":
                    prior = scripts[cx][rid - 1]
                    detail[key]["prior_program"] = prior["src"]
                    alone, _ = run_script(exe, [dict(scripts[cx][rid])], 300)
                    after, _ = run_script(exe, [dict(prior), dict(scripts[cx][rid])], 300)
                    if alone and len(after) == 2:
                        detail[key]["reproduced_in_a_fresh_process_with_only_the_prior_program"] = \
                            canon(art, alone[0].get(art)) != canon(art, after[1].get(art))
            texts = []
            for (cx, rid) in (c1, c2):
                reqs = [dict(r) for r in scripts[cx][:rid + 1]]
                reqs[-1]["full"] = True
                res2, _ = run_script(exe, reqs, 600)
                v = res2[-1].get(art) if len(res2) == len(reqs) else None
                texts.append(v.get("text") if isinstance(v, dict) else json.dumps(v))
            if art == "mir" and all(isinstance(t, str) for t in texts):
                texts = [re.sub(r"\bg\(\d+\)", "g(_)", re.sub(r"\barg \d+:", "arg _:", t)) for t in texts]
            if texts[0] is not None and texts[1] is not None and texts[0] != texts[1]:
                detail["first_difference"] = first_diff(str(texts[0]), str(texts[1]))
            else:
                detail["first_difference"] = "the difference depends on the hash seed of the process and did not recur in the re-run; digests: %s vs %s" % (k1, k2)
        viol.append(("the same source yields different %s in two compilations" % art,
                     {"source": s["src"], "path": s["path"], "sched": s["sched"], "name": s["name"], **detail,
                      **({"project_files": s["files"]} if s.get("files") else {}),
                      "how": "./check C15 --replay <this file>   (or: feed determinism_run the two requests {\"op\":\"hist\",\"src\":<prior_program>} and "
                             "{\"op\":\"obs\",\"src\":<source>,\"full\":true} in one process, and the second one alone in another process)"}, False))

    ck.coverage["evaluations"] = n_obs
    ck.coverage["distinct_nontrivial"] = nontrivial
    ck.coverage["sources_observed"] = len(qualified)
    ck.coverage["observations_per_source"] = 2 + passes
    ck.coverage["samples_per_observation"] = n_samples
    ck.coverage["stats"] = stats
    for s in (qualified[:1] + qualified[len(qualified) // 2:len(qualified) // 2 + 1] + qualified[-1:]):
        o = obs[s["name"]]
        ck.sample({"source": s["name"], "observations": len(o), "contexts": [c for c, _, _ in o][:9],
                   "bytecode_digest": (o[0][2].get("bc") or {}).get("h") if o else None})

    # ---- the F20 witness must still behave as recorded (a finding that stopped failing is reported) ----------------------
    if "F20" in findings and not ck.replay:
        w = [s for s in qualified if s["name"].endswith("f20_shared_constructor.mmm")]
        if w:
            o = obs[w[0]["name"]]
            kinds = {canon("bc", r.get("bc"))[0] for _, _, r in o}
            ck.coverage["F20_witness_outcomes"] = sorted(kinds)

    # ---- sites -------------------------------------------------------------------------------------------------------
    sites, missing = site_status()
    ck.coverage["hash_iteration_sites"] = len(sites) if sites is not None else None
    for what, rp, no_input in viol[:5]:
        ck.violation(what, rp, no_input=no_input)
    if not viol:
        if isinstance(missing, str):
            ck.violation("the iteration-site translator no longer understands the source", {"error": missing, "broken": ck.broken}, no_input=True)
        elif missing:
            ck.violation("C15_sites_classified / C15_symbol_order_sites_classified no longer check: hash-iteration or ordered-by-Symbol site(s) of "
                         "the current source without a classification; the differential search found no difference in %d observations of %d sources" % (n_obs, len(qualified)),
                         {"theorem": "Props/C15.v C15_sites_classified / C15_symbol_order_sites_classified", "unclassified_sites": missing[:10], "broken": ck.broken}, no_input=True)
        elif not proved:
            ck.violation("a proof obligation of Props/C15.v no longer checks", {"broken": ck.broken}, no_input=True)
    return finish(ck)


def finish(ck):
    ck.finish(
        explanation=("NARROW theorem + differential search. Proved in Coq (all histories, unbounded): the interner/arena model of "
                     "interner.rs satisfies resolve(intern h x)=x, intern h x = intern h y <-> x=y, ids never change, and any client that "
                     "uses symbols only through intern/equality/resolve (and arena keys through store/load) prints the same strings and "
                     "booleans in every process history (logical relation over a combinator language of symbol programs); printing the raw "
                     "id or comparing ids with < is refuted (that is what mir/print.rs does for argument names: finding F22). sort_by_key on "
                     "unique keys and a running maximum are functions of the multiset. Finite audit: every HashMap/HashSet iteration site the "
                     "translator finds in the current source is classified by hand (NotHash / OrderInsensitive / Canonicalised / "
                     "DiagnosticsOnly / Observable=F20). NOT proved: that the compiler uses symbols only that way, that the classification "
                     "reasons are right, and anything about the remaining 15 kLoC of the pipeline; for those the check compares Mir Display, "
                     "bytecode listing, WASM bytes, skeleton, io, 32 samples of both runtimes and diagnostics across 2 in-process repetitions, "
                     "7 different histories and 8 processes per source and reports any difference with the two artefacts."),
        trusted_base=["Coq 8.16.1 kernel", "extraction (ExtrOcamlBasic/ExtrOcamlString), ocaml/interner_drv.ml",
                      "translators/hash_iter_sites.py (regex scanner: bindings whose hash type is only inferred -- closure parameters, results of "
                      "generic calls -- are not seen)", "harness/lang determinism_run + runner.rs", "the hand-written reasons in Interner/SiteClasses.v",
                      "python generators (lib/lmmm.py Gen/pp_prog, gen_type_prog)", "std RandomState really differs between processes and maps"],
        rule=("sources: corpus/C15, every shipped .mmm under examples/, lib/, crates/lib/mimium-test/tests/mmm that the harness observes within the "
              "tier's time budget, generated core programs (functions, self, mem, delay, if, calls, lets, tuples) and generated sum-type/alias "
              "programs; modules with colliding exports and >= 2 wildcard imports (gen-mods); each observed twice alone in a fresh process, then once "
              "in each of 7 passes (fresh processes, shuffled order, EVERY observation preceded by a prior program that interns the source's "
              "identifiers in reverse order of first occurrence / random order / is the source with its `use` lines reversed); distinct_nontrivial = sources with at least one artefact"))
