"""C04 — front end and compile entry points are total on arbitrary text.

P: theorems of coq/theories/Props/C04.v over Parser/Model.v (every token list): no OutOfFuel with fuel 12*(n+1)
   (C04_parse_progress), no builder panic, error indices in range, CST leaves = 0..n-1 (C13_cst_leaves).
   (lexer / preparser totality: Props/C13.v.)
C: extracted Parser model vs the real parse_cst (CST s-expression, ParserError list, kind rewrites) on token-kind
   sequences rendered to text (exhaustive short ones, random, grammar-generated and mutated), every *.mmm of the
   repository and token-level mutations of them.
S: totality oracle on the real entry points (tokenize, parse_to_expr, typecheck_with_module_info as the language
   server calls it, Context::emit_bytecode, Context::emit_wasm) in supervised worker processes: value or
   diagnostics, never panic / abort / stack overflow / timeout; every diagnostic span inside the text on char
   boundaries; bracket nesting up to NEST_BOUND levels.
"""
import concurrent.futures, glob, itertools, json, os, re, subprocess, sys, time
from vplib import *

NEST_BOUND = 200          # stated bound of the property: bracket nesting below this never overflows the stack (8 MiB, debug build)
CASE_LIMIT_S = 10         # a case that takes longer is a hang
STACK_MIB = 8

# canonical lexeme of every token kind the tokenizer can produce for a syntax token
LEX = {
    "Ident": "a", "MacroExpand": "!", "FloatType": "float", "IntegerType": "int", "StringType": "string",
    "StructType": "struct", "Float": "1.5", "Int": "1", "Str": '"s"', "OpSum": "+", "OpMinus": "-", "OpProduct": "*",
    "OpDivide": "/", "OpEqual": "==", "OpNotEqual": "!=", "OpLessThan": "<", "OpLessEqual": "<=", "OpGreaterThan": ">",
    "OpGreaterEqual": ">=", "OpModulo": "%", "OpExponent": "^", "OpAt": "@", "OpAnd": "&&", "OpOr": "||", "OpPipe": "|>",
    "OpPipeMacro": "||>", "SelfLit": "self", "Now": "now", "SampleRate": "samplerate", "Comma": ",", "Dot": ".",
    "DoubleDot": "..", "Colon": ":", "DoubleColon": "::", "Let": "let", "LetRec": "letrec", "Assign": "=",
    "ParenBegin": "(", "ParenEnd": ")", "ArrayBegin": "[", "ArrayEnd": "]", "BlockBegin": "{", "BlockEnd": "}",
    "LambdaArgBeginEnd": "|", "BackQuote": "`", "Dollar": "$", "Function": "fn", "Macro": "macro", "Arrow": "->",
    "LeftArrow": "<-", "FatArrow": "=>", "PlaceHolder": "_", "If": "if", "Else": "else", "Match": "match",
    "Include": "include", "Sharp": "#", "StageKwd": "stage", "Main": "main", "Mod": "mod", "Use": "use", "Pub": "pub",
    "Type": "type", "Alias": "alias", "Rec": "rec", "Error": "\u00a7",
}
# kinds of token.rs that no text produces as a syntax token (trivia, Eof, kinds only the parser assigns, unused ones)
NOT_LEXED = {"IdentFunction", "IdentParameter", "IdentVariable", "OpUnknown", "SemiColon", "LineBreak", "Whitespace",
             "SingleLineComment", "MultiLineComment", "Eof"}
KINDS = list(LEX)
SEPS = [" ", "", "\n"]


def utf8(s):
    return s.encode("utf-8", "surrogatepass")


def token_kinds_of_repo():
    src = open(os.path.join(REPO, "crates/lib/mimium-lang/src/compiler/parser/token.rs")).read()
    m = re.search(r"pub enum TokenKind \{(.*?)\n\}", src, re.S)
    body = re.sub(r"//[^\n]*", "", m.group(1))
    return [v.strip() for v in body.split(",") if v.strip()]


# ------------------------------------------------------------------------------------------------
# generators
# ------------------------------------------------------------------------------------------------
def render(kinds, seps):
    return "".join(s + LEX[k] for k, s in zip(kinds, seps))


class Gen:
    """random, mostly well-formed programs as lists of lexemes"""

    def __init__(self, rng):
        self.r = rng

    def ident(self):
        return self.r.choice(["a", "b", "x", "f", "g", "dsp", "foo"])

    def ty(self, d):
        r = self.r.below(12 if d > 0 else 4)
        if r < 3:
            return [self.r.choice(["float", "int", "string"])]
        if r == 3:
            return [self.ident()]
        if r == 4:
            return ["("] + self.sepby(lambda: self.ty(d - 1), self.r.range(0, 3)) + [")"]
        if r == 5:
            return ["("] + self.sepby(lambda: self.ty(d - 1), self.r.range(0, 2)) + [")", "->"] + self.ty(d - 1)
        if r == 6:
            return ["["] + self.ty(d - 1) + ["]"]
        if r == 7:
            return ["{"] + self.sepby(lambda: [self.ident(), ":"] + self.ty(d - 1), self.r.range(1, 2)) + ["}"]
        if r == 8:
            return ["`"] + self.ty(d - 1)
        if r == 9:
            return self.ty(d - 1) + ["|"] + self.ty(d - 1)
        if r == 10:
            return [self.ident(), "::", self.ident()]
        return ["(", "(", "float", ")", "->", "float", ")"]

    def sepby(self, f, n, sep=","):
        out = []
        for i in range(n):
            if i:
                out.append(sep)
            out += f()
        if n and self.r.chance(1, 6):
            out.append(sep)
        return out

    def pat(self, d):
        r = self.r.below(6 if d > 0 else 2)
        if r == 0:
            return [self.ident()]
        if r == 1:
            return ["_"]
        if r in (2, 3):
            return ["("] + self.sepby(lambda: self.pat(d - 1), self.r.range(1, 3)) + [")"]
        if r == 4:
            return ["{"] + self.sepby(lambda: [self.ident(), "="] + self.pat(d - 1), self.r.range(1, 2)) + ["}"]
        return ["`"] + self.ty(1)

    def mpat(self, d):
        r = self.r.below(7 if d > 0 else 4)
        if r == 0:
            return [self.r.choice(["0", "1", "2"])]
        if r == 1:
            return ["1.5"]
        if r == 2:
            return ["_"]
        if r == 3:
            return [self.r.choice(["float", "int", "string", "Foo"])] + self.r.choice([[], ["(", "x", ")"], ["(", "_", ")"], ["(", "(", "x", ",", "y", ")", ")"], ["(", "x", ",", "y", ")"]])
        return ["("] + self.sepby(lambda: self.mpat(d - 1), self.r.range(1, 3)) + [")"]

    def expr(self, d):
        r = self.r.below(30 if d > 0 else 7)
        if r < 3:
            return [self.r.choice(["1", "1.5", "0.0", '"s"', "self", "now", "samplerate", "_"])]
        if r < 6:
            return [self.ident()]
        if r == 6:
            return [self.ident(), "::", self.ident()]
        if r < 11:
            op = self.r.choice(["+", "-", "*", "/", "%", "^", "@", "==", "!=", "<", "<=", ">", ">=", "&&", "||", "|>", "||>"])
            return self.expr(d - 1) + [op] + self.expr(d - 1)
        if r == 11:
            return [self.r.choice(["-", "+", "$", "`"])] + self.expr(d - 1)
        if r < 14:
            return self.expr(d - 1) + ["("] + self.sepby(lambda: self.expr(d - 1), self.r.range(0, 3)) + [")"]
        if r == 14:
            return self.expr(d - 1) + [".", self.r.choice(["0", "1", "a"])]
        if r == 15:
            return self.expr(d - 1) + ["["] + self.expr(d - 1) + ["]"]
        if r == 16:
            return ["("] + self.expr(d - 1) + [")"]
        if r == 17:
            return ["("] + self.sepby(lambda: self.expr(d - 1), self.r.range(2, 3)) + [")"]
        if r == 18:
            return ["["] + self.sepby(lambda: self.expr(d - 1), self.r.range(0, 3)) + ["]"]
        if r == 19:
            return ["{"] + self.sepby(lambda: [self.ident(), "="] + self.expr(d - 1), self.r.range(1, 2)) + self.r.choice([[], [",", ".."]]) + ["}"]
        if r == 20:
            return ["{", self.ident(), "<-"] + self.sepby(lambda: [self.ident(), "="] + self.expr(d - 1), self.r.range(1, 2)) + ["}"]
        if r == 21:
            return self.block(d - 1)
        if r < 24:
            e = ["if"] + (["("] + self.expr(d - 1) + [")"] if self.r.chance(3, 4) else self.expr(d - 1))
            e += self.block(d - 1) if self.r.chance(1, 2) else self.expr(d - 1)
            if self.r.chance(2, 3):
                e += ["else"] + (self.block(d - 1) if self.r.chance(1, 2) else self.expr(d - 1))
            return e
        if r == 24:
            arms = []
            for _ in range(self.r.range(1, 3)):
                arms += self.mpat(2) + ["=>"] + (self.block(d - 1) if self.r.chance(1, 4) else self.expr(d - 1)) + [self.r.choice([",", "\n"])]
            return ["match", self.ident(), "{"] + arms + ["}"]
        if r < 27:
            ps = self.sepby(lambda: [self.ident()] + ([":"] + self.ty(1) if self.r.chance(1, 3) else []), self.r.range(0, 2))
            return ["|"] + ps + ["|"] + (["->"] + self.ty(1) if self.r.chance(1, 5) else []) + (self.block(d - 1) if self.r.chance(1, 2) else self.expr(d - 1))
        if r == 27:
            return [self.ident()] + self.r.choice([[], ["::", self.ident()]]) + ["!", "("] + self.sepby(lambda: self.expr(d - 1), self.r.range(0, 2)) + [")"]
        if r == 28:
            return [self.ident(), "="] + self.expr(d - 1)
        return ["(", "1.0", ",", "("] + ["if", "(", "1.0", ")", "3.0", "else", "4.0"] + [")", ")"]

    def block(self, d):
        out = ["{"]
        for _ in range(self.r.range(0, 3)):
            out += self.stmt(d, top=False) + [self.r.choice(["\n", "\n", ";", " "])]
        return out + ["}"]

    def stmt(self, d, top=True):
        r = self.r.below(20 if top else 8)
        if r < 3:
            return self.expr(d)
        if r < 6:
            return ["let"] + self.pat(2) + ([":"] + self.ty(2) if self.r.chance(1, 4) else []) + ["="] + self.expr(d)
        if r == 6:
            return ["letrec", self.ident(), "="] + self.expr(d)
        if r < 12:
            ps = self.sepby(lambda: [self.ident()] + ([":"] + self.ty(2) if self.r.chance(1, 3) else []) + (["="] + self.expr(1) if self.r.chance(1, 6) else []), self.r.range(0, 3))
            return ([] if self.r.chance(5, 6) else ["pub"]) + [self.r.choice(["fn", "fn", "fn", "macro"]), self.r.choice(["dsp", "f", "g"]), "("] + ps + [")"] + \
                   (["->"] + self.ty(2) if self.r.chance(1, 4) else []) + self.block(d)
        if r == 12:
            return ["#", "stage", "(", self.r.choice(["main", "macro"]), ")"]
        if r == 13:
            return ["include", "(", '"s"', ")"]
        if r == 14:
            return ["mod", self.ident(), "{"] + sum((self.stmt(d - 1) + ["\n"] for _ in range(self.r.range(0, 2))), []) + ["}"]
        if r == 15:
            return ["use", self.ident(), "::"] + self.r.choice([[self.ident()], ["*"], ["{", "a", ",", "b", "}"], [self.ident(), "::", self.ident()]])
        if r == 16:
            return ["type", "alias", "T", "="] + self.ty(2)
        if r == 17:
            vs = self.sepby(lambda: [self.r.choice(["A", "B", "C"])] + ([] if self.r.chance(1, 2) else ["("] + self.sepby(lambda: self.ty(1), self.r.range(1, 2)) + [")"]), self.r.range(1, 3), sep="|")
            return ["type"] + (["rec"] if self.r.chance(1, 4) else []) + ["T", "="] + vs
        if r == 18:
            return ["mod", self.ident(), ";"]
        return self.expr(d)

    def program(self):
        out = []
        for _ in range(self.r.range(1, 3)):
            out += self.stmt(self.r.range(1, 3)) + ["\n"]
        return out


OPEN = ["(", "[", "{", "|", "`"]
CLOSE = [")", "]", "}", "|"]
ALLLEX = sorted(set(LEX.values()) | {"x", "f", "dsp", "0.0", "1.0", "\n", ";", "// c\n", "/* c */"})



def gen_call_arity_case(rng):
    """calls whose number of POSITIONAL arguments differs from the number of parameters in every way, with and without defaulted
    parameters, written as f(a, b), as (a, b) |> f and with a tuple variable; most of these texts have a type error (response to
    seeded change C04e: a length guard that forgot the defaulted parameters)"""
    r = rng
    n = r.range(1, 5)
    nd = r.range(0, n)                                  # the LAST nd parameters have defaults
    ps = ["p%d:float" % i + (" = %d.0" % (i + 2) if i >= n - nd else "") for i in range(n)]
    body = " + ".join("p%d" % i for i in range(n)) if r.chance(3, 4) else "p0"
    k = r.choice(list(range(0, n + 2)))
    args = ["%d.0" % (i + 1) for i in range(k)]
    nm = r.choice(["mix", "f", "\u5408\u6210"])        # an identifier that is not ASCII moves every span
    form = r.below(4)
    if form == 0:
        call = "%s(%s)" % (nm, ", ".join(args))
    elif form == 1:
        call = "(%s) |> %s" % (", ".join(args), nm) if k != 1 else "%s |> %s" % (args[0], nm)
    elif form == 2:
        call = "%s(t)" % nm
    else:
        call = "%s(%s) + %s(%s)" % (nm, ", ".join(args), nm, ", ".join(args[:max(0, k - 1)]))
    pre = ("  let t = (%s)\n" % ", ".join(args)) if form == 2 and k >= 2 else ("  let t = %s\n" % (args[0] if k == 1 else "0.0") if form == 2 else "")
    return "fn %s(%s){\n  %s\n}\nfn dsp(){\n%s  %s\n}\n" % (nm, ", ".join(ps), body, pre, call)


def gen_type_graph(rng):
    """type alias / type declaration GRAPHS: aliases that refer to each other (chains, cycles, self-cycles, TAILS leading into a
    cycle, names in any alphabetical order), sum types referring to aliases or to themselves with and without `rec`, at top level
    or inside a module, followed by a use of one of the names.  Most of these texts have type errors: every entry point must
    answer with diagnostics."""
    names = ["A", "B", "C", "D", "M", "T", "Z", "Aa", "Zz"]
    for i in range(len(names) - 1, 0, -1):
        j = rng.below(i + 1); names[i], names[j] = names[j], names[i]
    k = rng.range(1, 5)
    ns = names[:k]
    def ref(allow_base=True):
        c = rng.below(10)
        if allow_base and c < 2: return rng.choice(["float", "int", "string"])
        return rng.choice(ns)
    def body():
        c = rng.below(10)
        if c < 5: return ref()
        if c < 6: return "(%s, %s)" % (ref(), ref())
        if c < 7: return "[%s]" % ref()
        if c < 8: return "(%s)->%s" % (ref(), ref())
        if c < 9: return "{a: %s, b: %s}" % (ref(), ref())
        return "float"
    decls = []
    for n in ns:
        c = rng.below(8)
        if c < 6:
            decls.append("type alias %s = %s" % (n, body()))
        elif c < 7:
            decls.append("type %s%s = %sNil | %sCons(%s)" % ("rec " if rng.chance(1, 2) else "", n, n, n, ref()))
        else:
            decls.append("type %s = %sOne(%s) | %sTwo((%s, %s))" % (n, n, ref(), n, ref(), ref()))
    u = rng.choice(ns)
    use = rng.choice(["let x : %s = 1" % u, "fn f(x:%s){ x }" % u, "fn dsp(x:%s){ x }" % u, "fn dsp()->%s{ 1.0 }" % u,
                      "let x : %s = 1\nfn dsp(){ x }" % u, "fn g(x:%s, y:%s){ y }\nfn dsp(){ 0.0 }" % (u, rng.choice(ns)), ""])
    sep = rng.choice(["\n", "\n", " ; ", "\n\n"])
    if rng.chance(1, 4):
        return "mod m {\n" + sep.join(("pub " if rng.chance(1, 2) else "") + d for d in decls) + "\n" + use.replace("fn dsp", "pub fn h") + "\n}\nfn dsp(){ 0.0 }"
    return sep.join(decls) + "\n" + use

def mutate_tokens(rng, toks):
    """token-level mutations: delete / duplicate / swap / insert / replace / unbalance brackets / truncate"""
    t = list(toks)
    for _ in range(rng.range(1, 4)):
        r = rng.below(9)
        if not t:
            t = [rng.choice(ALLLEX)]
            continue
        i = rng.below(len(t))
        if r == 0:
            del t[i]
        elif r == 1:
            t.insert(i, t[i])
        elif r == 2:
            j = rng.below(len(t))
            t[i], t[j] = t[j], t[i]
        elif r == 3:
            t.insert(i, rng.choice(ALLLEX))
        elif r == 4:
            t[i] = rng.choice(ALLLEX)
        elif r == 5:
            br = [k for k, x in enumerate(t) if x in OPEN or x in CLOSE]
            if br:
                del t[rng.choice(br)]
        elif r == 6:
            t.insert(i, rng.choice(OPEN + CLOSE))
        elif r == 7:
            t = t[:i]
        else:
            j = min(len(t), i + rng.range(1, 8))
            t[i:i] = t[i:j]
    return t


def join_tokens(rng, toks, loose=True):
    out = []
    for x in toks:
        out.append(x)
        if x != "\n":
            out.append(" " if (not loose or rng.chance(7, 8)) else rng.choice(["", "\n", "  ", " // c\n"]))
    return "".join(out)


TOKEN_RE = re.compile(r'//[^\n]*|/\*.*?\*/|"[^"]*"|[A-Za-z_][A-Za-z_0-9]*|[0-9]+(?:\.[0-9]+)?|\|\|>|->|<-|=>|==|!=|<=|>=|&&|\|\||\|>|::|\.\.|\s+|.', re.S)


def split_text(s):
    return TOKEN_RE.findall(s)


def mutate_text(rng, s):
    toks = split_text(s)
    idx = [i for i, t in enumerate(toks) if not t.isspace()]
    if not idx:
        return s + rng.choice(ALLLEX)
    for _ in range(rng.range(1, 3)):
        r = rng.below(7)
        i = rng.choice(idx)
        if r == 0:
            toks[i] = ""
        elif r == 1:
            toks[i] = toks[i] + " " + toks[i]
        elif r == 2:
            j = rng.choice(idx)
            toks[i], toks[j] = toks[j], toks[i]
        elif r == 3:
            br = [k for k in idx if toks[k] in OPEN or toks[k] in CLOSE]
            if br:
                toks[rng.choice(br)] = ""
        elif r == 4:
            toks[i] = rng.choice(OPEN + CLOSE) + toks[i]
        elif r == 5:
            toks = toks[:i]
            idx = [k for k in idx if k < i] or [0]
            if not toks:
                toks = [""]
        else:
            toks[i] = rng.choice(ALLLEX)
    return "".join(toks)


SPECIAL = ['\u0009', '\u000a', '\u000d', '\u000b', '\u0085', '\u00a0', '\u2028', '\u3000', '\ufeff', '\u0000', '\u007f', '\u00e9', '\u00a7', '\u0301', '\u0663', '\U0001d49c', '\U0001f600', '\U0010ffff', '\u4e2d', '\uff10',
           '_', '$', '#', '`', '%', '^', '~', '?', '\\', "'"]


def rand_unicode(rng, maxlen):
    parts = []
    for _ in range(rng.range(0, maxlen)):
        r = rng.below(10)
        if r < 4:
            parts.append(rng.choice(ALLLEX))
        elif r < 6:
            parts.append(rng.choice(SPECIAL))
        elif r < 8:
            parts.append(chr(rng.range(32, 126)))
        else:
            c = rng.below(0x110000)
            if 0xD800 <= c <= 0xDFFF:
                c = 0x41
            parts.append(chr(c))
        if rng.chance(1, 3):
            parts.append(" ")
    return "".join(parts)


def repo_mmm():
    fs = []
    for sub in ("lib", "examples", "crates", "tmp", "tests"):
        fs += glob.glob(os.path.join(REPO, sub, "**", "*.mmm"), recursive=True)
    fs = sorted(f for f in set(fs) if "/target/" not in f)
    out = []
    for f in fs:
        try:
            out.append((os.path.relpath(f, REPO), open(f, encoding="utf-8").read()))
        except (OSError, UnicodeDecodeError):
            pass
    return out


# ------------------------------------------------------------------------------------------------
# known findings: class predicates (KNOWN_FINDINGS.txt, property=C04)
# A failure of the oracle is an `event`: {"kind": "panic"|"abort"|"badspan", "stage", "file" (panic site, path below
# crates/), "msg", "text", "parse_errors": bool, "still_aborts_with_big_stack": bool (aborts only)}.
# A class is as narrow as the cause that was identified: panic site file + message of that site (+ a condition on the text
# where the cause has a syntactic signature).  Line numbers are not used (they shift).
# ------------------------------------------------------------------------------------------------
def toks_of(text):
    return [t for t in split_text(text) if not (t.isspace() or t.startswith("//") or t.startswith("/*"))]


def has_incomplete_record(text):
    """an incomplete record literal `{ a = e , .. }`: a `..` token after an opening `{` (parse_record_expr ends the record at `..`)"""
    t = toks_of(text)
    return ".." in t and "{" in t[:t.index("..")]


def has_default_param(text):
    """`name =` or `name : type =` directly inside the parameter parentheses of a fn / macro / lambda"""
    t = toks_of(text)
    for i, x in enumerate(t):
        if x in ("fn", "macro") or x == "|":
            depth, j = 0, i + 1
            close = "|" if x == "|" else None
            while j < len(t) and j < i + 400:
                if t[j] in "([{":
                    depth += 1
                elif t[j] in ")]}":
                    depth -= 1
                    if depth <= 0 and close is None:
                        break
                elif t[j] == "=" and depth <= 1:
                    return True
                elif close and t[j] == close and depth == 0:
                    break
                j += 1
    return False


def has_staging_token(text):
    """the text has macro-stage code (compiled by the bytecode generator for both backends)"""
    t = toks_of(text)
    return any(x in t for x in ("$", "`", "!", "stage", "macro"))


def in_file(e, name):
    return e["file"].endswith(name)


MIRGEN, TYPING, BCGEN, RECCHK, VMRS = ("compiler/mirgen.rs", "compiler/typing.rs", "compiler/bytecodegen.rs",
                                       "compiler/mirgen/recursecheck.rs", "runtime/vm.rs")
EMIT = ("emit_bytecode", "emit_wasm")

CLASSES = {
    # F41: Expr::Error produced without a diagnostic (empty program / empty fn body / truncated definition / staged code)
    "error-node-reaches-bytecode-generator":
        lambda e: e["kind"] == "panic" and e["stage"] in EMIT and in_file(e, BCGEN)
        and e["msg"].startswith("not implemented: Instruction not implemented: Error"),
    # F42: the callee of a call is a parse-error placeholder, or the call sits in a default value / incomplete-record field
    "call-of-non-function-reaches-mirgen":
        lambda e: e["kind"] == "panic" and e["stage"] in EMIT and in_file(e, MIRGEN) and e["msg"].startswith("non function type ")
        and (e["parse_errors"] or has_default_param(e["text"]) or has_incomplete_record(e["text"])),
    # F43: Bracket/Escape/MacroExpand left in the AST given to mirgen (`_` argument outside `||>`, staging only in default values)
    "staging-construct-reaches-mirgen":
        lambda e: e["kind"] == "panic" and e["stage"] in EMIT and in_file(e, MIRGEN)
        and "Macro code should be expanded before mirgen" in e["msg"]
        and (e["parse_errors"] or "_" in toks_of(e["text"]) or (has_default_param(e["text"]) and any(t in toks_of(e["text"]) for t in ("`", "$", "!")))),
    # F44: tuple / record pattern of a `let` against a value typing accepted but mirgen does not see as tuple / record
    "let-pattern-shape-mismatch":
        lambda e: e["kind"] == "panic" and e["stage"] in EMIT and in_file(e, MIRGEN) and e["msg"].startswith("typing error in the previous stage")
        and "let" in toks_of(e["text"]),
    # F48: unit value (Value::None) moved / stored by the bytecode generator
    "unit-value-in-if-arm-or-let":
        lambda e: e["kind"] == "panic" and in_file(e, BCGEN) and e["msg"].startswith("value none not found")
        and (e["stage"] == "emit_bytecode" or (e["stage"] == "emit_wasm" and has_staging_token(e["text"]))),
    # F50: mirgen::eval_expr infers the type of every expression AGAIN and panics on Err (and debug-asserts array element types):
    #      whatever the first pass did not see or judged differently ends here
    "mirgen-reinference-fails":
        lambda e: e["kind"] == "panic" and ((e["stage"] in EMIT and in_file(e, MIRGEN)
        and (e["msg"].startswith("type inference failed for expr") or e["msg"].startswith("assertion failed: tys.windows(2)")))
        or (e["stage"] == "emit_bytecode" and in_file(e, BCGEN) and has_default_param(e["text"])
            and re.match(r"value extfun \S+ ! not found", e["msg"]) is not None)
        or (e["stage"] in EMIT and in_file(e, MIRGEN) and has_default_param(e["text"])
            and e["msg"].startswith("Expected record type for field access assignment"))),
    # F54: the compiler executes macro-stage (stage-0) code on an internal VM: missing runtime externs, code built from a recovered AST,
    #      a macro stage that does not evaluate to code
    "stage0-vm-execution-panics":
        lambda e: e["kind"] == "panic" and e["stage"] in EMIT and in_file(e, VMRS)
        and (re.match(r"external function \S+ cannot be found", e["msg"]) is not None
             or (e["msg"].startswith("range end index") and (e["parse_errors"] or has_staging_token(e["text"])))),
    # F55: an external / builtin function used as a first-class value (VM backend)
    "extern-function-as-value":
        lambda e: e["kind"] == "panic" and e["stage"] == "emit_bytecode" and in_file(e, BCGEN)
        and (e["msg"].startswith("called `Option::unwrap()` on a `None` value") or re.match(r"value extfun \S+ (?!! )\S.* not found", e["msg"])),
}


def span_reversed(first):
    m = re.match(r"(\d+)\.\.(\d+) len", first)
    return bool(m) and int(m.group(1)) > int(m.group(2))


CLASSES["fabricated-span-0-1-inside-multibyte-char"] = (
    # F56: typing.rs Error::get_labels invents the span 0..1 when neither side of a type mismatch has a location
    lambda e: e["kind"] == "badspan" and re.match(r"0\.\.1 len \d+ : Type mismatch", e["msg"]) is not None
    and len(e["text"]) > 0 and len(e["text"][0].encode("utf-8")) > 1)


CLASSES["delay-size-not-a-literal"] = (
    # F59: the maximum delay time must be a number literal; nothing checks it before mirgen
    lambda e: e["kind"] == "panic" and e["stage"] in EMIT and in_file(e, MIRGEN) and "unbounded delay access" in e["msg"]
    and "delay" in toks_of(e["text"]))
CLASSES["letrec-of-non-function"] = (
    # F58: mirgen binds the name of a `letrec` to Value::Function(next index) before looking at the bound expression; when that is
    #      no lambda the index names no function
    lambda e: e["kind"] == "panic" and e["stage"] in EMIT and "letrec" in toks_of(e["text"])
    and ((in_file(e, MIRGEN) and re.match(r"index out of bounds: the len is \d+ but the index is \d+", e["msg"]) is not None)
         or (in_file(e, BCGEN) and re.match(r"value function \d+ not found", e["msg"]) is not None)
         or (in_file(e, VMRS) and has_staging_token(e["text"])
             and re.match(r"index out of bounds: the len is \d+ but the index is \d+", e["msg"]) is not None)))
CLASSES["compile-continues-after-parse-errors"] = (
    # F57: Context::emit_mir hands the recovered AST (with Expr::Error placeholders) to the whole compiler and looks at the parse
    #      errors only afterwards.  Only for texts WITH parse errors, only panics of the compile entry points that the type check
    #      of the same text (language-server path) does not show.
    lambda e: e["kind"] == "panic" and e["stage"] in EMIT and e["parse_errors"] and not e.get("typecheck_panics", False)
    and (in_file(e, MIRGEN) or in_file(e, BCGEN) or in_file(e, VMRS) or in_file(e, TYPING)))


def strip_comment_text(text):
    return " ".join(toks_of(text))


# ------------------------------------------------------------------------------------------------
# running both sides
# ------------------------------------------------------------------------------------------------
class Sides:
    def __init__(self, front, model):
        self.front, self.model = front, model

    def cst_once(self, texts, sync=False):
        inp = "\n".join(utf8(t).hex() for t in texts) + "\n"
        try:
            p = subprocess.run([self.front, "cst", str(CASE_LIMIT_S), "512"] + (["sync"] if sync else []), input=inp.encode(),
                               stdout=subprocess.PIPE, stderr=subprocess.DEVNULL, timeout=600 + len(texts) // 20)
            rc, so = p.returncode, p.stdout.decode(errors="replace")
        except subprocess.TimeoutExpired as ex:
            rc, so = 124, (ex.stdout or b"").decode(errors="replace")
        out, timed = [], None
        for l in so.split("\n"):
            if l.startswith("T "):
                timed = int(l[2:])
            elif l.startswith("{"):
                try:
                    out.append(json.loads(l))
                except ValueError:
                    break
        return rc, out, timed

    def cst(self, texts):
        """-> (answers (None for an input that killed / hung the harness), [(index, 'timeout'|'abort')])"""
        res = [None] * len(texts)
        bad = []
        todo = list(range(len(texts)))
        while todo and len(bad) < 3:
            rc, out, timed = self.cst_once([texts[i] for i in todo])
            if rc == 0 and len(out) >= len(todo):
                for i, d in zip(todo, out):
                    res[i] = d
                return res, bad
            if timed is None:
                # died without a watchdog message: rerun line-synchronised to find the first missing answer
                rc, out, timed = self.cst_once([texts[i] for i in todo], sync=True)
                if rc == 0 and len(out) >= len(todo):
                    for i, d in zip(todo, out):
                        res[i] = d
                    return res, bad
                k = timed if timed is not None else len(out)
                kind = "timeout" if timed is not None else "abort"
            else:
                k, kind = timed, "timeout"
            if k >= len(todo):
                bad.append((todo[-1], "abort"))
                return res, bad
            bad.append((todo[k], kind))
            todo = todo[:k] + todo[k + 1:]
        return res, bad

    def run_model(self, impl, fuel=None):
        if not self.model:
            return None
        rows = []
        for d in impl:
            if "k" not in d:
                rows.append("")
                continue
            row = ",".join(f"{k}.{f}" for k, f in zip(d["k"], d["f"]))
            rows.append(row if fuel is None else f"#{fuel(len(d['k']))} {row}")
        q = subprocess.run(["bash", "-c", f"ulimit -s unlimited 2>/dev/null; exec '{self.model}'"], input=("\n".join(rows) + "\n").encode(),
                           stdout=subprocess.PIPE, stderr=subprocess.DEVNULL, timeout=3000)
        lines = q.stdout.decode().split("\n")
        if q.returncode != 0 or len(lines) < len(impl):
            return None
        return [json.loads(l) for l in lines[:len(impl)]]


def leaves_of_sexp(s):
    return re.findall(r"(?<=[ (])(r?\d+)(?=[ )])", s)


def eval_parser_property(d):
    """clauses of the property on the implementation's parse_cst answer"""
    bad = []
    if "panic" in d:
        return ["panic:" + d["panic"][:80]]
    n, raw = len(d["k"]), d["raw"]
    if d.get("stray"):
        bad.append("trivia-map-key-out-of-range")
    for (ri, cls, a, b) in d["e"]:
        if not (0 <= ri < raw):
            bad.append("error-index-outside-token-list")
        elif ri != 0 and ri not in d["_iset"]:
            bad.append("error-index-not-a-syntax-token")
        if cls == "?":
            bad.append("unclassified-error")
    lv = leaves_of_sexp(d["s"])
    if lv != [str(i) for i in range(n)]:
        bad.append("cst-leaves")
    return bad


def canon_model(m, d):
    """model answer in the implementation's terms (positions -> raw indices)"""
    if "s" not in m:
        return m
    idx = d["i"]
    return {"s": m["s"], "e": [[(idx[p] if 0 <= p < len(idx) else 0), c, a, b] for (p, c, a, b) in m["e"]], "m": m["m"]}


def canon_impl(d):
    return {"s": d["s"], "e": d["e"], "m": d["m"]}


def oracle_run(front, items, limit=CASE_LIMIT_S, stack=STACK_MIB, workers=None):
    """items: list of (id, text). Supervised workers. -> {id: result dict | {"crash": ..} | {"timeout": True}}"""
    workers = workers or max(2, min(NPROC, 14))
    res = {}
    shared = {"timeouts": 0}

    def chunk_run(chunk):
        out = {}
        todo = list(chunk)
        while todo:
            if shared["timeouts"] >= 4:
                for i, _ in todo:
                    out[i] = {"skipped": True}      # many hangs already: stop exploring (the run reports them)
                break
            inp = "".join(f"{i} {utf8(t).hex()}\n" for i, t in todo)
            try:
                p = subprocess.run([front, "oracle", str(limit), str(stack)], input=inp.encode(), stdout=subprocess.PIPE,
                                   stderr=subprocess.DEVNULL, timeout=limit * 3 + 60 + 2 * len(todo))
                rc, so = p.returncode, p.stdout.decode(errors="replace")
            except subprocess.TimeoutExpired as ex:
                rc, so = 124, (ex.stdout or b"").decode(errors="replace")
            begun, done, timed, stage, verdicts = None, set(), None, "?", {}
            for line in so.split("\n"):
                if line.startswith("B "):
                    begun = int(line[2:]); verdicts = {}
                elif line.startswith("S verdict "):
                    _, _, vs, vo = line.split(" ", 3)
                    verdicts[vs] = vo.strip()
                elif line.startswith("S "):
                    stage = line[2:].strip()
                elif line.startswith("R "):
                    _, i, js = line.split(" ", 2)
                    out[int(i)] = json.loads(js)
                    done.add(int(i))
                elif line.startswith("T "):
                    timed = int(line[2:])
            ids = [i for i, _ in todo]
            if timed is not None and timed not in done:
                out[timed] = {"timeout": True, "stage": stage, "verdicts": dict(verdicts)}
                shared["timeouts"] += 1
                todo = todo[ids.index(timed) + 1:]
            elif begun is not None and begun not in done:
                out[begun] = {"crash": f"worker died (exit status {rc}) in {stage}", "stage": stage, "verdicts": dict(verdicts)}
                todo = todo[ids.index(begun) + 1:]
            elif len(done) < len(todo):
                # died between cases / before the first: retry the remainder once, else give up on it
                rest = [x for x in todo if x[0] not in done]
                if len(rest) == len(todo):
                    for i, _ in rest:
                        out[i] = {"crash": f"worker produced no output (exit status {rc})"}
                    todo = []
                else:
                    todo = rest
            else:
                todo = []
        return out

    k = max(1, (len(items) + workers - 1) // workers)
    chunks = [items[j:j + k] for j in range(0, len(items), k)]
    # interleave so that expensive neighbours spread over workers
    chunks = [items[j::workers] for j in range(workers)] if len(items) > workers else chunks
    with concurrent.futures.ThreadPoolExecutor(max_workers=workers) as ex:
        for o in ex.map(chunk_run, [c for c in chunks if c]):
            res.update(o)
    return res


def run(ck):
    ck.level = "proof"
    tier = ck.tier
    proved = ck.prove(tables=["lexer_tables", "token_kinds"], extra_targets=["theories/Extract/ParserExtract.vo"])

    t_b = time.time()
    rc, out, exe_m = ocaml_build("parser_drv", ["parser_model"], os.path.join(VERIF, "ocaml", "parser_drv.ml"))
    if rc != 0:
        ck.broken.append("model-build: " + out[-400:])
        exe_m = None
    rc, out, bindir = cargo_build("lang", ["front_run"])
    if rc != 0:
        ck.broken.append("harness-build: " + out[-800:])
        ck.violation("harness does not build against the repository", {"cargo_output": out[-3000:]}, no_input=True)
        return finish(ck)
    front = os.path.join(bindir, "front_run")
    S = Sides(front, exe_m)
    ck.coverage["build_s"] = round(time.time() - t_b, 1)
    findings = {f["cls"]: f for f in known_findings("C04")}
    timing = ck.coverage.setdefault("phase_s", {})

    # the alphabet really is the token alphabet of token.rs
    repo_kinds = token_kinds_of_repo()
    missing = [k for k in repo_kinds if k not in LEX and k not in NOT_LEXED]
    if missing or any(k not in repo_kinds for k in list(LEX) + list(NOT_LEXED)):
        ck.broken.append(f"token alphabet of checks/C04.py differs from token.rs: {missing}")

    clause_fail, disagreements, crashed = [], [], []
    stats = {"cst_cases": 0, "model_compared": 0, "nontrivial": 0, "with_errors": 0, "model_unmodelled": 0, "tokens": 0,
             "seen_kinds": set(), "seen_nodes": set()}

    hangs = []           # (origin, text, 'timeout'|'abort') of parse_cst itself
    state = {"stop": False}

    def cst_phase(origin, texts, sample_every=0):
        t0 = time.time()
        impl, bad_idx = S.cst(texts)
        for (i, kind) in bad_idx:
            hangs.append((origin, texts[i], kind))
        if len(bad_idx) >= 3:
            state["stop"] = True      # the parser hangs / dies on many inputs: stop exploring, report
        impl = [d if d is not None else {"skipped": True} for d in impl]
        mod = S.run_model(impl)
        if mod is None and exe_m:
            crashed.append(origin + " (model driver)")
        for n, (t, d) in enumerate(zip(texts, impl)):
            if "skipped" in d:
                continue
            stats["cst_cases"] += 1
            if "k" in d and "i" in d:
                d["_iset"] = set(d["i"])
                stats["tokens"] += len(d["k"])
                stats["seen_kinds"].update(d["k"])
                stats["seen_nodes"].update(re.findall(r"\((\w+)", d["s"]))
                if len(d["k"]) >= 3:
                    stats["nontrivial"] += 1
                if d["e"]:
                    stats["with_errors"] += 1
                # the harness reports kinds: everything the tokenizer produced must be in our alphabet
            bad = eval_parser_property(d) if ("i" in d or "panic" in d) else ["harness-output"]
            if bad and len(clause_fail) < 50:
                clause_fail.append((origin, t, sorted(set(bad)), json.dumps({k: v for k, v in d.items() if k != "_iset"})[:1500]))
            if mod is not None and "i" in d:
                stats["model_compared"] += 1
                m = mod[n]
                if "fuel" in m or "panic" in m:
                    if len(disagreements) < 50:
                        disagreements.append((origin, t, json.dumps(m), "model: " + ("OutOfFuel with fuel 12*(n+1)" if "fuel" in m else "Panic")))
                elif canon_model(m, d) != canon_impl(d):
                    if len(disagreements) < 50:
                        disagreements.append((origin, t, json.dumps(canon_model(m, d))[:1500], json.dumps(canon_impl(d))[:1500]))
            if sample_every and n % sample_every == sample_every // 2 and "s" in d:
                ck.sample({"origin": origin, "input": t[:200], "kinds": d["k"][:40], "cst": d["s"][:300], "errors": d["e"][:4],
                           "model_equal": (mod is not None and canon_model(mod[n], d) == canon_impl(d))})
        timing[origin + ":cst"] = round(timing.get(origin + ":cst", 0) + time.time() - t0, 1)

    oracle_bad = []        # (origin, text, what, detail)
    ostats = {"oracle_cases": 0, "stage_calls": 0, "value": 0, "diagnostics": 0, "diagnostic_spans": 0, "known": 0}

    def classify(ev):
        for cls, pred in CLASSES.items():
            if cls in findings and pred(ev):
                return findings[cls]
        return None

    def split_panic(msg):
        m = re.match(r"@(\S*?)(?::\d+)? (.*)", msg, re.S)
        if not m:
            return "", msg
        f = m.group(1)
        return (f.split("crates/", 1)[1] if "crates/" in f else f), m.group(2)

    known_counts = {}

    def report(origin, t, ev, what, detail):
        f = classify(ev)
        if f:
            ostats["known"] += 1
            known_counts[f["cls"]] = known_counts.get(f["cls"], 0) + 1
            ck.known(f, f"{t[:60]!r}: {detail[:120]}")
        else:
            oracle_bad.append((origin, t, what, detail))

    def macro_stage_divergence(t, r, r2):
        v = r.get("verdicts", {})
        if not (r.get("stage") in ("emit_bytecode", "emit_wasm") and v.get("parse_to_expr") == "V" and v.get("typecheck") == "V"):
            return False
        if not re.search(r"#stage\(\s*macro|`|\$|!\s*\(", t):
            return False
        if "timeout" in r:
            return True
        return ("crash" in r2 or "timeout" in r2) and r2.get("stage") == r.get("stage")     # not a finite recursion depth

    def oracle_phase(origin, texts, limit=CASE_LIMIT_S, stack=STACK_MIB):
        t0 = time.time()
        items = list(enumerate(texts))
        res = oracle_run(front, items, limit=limit, stack=stack)
        # an abort may be a stack overflow of a finite recursion (nesting) or an infinite one: ask again with 16x the stack
        crashed_ids = [i for i, _ in items if "crash" in (res.get(i) or {})]
        big = {}
        if crashed_ids:
            def again(i):
                r2 = oracle_run(front, [(0, texts[i])], limit=limit, stack=stack * 16, workers=1)
                return i, r2.get(0) or {}
            with concurrent.futures.ThreadPoolExecutor(max_workers=8) as ex:
                for i, r2 in ex.map(again, crashed_ids[:400]):
                    big[i] = r2
        for i, t in items:
            r = res.get(i)
            ostats["oracle_cases"] += 1
            if r is None:
                oracle_bad.append((origin, t, "no-answer", "the supervised worker gave no answer for this input"))
                continue
            if "skipped" in r:
                ostats["oracle_cases"] -= 1
                continue
            if ("timeout" in r or "crash" in r) and macro_stage_divergence(t, r, big.get(i, {})):
                # the text has neither syntax nor type errors and it contains macro-stage code, which the compile entry points
                # EXECUTE: a user program that recurses for ever at compile time is not answered by anything (Turing-complete
                # macro language) and C04 claims nothing about it ("a text that has syntax or type errors")
                ostats["error_free_macro_stage_divergence_outside_claim"] = ostats.get("error_free_macro_stage_divergence_outside_claim", 0) + 1
                continue
            if "timeout" in r:
                oracle_bad.append((origin, t, "timeout", f"{r.get('stage', '?')} did not return within {limit} s"))
                state["timeouts"] = state.get("timeouts", 0) + 1
                if state["timeouts"] >= 6:
                    state["stop"] = True
                continue
            if "crash" in r:
                r2 = big.get(i, {})
                if os.environ.get("VERIF_C04_DEBUG"):
                    log("abort", repr(t[:50]), r, r2)
                ev = {"kind": "abort", "stage": r.get("stage", "?"), "file": "", "msg": r["crash"], "text": t, "parse_errors": False,
                      "still_aborts_with_big_stack": ("crash" in r2 or "timeout" in r2) and r2.get("stage") == r.get("stage")}
                report(origin, t, ev, "abort", r["crash"] + (" (overflows / runs on with a %d MiB stack too: unbounded recursion)" % (stack * 16) if ev["still_aborts_with_big_stack"]
                                                             else " (not with a %d MiB stack: recursion depth)" % (stack * 16)))
                continue
            sts = r.get("st", [])
            perr = any(s_[0] == "parse_to_expr" and s_[1] == "D" for s_ in sts)
            tpanic = any(s_[0] == "typecheck" and s_[1] == "P" for s_ in sts)
            for (stage, oc, n, nbad, msg, first) in sts:
                if oc == "-":
                    continue
                ostats["stage_calls"] += 1
                if oc == "P":
                    f_, m_ = split_panic(msg)
                    ev = {"kind": "panic", "stage": stage, "file": f_, "msg": m_, "text": t, "parse_errors": perr, "typecheck_panics": tpanic}
                    report(origin, t, ev, "panic", f"{stage}: {f_}: {m_[:300]}")
                elif oc == "N":
                    oracle_bad.append((origin, t, "error-without-diagnostic", stage))
                else:
                    ostats["value" if oc == "V" else "diagnostics"] += 1
                    ostats["diagnostic_spans"] += n if stage != "tokenize" else 0
                    if nbad:
                        ev = {"kind": "badspan", "stage": stage, "file": "", "msg": first, "text": t, "parse_errors": perr}
                        report(origin, t, ev, "span-outside-text-or-not-on-char-boundary", f"{stage}: {first[:300]}")
        timing[origin + ":oracle"] = round(timing.get(origin + ":oracle", 0) + time.time() - t0, 1)

    def both(origin, texts, sample_every=0, oracle=True):
        if state["stop"]:
            ck.coverage.setdefault("phases_skipped_after_repeated_hangs", []).append(origin)
            return
        cst_phase(origin, texts, sample_every)
        if oracle and not state["stop"]:
            oracle_phase(origin, texts)

    # ---- replay / corpus first ----
    if ck.replay:
        rp = json.load(open(ck.replay)).get("replay", {})
        if "hex" in rp:
            both("replay", [bytes.fromhex(rp["hex"]).decode("utf-8")])
    corpus = []
    cpath = os.path.join(VERIF, "corpus", "C04", "inputs.jsonl")
    if os.path.exists(cpath):
        for l in open(cpath):
            l = l.strip()
            if l and not l.startswith("#"):
                corpus.append(json.loads(l))
    both("corpus", corpus, sample_every=max(1, len(corpus)))
    ck.coverage["corpus_cases"] = len(corpus)

    # ---- exhaustive short kind sequences ----
    exh = [""] + [LEX[k] for k in KINDS]
    for a in KINDS:
        for b in KINDS:
            for s in SEPS:
                exh.append(LEX[a] + s + LEX[b])
    bound = "all token-kind sequences of length <= 2 over the %d producible kinds, each pair joined by ' ', '' and '\\n'" % len(KINDS)
    if tier == "thorough":
        for a in KINDS:
            for b in KINDS:
                for c in KINDS:
                    exh.append(LEX[a] + " " + LEX[b] + " " + LEX[c])
        bound += "; all sequences of length 3 joined by ' '"
    both("exhaustive", exh, sample_every=len(exh))
    ck.coverage["exhaustive_sequences"] = len(exh)
    ck.coverage["exhaustive"] = False
    ck.coverage["exhaustive_bound"] = bound

    # ---- random kind sequences of length 3..12 ----
    rng = ck.rng.fork("random-kinds")
    n_rand = 20000 if tier == "quick" else 100000
    texts = []
    for _ in range(n_rand):
        L = rng.range(3, 12)
        ks = [rng.choice(KINDS) for _ in range(L)]
        sp = [rng.choice([" ", " ", " ", "", "\n"]) for _ in range(L)]
        texts.append(render(ks, sp))
    both("random-kinds", texts, sample_every=n_rand)
    # ---- grammar-generated programs and token-level mutations of them ----
    rng = ck.rng.fork("grammar")
    n_gen = 20000 if tier == "quick" else 100000
    g = Gen(rng)
    texts = []
    for j in range(n_gen):
        toks = g.program() if j % 3 else g.stmt(rng.range(1, 2))
        if j % 2:
            toks = mutate_tokens(rng, toks)
        texts.append(join_tokens(rng, toks))
    both("grammar", texts, sample_every=n_gen)
    ck.coverage["random_sequences"] = n_rand + n_gen

    # ---- type alias / type declaration graphs (cycles, tails into cycles, self references, modules) ----
    rng = ck.rng.fork("type-graphs")
    n_tg = 1500 if tier == "quick" else 15000
    both("type-graphs", [gen_type_graph(rng) for _ in range(n_tg)], sample_every=n_tg)
    n_ca = 150 if tier == "quick" else 1500
    both("call-arity", [gen_call_arity_case(rng) for _ in range(n_ca)], sample_every=n_ca)
    ck.coverage["type_graph_texts"] = n_tg
    # ---- repository files, token-level mutations, random Unicode ----
    files = repo_mmm()
    ck.coverage["repo_mmm_files"] = len(files)
    both("repo-file", [s for _, s in files], sample_every=max(1, len(files)))
    rng = ck.rng.fork("mutations")
    nmut = 6 if tier == "quick" else 20
    mut = [mutate_text(rng, s) for _, s in files for _ in range(nmut)]
    both("repo-file-mutated", mut)
    ck.coverage["repo_file_mutations"] = len(mut)
    rng = ck.rng.fork("unicode")
    n_uni = 8000 if tier == "quick" else 40000
    uni = [rand_unicode(rng, 14) for _ in range(n_uni)]
    both("random-unicode", uni, sample_every=n_uni)
    ck.coverage["random_unicode_texts"] = n_uni

    # ---- bracket nesting: the stated bound must hold on the real entry points ----
    nest = []
    for o, c in (("(", ")"), ("[", "]"), ("{", "}")):
        nest.append("fn dsp(){ " + o * NEST_BOUND + "1.0" + c * NEST_BOUND + " }")
        nest.append(o * NEST_BOUND)
    nest.append("fn dsp(){ " + "-" * NEST_BOUND + " 1.0 }")
    nest.append("fn dsp(){ " + "if (1.0) " * NEST_BOUND + "1.0" + " else 0.0" * NEST_BOUND + " }")
    nest.append("fn dsp(){ " + "|x| " * NEST_BOUND + "1.0 }")
    nest.append("let x : " + "(" * NEST_BOUND + "float" + ")" * NEST_BOUND + " = 1.0")
    # (type checking a nested array literal of depth d costs ~d^4: 200 levels take several seconds, hence the longer limit)
    if not state["stop"]:
        cst_phase("nesting-bound", nest)
        oracle_phase("nesting-bound", nest, limit=90)
    ck.coverage["nesting_bound_levels"] = NEST_BOUND
    ck.coverage["nesting_inputs"] = len(nest)
    # measured (informative): where the stack really overflows
    probe = {}
    for d in ((400, 800, 1600, 3200) if tier == "quick" else (300, 400, 600, 800, 1200, 1600, 2400, 3200, 6400)):
        r = oracle_run(front, [(0, "fn dsp(){ " + "(" * d + "1.0" + ")" * d + " }")], workers=1)
        probe[d] = "ok" if "st" in r.get(0, {}) and all(s[1] != "P" for s in r[0]["st"]) else ("crash" if "crash" in r.get(0, {}) else "panic/timeout")
    ck.coverage["nesting_probe_parens"] = probe

    # ---- model-only: the fuel bound is not vacuous (a smaller constant fails) ----
    if exe_m:
        d, _ = S.cst(["fn dsp(){ " + "(" * 60 + "1.0" + ")" * 60 + " }"])
        if d and d[0]:
            lo = S.run_model(d, fuel=lambda n: 1 * (n + 1))
            hi = S.run_model(d)
            ck.coverage["fuel_1n_runs_out_on_nested_parens"] = bool(lo and "fuel" in lo[0])
            ck.coverage["fuel_12n_suffices_on_nested_parens"] = bool(hi and "s" in hi[0])

    ck.coverage["evaluations"] = stats["cst_cases"] + ostats["oracle_cases"]
    ck.coverage["distinct_nontrivial"] = stats["nontrivial"]
    ck.coverage["cst_cases"] = stats["cst_cases"]
    ck.coverage["cst_tokens"] = stats["tokens"]
    ck.coverage["cst_cases_with_parse_errors"] = stats["with_errors"]
    ck.coverage["model_vs_impl_compared"] = stats["model_compared"]
    ck.coverage["model_vs_impl_disagreements"] = len(disagreements)
    ck.coverage["model_unmodelled_hits"] = stats["model_unmodelled"]
    ck.coverage["token_kinds_seen"] = len(stats["seen_kinds"])
    ck.coverage["token_kinds_never_seen"] = sorted(set(KINDS) - stats["seen_kinds"])
    ck.coverage["syntax_kinds_seen"] = len(stats["seen_nodes"])
    ck.coverage.update(ostats)
    ck.coverage["cases_in_known_classes"] = dict(sorted(known_counts.items()))

    # ---- parts: the type unifier (Props/C04_typing.v, checks/typing_part.py) and the CST -> AST lowering (Props/C04_lower.v,
    # checks/lower_part.py); each returns (what, replay_obj) pairs ----
    import importlib.util as _ilu0
    if os.path.join(VERIF, "checks") not in sys.path:
        sys.path.insert(0, os.path.join(VERIF, "checks"))
    def _load_part(name):
        sp = _ilu0.spec_from_file_location("part_" + name, os.path.join(VERIF, "checks", name + ".py"))
        m = _ilu0.module_from_spec(sp); sp.loader.exec_module(m)
        return m
    part_viol = []
    quick_ = tier == "quick"
    _known0 = ck.known
    try:
        part_viol += [("typing part: " + w, rp) for w, rp in _load_part("typing_part").run_part(ck, quick_)]
    except Exception as ex:      # a part that cannot run is a broken obligation, not a crash of the whole check
        part_viol.append(("the type-unifier part could not run: %r" % (ex,), {"no_input": True}))
    ck.known = lambda f, d: None          # findings the lowering part classifies belong to C16 and are reported by ./check C16
    try:
        part_viol += [("lowering part: " + w, rp) for w, rp in _load_part("lower_part").run_part(ck, quick_)]
    except Exception as ex:
        part_viol.append(("the lowering part could not run: %r" % (ex,), {"no_input": True}))
    ck.known = _known0
    for what, rp in part_viol[:6]:
        ck.violation(what, {k: v for k, v in rp.items() if k != "no_input"}, no_input=bool(rp.get("no_input")))

    # ---- verdicts ----
    def replay_obj(origin, t, extra):
        d = {"origin": origin, "text": t if len(t) < 4000 else t[:4000] + "...", "hex": utf8(t).hex(),
             "how": "printf '<hex>\\n' | .cache/target/lang/debug/front_run cst ; printf '0 <hex>\\n' | .cache/target/lang/debug/front_run oracle"}
        d.update(extra)
        return d

    hangs.sort(key=lambda x: len(x[1]))
    for (origin, t, kind) in hangs[:3]:
        ck.violation(f"parse_cst does not return ({kind}: " + (f"no answer within {CASE_LIMIT_S} s" if kind == "timeout" else "the process died") + ")",
                     replay_obj(origin, t, {"what": kind, "entry_point": "parser::parse_cst"}))
    ck.coverage["parse_cst_hangs_or_aborts"] = len(hangs)
    oracle_bad.sort(key=lambda x: len(x[1]))
    seen_what = set()
    for (origin, t, what, detail) in oracle_bad:
        key = (what, re.sub(r"\d+", "N", detail)[:60])
        if key in seen_what or len(seen_what) >= 8:
            continue
        seen_what.add(key)
        ck.violation(f"totality oracle: {what}: {detail[:200]}", replay_obj(origin, t, {"what": what, "detail": detail}))
    ck.coverage["oracle_failures"] = len(oracle_bad)
    clause_fail.sort(key=lambda x: len(x[1]))
    for (origin, t, bad, line) in clause_fail[:5]:
        ck.violation("parse_cst violates clause(s): " + ",".join(bad), replay_obj(origin, t, {"implementation_answer": line}))
    if crashed:
        ck.violation("harness or model process crashed / truncated its output", {"batches": crashed}, no_input=True)
    if disagreements and not clause_fail:
        disagreements.sort(key=lambda x: len(x[1]))
        origin, t, m_, i_ = disagreements[0]
        ck.broken.append("correspondence Parser.Model.parse vs parser::parse_cst")
        ck.violation("Parser model and parse_cst disagree (no clause of the property fails on the explored inputs)",
                     replay_obj(origin, t, {"correspondence": "Parser.Model.parse vs parser::parse_cst", "model": m_, "implementation": i_,
                                            "disagreements": len(disagreements)}), no_input=True)
    if (not proved or ck.broken) and not clause_fail and not disagreements and not crashed and not oracle_bad and not hangs and not part_viol:
        ck.violation("a proof obligation of Props/C04.v (or its translator) no longer checks", {"broken": ck.broken}, no_input=True)
    return finish(ck)


def finish(ck):
    ck.finish(
        explanation=("Parser/Model.v transcribes every function of cst_parser.rs (and the green-tree builder it drives) as procedures of a small command "
                     "language interpreted with explicit fuel; Props/C04.v proves for EVERY token list: fuel 12*(n+1) suffices (no loop or recursive cycle "
                     "without consuming a token), the builder never panics, every ParserError points at a token of the list, and the CST leaves are "
                     "exactly positions 0..n-1 in order. Binding powers, prefix operators, MAX_LOOKAHEAD, TokenKind and SyntaxKind are regenerated from "
                     "the Rust source on every run and every hand-transcribed function is pinned by hash. The model is tied to the code by comparing "
                     "CST, error list and kind rewrites with the real parse_cst on the same token sequences (the harness reports the kinds and line-break "
                     "flags the real tokenizer/preparser produced). Type checking and code generation are not modelled: their totality is checked by the "
                     "supervised crash/hang oracle only; the panics / aborts / malformed spans it finds on the real entry points are genuine defects, "
                     "recorded one per identified cause in KNOWN_FINDINGS.txt (F40..F59) with a class predicate on panic site, message and text; "
                     "anything outside those classes is a VIOLATION.  PARTS: Typing/ (Props/C04_typing.v): the unifier of typing/unification.rs — the occurs "
                     "check keeps the store acyclic, unification and resolution terminate within an explicit fuel bound, tied to the code by sequences of "
                     "real unify calls (hook H3); Lower/ (Props/C04_lower.v): ALL of lower.rs (CST -> AST) transcribed, proved total with fuel 2*tsize on "
                     "every tree and token table (no panic, no index out of range), every span end a token boundary (hence inside the text on character "
                     "boundaries), tied to the code by comparing the complete Program with every Location on the C04 streams."),
        trusted_base=["Coq 8.16.1 kernel (coqc, vm_compute; no native_compute)",
                      "extraction: ExtrOcamlBasic + ExtrOcamlString only; OCaml 4.13.1; ocaml/parser_drv.ml driver",
                      "translator translators/token_kinds.py (regex over token.rs/green.rs/cst_parser.rs; hash pins of the hand-transcribed functions)",
                      "harness/lang/src/bin/front_run.rs (reports kinds, line-break/adjacency flags, CST, errors; oracle workers with watchdog) and the python supervisor in checks/C04.py",
                      "lexer and preparser: Props/C13.v (C13_tiling gives spans inside the text on char boundaries for every token index; token_indices has no Eof)",
                      "typing.rs / mirgen / bytecodegen / wasmgen are NOT modelled: totality only observed by the oracle on the generated inputs",
                      "compiler::Context built from an ExecContext with the audio-driver and scheduler plugins (the CLI additionally loads GUI/MIDI/sampler plugins)",
                      f"stack: worker thread with {STACK_MIB} MiB, harness profile dev with opt-level 1; nesting bound {NEST_BOUND} levels (the repository's own debug mimium-cli "
                      "handles 1000 nested parentheses and overflows at 2000; type checking a nested array literal of depth d costs about d^4: 200 levels take seconds)",
                      "the working directory of the oracle workers decides what `mod a` / `include` / `use` find on disk"],
        rule=("non-trivial = at least 3 syntax tokens; inputs: exhaustive short kind sequences, random kind sequences of length 3..12, grammar-generated "
              "programs with token-level mutations (delete/duplicate/swap/insert/replace/unbalance/truncate), all repository *.mmm files and mutations, "
              "random Unicode strings, bracket nesting at the stated bound"))
