#!/usr/bin/env python3
"""Activate the /verif follow-up of the second round of C04 fix candidates, after the commits are in /repo.

usage: python3 corpus/C04/followup/activate.py [FM10=<commit>] [F60=<commit>] [F49=<commit>] [F48=<commit>]     (any subset)

FM10 (corpus/C04/fix_candidates/FM10.diff, cst_parser.rs is_tuple_expr):
  * coq/theories/Parser/Model.v       tuple_expr_scan / is_tuple_expr follow the new lookahead (all bracket kinds + lambda bars);
                                      no lemma of Parser/*.v and no theorem of Props/C04.v depends on the body of that scan
                                      (CIsTupleExpr is an opaque condition for chk / mchk), so nothing else changes
  * translators/token_kinds.py        the pin of cst_parser.rs:is_tuple_expr
  * checks/C14.py                     the class tuple-by-nested-trailing-comma and its witness go; `([a,])`, `([a, b])`,
                                      `({a = 1,})`, `(|x, y| x + y)`, `(f([a, b]), c)` become REPAIRED regression inputs
  * KNOWN_FINDINGS.txt                finding: property=C14 id=FM10 ...  ->  fixed: property=C14 <commit> FM10: ...
  The edits are applied as exact text replacements on the ACTIVE files (each must match exactly once); the complete files this
  produces from the files of the day they were prepared are kept next to this script (coq/, translators/, checks/) for reference.
F60 / F49 (typing.rs): the KNOWN_FINDINGS line becomes `fixed: property=C04 <commit> Fxx: ...` and the class predicate is cut out
  of checks/C04.py, so that a recurrence is a VIOLATION.
F48 (bytecodegen.rs) is a PARTIAL repair (if-arms and globals; a unit value used as an operand / element / result still panics):
  the finding stays, its text is reworded to the remaining cases, class and predicate are unchanged.
Nothing is written unless every requested edit applies.
"""
import os, re, sys

HERE = os.path.dirname(os.path.abspath(__file__))
VERIF = os.path.normpath(os.path.join(HERE, "..", "..", ".."))

C04_SUMMARY = {
    "F60": "check_type_alias_cycles reported a cyclic type alias but left it registered; resolve_type_alias / convert_unknown_to_intermediate followed it forever as soon as it was used: stack-overflow abort of the type check (`type alias T = T` newline `let x : T = 1`); inside a module the cycle was not even detected (`mod m { type alias P = P  pub fn f(x:P){x} }`)",
    "F49": "typing's Assign arm accepted builtins, external functions and type names (bound as Persistent) as assignment targets; mirgen hit unreachable!(\"Invalid assignment target\") (`sin = sin`)",
}
# F48 is only PARTLY repaired by fix_candidates/11_F48: the finding stays, with this text (class and predicate unchanged)
F48_REMAINING = ("unit values are Value::None in MIR and have no register in the VM bytecode generator: wherever one is USED AS A VALUE "
                 "bytecodegen panics `value none not found` (emit_bytecode only; type-correct programs): `fn f(){ let g = { }` newline `g }` ; "
                 "`fn dsp(){ { } - 1.0 }` ; `fn dsp(){ [ { } ] }` ; `{ f = { } , .. }`. The two commonest ways in -- the Phi of an `if` with a "
                 "unit-valued arm (`if (c) { x = 2.0 }` without else, `if (now) {}`) and SetGlobal of a unit value (`let f = { }`) -- are "
                 "repaired by %s; a complete repair needs a representation of unit values in the code generator.")
FM10_FIXED = ("FM10: is_tuple_expr (cst_parser.rs) looked for a comma before the matching `)` counting only parentheses, so a comma inside "
              "`[..]` / `{..}` / lambda bars made `([a,])`, `([a, b])`, `({a = 1,})`, `(|x, y| x + y)` one-element TUPLES (and mimium-fmt, which "
              "drops trailing commas, printed `([a,])` as `([a])`, a different AST); the lookahead now tracks every bracket kind and the bars of a lambda")

MODEL_OLD = '''(* is_tuple_expr: `for i in 1..` (unbounded; ends at None because the token list is finite) *)
Fixpoint tuple_expr_scan (l : list TokenKind) (depth : nat) : bool :=
  match l with
  | [] => false
  | KParenBegin :: r => tuple_expr_scan r (S depth)
  | KParenEnd :: r => match depth with O => false | S d => tuple_expr_scan r d end
  | KComma :: r => match depth with O => true | S _ => tuple_expr_scan r depth end
  | _ :: r => tuple_expr_scan r depth
  end.
Definition is_tuple_expr (st : pstate) : bool :=
  match peek st with
  | Some KParenBegin => tuple_expr_scan (kinds_from st 1) 0
  | _ => false
  end.
'''
MODEL_NEW = '''(* is_tuple_expr: `for i in 1..` (unbounded; ends at None because the token list is finite).
   depth = nesting of ( [ { inside the parenthesis, in_lambda = between the two bars of a lambda's parameter list at
   depth 0; only a comma at depth 0 outside such bars makes the parenthesis a tuple *)
Fixpoint tuple_expr_scan (l : list TokenKind) (depth : nat) (in_lambda : bool) : bool :=
  match l with
  | [] => false
  | KParenBegin :: r | KArrayBegin :: r | KBlockBegin :: r => tuple_expr_scan r (S depth) in_lambda
  | KParenEnd :: r => match depth with O => false | S d => tuple_expr_scan r d in_lambda end
  | KArrayEnd :: r | KBlockEnd :: r => tuple_expr_scan r (Nat.pred depth) in_lambda       (* saturating_sub(1) *)
  | KLambdaArgBeginEnd :: r =>
      match depth with O => tuple_expr_scan r depth (negb in_lambda) | S _ => tuple_expr_scan r depth in_lambda end
  | KComma :: r =>
      match depth with
      | O => if in_lambda then tuple_expr_scan r depth in_lambda else true
      | S _ => tuple_expr_scan r depth in_lambda
      end
  | _ :: r => tuple_expr_scan r depth in_lambda
  end.
Definition is_tuple_expr (st : pstate) : bool :=
  match peek st with
  | Some KParenBegin => tuple_expr_scan (kinds_from st 1) 0 false
  | _ => false
  end.
'''
PIN_OLD = '    "cst_parser.rs:is_tuple_expr": "ce2fd1050642e8d7",'
PIN_NEW = '    "cst_parser.rs:is_tuple_expr": "e38d3d274ae0740f",'

C14_EDITS = [
    ('''CLASSES = {
    "tuple-by-nested-trailing-comma": (cls_tuple_by_nested_trailing_comma, {"ast", "expr", "idem"}),
}
''', '''CLASSES = {
    # FM10 (tuple-by-nested-trailing-comma) is repaired in the parser (is_tuple_expr counts every bracket kind): no class is
    # excused any more; cls_tuple_by_nested_trailing_comma stays as the description of what a recurrence looks like
}
'''),
    ('''WITNESSES = [
    ("tuple-by-nested-trailing-comma", "([a,])", lambda a: all(r.get("out", "").strip() == "([a])" and not r["ast_same"] for r in a["runs"])),
]
''', '''WITNESSES = [
]
'''),
    ('''    "if (a) x = 1 else y",
]
''', '''    "if (a) x = 1 else y",
    # FM10 (parser, is_tuple_expr): a comma inside nested brackets / lambda bars does not make the parenthesis a tuple
    "([a,])",
    "([a, b])",
    "({a = 1,})",
    "(|x, y| x + y)",
    "(f([a, b]), c)",
]
'''),
]


def replace_once(text, old, new, where):
    if text.count(old) != 1:
        sys.exit(f"{where}: expected the text to replace exactly once, found {text.count(old)} times:\n{old[:200]}")
    return text.replace(old, new)


def cut_class(ck, fid, cls):
    """remove the predicate of class `cls` (finding fid) from checks/C04.py: an entry of the CLASSES dict literal or a
    `CLASSES["cls"] = (...)` statement"""
    if ck.count(f'"{cls}"') != 1:
        sys.exit(f"{fid}: class {cls!r} not found exactly once in checks/C04.py")
    m = re.search(rf"^    # {fid}:.*?(?=^    # F\d+:|^\}})", ck, re.S | re.M)
    if m and f'"{cls}":' in m.group(0):
        return ck[:m.start()] + ck[m.end():]
    m = re.search(rf'^CLASSES\["{re.escape(cls)}"\] = \(\n.*?\)\n(?=CLASSES\[|\n|def )', ck, re.S | re.M)
    if m:
        return ck[:m.start()] + ck[m.end():]
    sys.exit(f"{fid}: cannot delimit the predicate of {cls!r} in checks/C04.py")


def main():
    args = dict(a.split("=", 1) for a in sys.argv[1:] if "=" in a)
    if not args or any(k not in list(C04_SUMMARY) + ["FM10", "F48"] for k in args):
        sys.exit(__doc__)
    files = {}

    def get(rel):
        if rel not in files:
            files[rel] = open(os.path.join(VERIF, rel)).read()
        return files[rel]

    kf = get("KNOWN_FINDINGS.txt").split("\n")

    def fix_line(prop, fid, new_line):
        idx = [i for i, l in enumerate(kf) if re.match(rf"finding:\s+property={prop}\s+id={fid}\s", l)]
        if len(idx) != 1:
            sys.exit(f"{fid}: expected exactly one `finding: property={prop} id={fid}` line, found {len(idx)}")
        cls = re.match(r"finding:\s+property=\w+\s+id=\w+\s+class=(\S+)", kf[idx[0]]).group(1)
        kf[idx[0]] = new_line
        return cls

    for fid, commit in args.items():
        if fid == "FM10":
            fix_line("C14", "FM10", f"fixed: property=C14 {commit} {FM10_FIXED}")
            files["coq/theories/Parser/Model.v"] = replace_once(get("coq/theories/Parser/Model.v"), MODEL_OLD, MODEL_NEW, "Parser/Model.v")
            files["translators/token_kinds.py"] = replace_once(get("translators/token_kinds.py"), PIN_OLD, PIN_NEW, "translators/token_kinds.py")
            c14 = get("checks/C14.py")
            for old, new in C14_EDITS:
                c14 = replace_once(c14, old, new, "checks/C14.py")
            files["checks/C14.py"] = c14
            print("FM10: Parser/Model.v, translators/token_kinds.py, checks/C14.py updated; KNOWN_FINDINGS C14/FM10 -> fixed")
        elif fid == "F48":
            idx = [i for i, l in enumerate(kf) if re.match(r"finding:\s+property=C04\s+id=F48\s", l)]
            if len(idx) != 1:
                sys.exit("F48: expected exactly one `finding: property=C04 id=F48` line")
            head = re.match(r"(finding:\s+property=C04\s+id=F48\s+class=\S+)\s", kf[idx[0]]).group(1)
            kf[idx[0]] = head + " " + F48_REMAINING % commit
            print(f"F48: partly repaired by {commit}: the finding line is reworded, class and predicate stay")
        else:
            cls = fix_line("C04", fid, f"fixed: property=C04 {commit} {fid}: {C04_SUMMARY[fid]}")
            files["checks/C04.py"] = cut_class(get("checks/C04.py"), fid, cls)
            print(f"{fid}: KNOWN_FINDINGS line -> fixed ({commit}); class predicate {cls} removed from checks/C04.py")
    files["KNOWN_FINDINGS.txt"] = "\n".join(kf)
    for rel, txt in files.items():
        if rel.endswith(".py"):
            compile(txt, rel, "exec")
    for rel, txt in files.items():
        open(os.path.join(VERIF, rel), "w").write(txt)


if __name__ == "__main__":
    main()
