#!/usr/bin/env python3
"""Activate the C14 follow-up after the fix commits of corpus/C14/fix_candidates/ are in /repo.
usage: python3 corpus/C14/followup/activate.py [NN=hash ...]      e.g.  01=abc1234 02=def5678 ...
Copies the prepared files over the active ones and turns the C14 `finding:` lines of the repaired classes in
KNOWN_FINDINGS.txt into `fixed:` lines (FM10, a parser defect, stays a finding)."""
import os, re, shutil, sys
HERE = os.path.dirname(os.path.abspath(__file__))
VERIF = os.path.dirname(os.path.dirname(os.path.dirname(HERE)))
hashes = dict(a.split("=", 1) for a in sys.argv[1:])
for rel in ["coq/theories/Fmt/Model.v", "coq/theories/Fmt/Emits.v", "coq/theories/Fmt/Witness.v",
            "coq/theories/Props/C14.v", "ocaml/fmt_drv.ml", "checks/C14.py"]:
    shutil.copy(os.path.join(HERE, rel), os.path.join(VERIF, rel))
    print("updated", rel)
fixed = {}
for l in open(os.path.join(HERE, "KNOWN_FINDINGS.C14.lines")):
    m = re.match(r"fixed: property=C14 <hash-of-fix_candidates/(\d+)> (\w+):", l)
    if m:
        fixed[m.group(2)] = (m.group(1), l.rstrip("\n"))
kf = os.path.join(VERIF, "KNOWN_FINDINGS.txt")
out = []
for l in open(kf).read().split("\n"):
    m = re.match(r"finding:\s+property=C14\s+id=(\w+)\s", l)
    if m and m.group(1) in fixed:
        nn, new = fixed[m.group(1)]
        out.append(new.replace("<hash-of-fix_candidates/%s>" % nn, hashes.get(nn, "<hash-of-fix_candidates/%s>" % nn)))
    else:
        out.append(l)
open(kf, "w").write("\n".join(out))
print("KNOWN_FINDINGS.txt: %d C14 lines turned into fixed:" % len(fixed))
