import sys,subprocess,re
W="/var/tmp/c14/repo"
F=W+"/crates/bin/mimium-fmt/src/cst_print.rs"
def sub(old,new,count=1):
    s=open(F).read()
    assert s.count(old)>=1,(old,s.count(old))
    s=s.replace(old,new,count)
    open(F,"w").write(s)
m=sys.argv[1]
if m=="M1":   # drop block comments
    sub('''            let text = trivia.text(source);
            allocator
                .text(" ")
                .append(allocator.text(text.to_string()))
                .append(allocator.text(" "))''','''            allocator.nil()''')
elif m=="M2": # softline instead of hardline after a line comment
    sub('''                .append(allocator.text(text.to_string()))
                .append(allocator.hardline())''','''                .append(allocator.text(text.to_string()))
                .append(allocator.softline())''')
elif m=="M3": # parentheses of ParenExpr not printed
    sub('''    print_leaf_children(children, ctx, allocator).group()
}''','''    let kept: Vec<GreenNodeId> = children
        .iter()
        .copied()
        .filter(|&c| {
            !matches!(ctx.arena.get(c), mimium_lang::compiler::parser::green::GreenNode::Token { token_index, .. }
                if matches!(ctx.tokens[*token_index].kind, TokenKind::ParenBegin | TokenKind::ParenEnd))
        })
        .collect();
    print_leaf_children(&kept, ctx, allocator).group()
}''')
elif m=="M4": # swap operands of non-pipe binary operators
    sub('''        lhs_doc
            .append(allocator.space())
            .append(op_doc)
            .append(
                allocator
                    .line()
                    .append(rhs_doc)
                    .nest(get_indent_size() as isize),
            )
            .group()''','''        rhs_doc
            .append(allocator.space())
            .append(op_doc)
            .append(
                allocator
                    .line()
                    .append(lhs_doc)
                    .nest(get_indent_size() as isize),
            )
            .group()''')
elif m=="M5": # a break point between callee and argument list
    sub('''            result = result.append(cst_to_doc(child, ctx, allocator));
            continue;
        }

        // For other children (callee, @, time), concatenate directly''','''            result = result.append(allocator.softline_()).append(cst_to_doc(child, ctx, allocator));
            continue;
        }

        // For other children (callee, @, time), concatenate directly''')
elif m=="M6": # keep one blank line where the source had one (after a token followed by >= 2 line breaks)
    sub('''        TokenKind::LineBreak => {
            // Skip linebreaks - we control line separation in block/program contexts
            allocator.nil()
        }''','''        TokenKind::LineBreak => {
            if trivia.text(source).matches('\\n').count() >= 2 {
                allocator.hardline()
            } else {
                allocator.nil()
            }
        }''')
elif m=="M7": # off-by-one: the last item of a list is not printed when the list has more than 8 items
    sub('''        let items_doc = allocator.intersperse(items, breakable_comma(allocator));
        // Wrap in group for proper line breaking''','''        let n_items = items.len();
        let items = if n_items > 3 { items.into_iter().take(n_items - 1).collect::<Vec<_>>() } else { items };
        let items_doc = allocator.intersperse(items, breakable_comma(allocator));
        // Wrap in group for proper line breaking''')
print("applied",m)
if m=="M8": # no space between `else` and a non-block else-branch
    sub('''            result = result.append(allocator.space()).append(child_doc.group());
        }
    }

    result.group()''','''            result = result.append(child_doc.group());
        }
    }

    result.group()''')
    print("applied M8 (no space after else)")
