#!/usr/bin/env python3
"""Convert the REAL green tree of a source text (dumped by harness/lang/src/bin/fmt_run.rs) into a Gallina `cst` term of
Fmt/Model.v, with the kind tables of ocaml/fmt_drv.ml.  Used to write the witnesses in Fmt/Witness*.v mechanically.
usage: cst2coq.py NAME 'source text with \\n escapes'      (needs .cache/target/lang/debug/fmt_run)"""
import json, os, subprocess, sys
HERE = os.path.dirname(os.path.abspath(__file__))
VERIF = os.path.dirname(os.path.dirname(HERE))
sys.path.insert(0, os.path.join(VERIF, "lib")); sys.path.insert(0, os.path.join(VERIF, "checks"))
import C14

TK = {"Function": "KFunction", "Let": "KLet", "LetRec": "KLetRec", "Assign": "KAssign", "Arrow": "KArrow",
      "OpSum": "(KOp false true)", "OpMinus": "(KOp false true)", "OpPipe": "(KOp true false)", "OpPipeMacro": "(KOp true false)",
      "LambdaArgBeginEnd": "KLambdaBar", "Comma": "KComma", "If": "KIf", "Else": "KElse", "BlockBegin": "KBlockBegin",
      "BlockEnd": "KBlockEnd", "ParenBegin": "KParenBegin", "ParenEnd": "KParenEnd", "ArrayBegin": "KArrayBegin",
      "ArrayEnd": "KArrayEnd", "Ident": "KIdent", "IdentFunction": "KIdent", "IdentVariable": "KIdent",
      "MacroExpand": "KMacroExpand", "LeftArrow": "KLeftArrow", "DoubleColon": "KDoubleColon", "Macro": "KMacro", "Mod": "KMod",
      "Use": "KUse", "Pub": "KPub"}
for k in "OpProduct OpDivide OpModulo OpExponent OpAnd OpOr OpEqual OpNotEqual OpLessThan OpGreaterThan OpLessEqual OpGreaterEqual OpAt".split():
    TK[k] = "(KOp false false)"
SK = {"Program": "SProgram", "Statement": "SStatement", "FunctionDecl": "SFunctionDecl", "LetDecl": "SLetDecl",
      "LetRecDecl": "SLetRecDecl", "AssignExpr": "SAssignExpr", "BinaryExpr": "SBinaryExpr", "UnaryExpr": "SUnaryExpr",
      "CallExpr": "SCallExpr", "LambdaExpr": "SLambdaExpr", "IfExpr": "SIfExpr", "BlockExpr": "SBlockExpr",
      "ParenExpr": "SParenExpr", "RecordExpr": "SRecordExpr", "MacroExpansion": "SMacroExpansion",
      "QualifiedPath": "SQualifiedPath", "MatchArmList": "SMatchArmList", "ModuleDecl": "SModuleDecl", "UseStmt": "SUseStmt",
      "UseTargetMultiple": "SUseMultiple", "UseTargetWildcard": "SUseWildcard", "VisibilityPub": "SVisibilityPub"}
for k in "TupleExpr ParamList ArgList TuplePattern".split(): SK[k] = "(SGroupedList false true)"
for k in "ArrayExpr RecordPattern".split(): SK[k] = "(SGroupedList false false)"
SK["TupleType"] = "(SGroupedList true true)"; SK["RecordType"] = "(SGroupedList true false)"
for k in ("IntLiteral FloatLiteral StringLiteral SelfLiteral NowLiteral SampleRateLiteral PlaceHolderLiteral Identifier FieldAccess "
          "IndexExpr TypeAnnotation Pattern SinglePattern ParamDefault ExprList EscapeExpr BracketExpr IncludeStmt StageDecl").split():
    SK[k] = "(SLeaf false)"
for k in "PrimitiveType UnitType TypeIdent FunctionType ArrayType CodeType UnionType".split(): SK[k] = "(SLeaf true)"
for k in "MatchExpr MatchArm MatchPattern ConstructorPattern TypeDecl VariantDef".split(): SK[k] = "SSpaced"


def cq(s):
    return '"' + s.replace('"', '""') + '"'


def triv(ts):
    out = []
    for t in ts:
        out.append({"L": lambda: "TLine " + cq(t[1]), "B": lambda: "TBlock " + cq(t[1]), "N": lambda: "TNl", "W": lambda: "TWs",
                    "X": lambda: "TWs"}[t[0]]())
    return "[" + "; ".join(out) + "]"


def conv(t, ind):
    pad = "  " * ind
    if t[0] == 'T':
        return f"{pad}Tok {TK.get(t[1], 'KOther')} {cq(t[2])} {triv(t[3])} {triv(t[4])}"
    kids = ";\n".join(conv(c, ind + 1) for c in t[2])
    return f"{pad}Node {SK.get(t[1], 'SOutside')} [\n{kids}]" if t[2] else f"{pad}Node {SK.get(t[1], 'SOutside')} []"


if __name__ == "__main__":
    name, src = sys.argv[1], sys.argv[2].encode().decode("unicode_escape")
    exe = os.path.join(VERIF, ".cache", "target", "lang", "debug", "fmt_run")
    p = subprocess.run([exe], input=json.dumps({"m": "parse", "src": src, "cst": True}) + "\n", stdout=subprocess.PIPE, text=True)
    a = json.loads(p.stdout.split("\n")[0])
    assert a["cst_errs"] == 0, a
    print(f"(* {json.dumps(src)} *)")
    print(f"Definition {name} : cst :=\n" + conv(C14.parse_cst(a["cst"]), 0) + ".")
