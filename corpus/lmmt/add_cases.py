#!/usr/bin/env python3
"""Appends the sum-type / match / wide-self cases to corpus/lmmt/cases.json (the older cases are kept as recorded).
Run with the built model driver and harness:  PYTHONPATH=lib:checks python3 corpus/lmmt/add_cases.py [path of lmmt_drv]
Records the CURRENT answers of tc_prog (strict, lenient), of the reference run, of the real type checker and of both backends."""
import json, os, sys
HERE = os.path.dirname(os.path.abspath(__file__))
import vplib, lmmx, lmmt_part

F = 'F'
def L(z): return ('lit', z)
def V(x): return ('var', x)
NOW = ('now',)
def B(op, a, b): return ('bin', op, a, b)
def T(*ts): return ('T', list(ts))
def con(t, tag, arg=None): return ('con', t, tag, arg)
def match(sc, *arms): return ('match', sc, list(arms))
def ml(z): return ('ml', z)
MW = ('mw',)
def mc(t, tag, q=None): return ('mc', t, tag, ('pv', q) if isinstance(q, int) else q)
def mt(*ms): return ('mt', list(ms))
def prog(globals_, outs, types=()):
    p = {"globals": list(globals_), "inputs": [], "lets": [], "outs": list(outs)}
    if types: p["types"] = [(t, list(cs)) for t, cs in types]
    return p
T50 = (50, [None, F, T(F, F)])
SH50 = ('ss', 50, [None, 'N', ('st', ['N', 'N'])])
CASES = []
def case(name, note, p, finding=None, n=3):
    CASES.append({"name": name, "note": note, "finding": finding, "prog": p, "rows": [[] for _ in range(n)]})

red = lambda v: match(v, (mc(50, 0), L(1)), (mc(50, 1, 91), V(91)), (mc(50, 2, ('pt', [('pv', 92), ('pv', 93)])), B('add', V(92), V(93))))
case("sum_match_exhaustive", "constructors, payload binders, one arm per constructor: accepted by both",
     prog([], [red(('if', NOW, con(50, 1, NOW), con(50, 2, ('tup', [NOW, L(1)]))))], [T50]))
case("sum_self", "self of a sum type, read at the function's type: accepted by both",
     prog([('fun', 1, [(2, F, None)], ('let', ('pv', 3), red(('selfs', SH50)), ('if', V(2), con(50, 1, B('add', V(3), V(2))), con(50, 0))), ('S', 50))],
          [red(('app', V(1), [NOW]))], [T50]))
case("tuple_self", "self of a tuple type taken apart by a pattern: accepted by both",
     prog([('fun', 1, [(2, F, None)], ('let', ('pt', [('pv', 3), ('pv', 4)]), ('selfs', ('st', ['N', 'N'])),
                                         ('tup', [B('add', V(3), V(2)), B('add', V(4), V(3))])), T(F, F))],
          [('let', ('pt', [('pv', 5), ('pv', 6)]), ('app', V(1), [L(1)]), B('add', V(5), V(6)))]))
case("match_wildcard_exhaustive", "integer literal arms and `_`: accepted by both", prog([], [match(NOW, (ml(0), L(10)), (MW, L(30)))]))
case("match_missing_constructor", "a sum match without an arm for one constructor and without `_`: rejected by both (Match expression is not exhaustive)",
     prog([], [match(con(50, 1, NOW), (mc(50, 0), L(1)), (mc(50, 1, 91), V(91)))], [T50]))
case("constructor_payload_type", "a tuple where the constructor carries a number: rejected by both",
     prog([], [red(con(50, 1, ('tup', [L(1), L(2)])))], [T50]))
case("constructor_extra_payload", "a payload for a constructor that carries none: rejected by both",
     prog([], [red(con(50, 0, L(1)))], [T50]))
# ---- repaired findings T6, T7 (number scrutinee), T8, T9 (scrutinee): regression inputs, the real checker must REJECT them with a diagnostic ----
case("fixed_T8_literal_pattern_on_sum", "repaired T8: a literal pattern against a sum value is a type error (it was accepted, the arm never taken)",
     prog([], [match(con(50, 0), (ml(0), L(1)), (MW, L(2)))], [T50]))
case("fixed_T6_match_arms_of_different_types", "repaired T6: arms of different types are a type error (the unification error was dropped: 2 3 3)",
     prog([], [B('add', match(NOW, (ml(0), L(1)), (MW, ('tup', [L(2), L(3)]))), L(1))]))
case("fixed_T7_match_on_number_not_exhaustive", "repaired T7 (number scrutinee): a match on a number without `_` is not exhaustive (it was accepted: VM ran the last arm, WASM played 0)",
     prog([], [match(NOW, (ml(0), L(10)), (ml(1), L(20)))]))
case("fixed_T8_binder_for_constructor_without_payload", "repaired T8: A(q) for a constructor without payload is a type error (VM compile panic, WASM no output word)",
     prog([], [match(con(50, 0), (mc(50, 0, 91), V(91)), (MW, L(2)))], [T50]))
case("fixed_T8_tuple_pattern_on_number", "repaired T8: a tuple pattern against a number is a type error",
     prog([], [match(NOW, (mt(ml(0), MW), L(7)), (ml(1), L(5)), (MW, L(3)))]))
case("fixed_T8_constructor_pattern_on_number", "repaired T8: a constructor pattern against a number is a type error",
     prog([], [match(NOW, (mc(50, 0), L(7)), (MW, L(3)))], [T50]))
case("fixed_T8_tuple_pattern_longer", "repaired T8: a tuple pattern wider than the tuple is a type error",
     prog([], [match(('tup', [NOW, L(2)]), (mt(ml(0), ml(0), MW), L(1)), (MW, L(2)))]))
case("fixed_T8_constructor_pattern_on_number_in_tuple", "repaired T8 (the bytecode verifier's witness): B((a, b, c)) in a tuple pattern over a column that is a number",
     prog([], [match(('tup', [NOW, L(2)]), (mt(mc(51, 1, ('pt', [('pv', 91), ('pv', 92), ('pv', 93)])), ml(1)), V(91)), (MW, L(5)))],
          [(51, [T(F, F, F), T(F, F, F)])]))
case("fixed_T9_constructor_without_its_payload", "repaired T9 (scrutinee): B used without its payload as the scrutinee of a match is a type error (VM compile panic, WASM invalid module)",
     prog([], [red(con(50, 1))], [T50]))
# ---- what is left of T7 and T9 ----
case("T7_match_on_tuple_not_exhaustive", "a match on a TUPLE without `_`: accepted by the real checker; VM runs the last arm, WASM plays 0 (reference: stuck E_NOMATCH)",
     prog([], [match(('tup', [NOW, L(0)]), (mt(ml(0), ml(0)), L(1)), (mt(ml(1), MW), L(2)))]), finding="T7")
case("T9_payload_constructor_as_function_value", "B (which carries a payload) let-bound as a function value: well typed for the real checker (float -> T); VM compile panic, WASM plays",
     prog([], [('let', ('pv', 94), con(50, 1), L(1))], [T50]), finding="T9")

if __name__ == "__main__":
    mexe, iexe, err = lmmt_part.build_sides()      # (with VERIF_REPO=<worktree>: the harness built against that worktree)
    assert mexe is not None, err
    if len(sys.argv) > 1: mexe = sys.argv[1]
    old = json.load(open(os.path.join(HERE, "cases.json")))
    names = {c["name"] for c in CASES} | {"T8_literal_pattern_on_sum", "T6_match_arms_of_different_types", "T7_match_on_number_not_exhaustive",
                                         "T8_binder_for_constructor_without_payload", "T8_tuple_pattern_on_number", "T9_constructor_without_its_payload"}
    old = [c for c in old if c["name"] not in names]
    progs = [c["prog"] for c in CASES]; rows = [c["rows"] for c in CASES]
    mres = lmmt_part.run_model(mexe, list(zip(progs, rows)))
    reqs = lmmt_part.requests(progs, rows, False)
    for q in reqs: q["isolate"] = True
    ires = lmmx.run_impl(iexe, reqs)
    out = []
    for c, m, r in zip(CASES, mres, ires):
        run = m.get("run", {})
        ex = {"tc": m.get("tc"), "lenient": m.get("lenient"), "run": (sorted(run.items()) or [[None, None]])[0][0], "real": lmmt_part.real_verdict(r)}
        if "stuck" in run: ex["stuck"] = run["stuck"]
        outs = lmmt_part.backend_outcomes(r)
        for be in ("vm", "wasm"):
            ex[be] = outs[be][:60] if outs[be] != 'ok' else 'ok'
        rec = dict(c, expect=ex, source=lmmt_part.pp_prog(c["prog"]))
        print("%-45s %s" % (c["name"], ex))
        out.append(rec)
    json.dump(old + out, open(os.path.join(HERE, "cases.json"), "w"), indent=1)
    print("wrote", len(old) + len(out), "cases")
