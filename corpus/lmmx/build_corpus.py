#!/usr/bin/env python3
"""Builds corpus/lmmx/cases.json and corpus/lmmx/*.mmm from hand-written ASTs (the probe programs used to discover the
rules of coq/theories/Lmmx/Ref.v).  Run:  python3 corpus/lmmx/build_corpus.py   (needs the built model driver and harness;
records the CURRENT answers of the reference semantics and of both real backends; review the diff before keeping it).

Each case: name, note, prog (lmmx AST), rows, ref (reference outputs), vm / wasm: "ref" (must equal the reference) or the
recorded deviating answer, finding: id of the finding the case witnesses (None for regular cases)."""
import json, os, sys
HERE = os.path.dirname(os.path.abspath(__file__))
sys.path.insert(0, os.path.join(HERE, "..", "..", "lib"))
import vplib, lmmx

def L(z): return ('lit', z)
def V(x): return ('var', x)
NOW = ('now',); SELF = ('self',)
def B(op, a, b): return ('bin', op, a, b)
def add(a, b): return B('add', a, b)
def mul(a, b): return B('mul', a, b)
def let(x, a, b): return ('let', ('pv', x) if isinstance(x, int) else x, a, b)
def lam(ps, body): return ('lam', [(x, None) if isinstance(x, int) else x for x in ps], body)
def app(f, *args): return ('app', V(f) if isinstance(f, int) else f, list(args))
def asg(x, e): return ('asg', x, e)
def seq(*es):
    e = es[-1]
    for s in reversed(es[:-1]): e = ('seq', s, e)
    return e
def tup(*es): return ('tup', list(es))
def pt(*ps): return ('pt', [('pv', x) if isinstance(x, int) else x for x in ps])
def fun(name, params, body): return ('fun', name, [(p if isinstance(p, tuple) else (p, None, None)) for p in params], body, None)
def glet(x, e): return ('glet', ('pv', x) if isinstance(x, int) else x, e)
def prog(globals_, outs, lets=(), inputs=(), types=()):
    p = {"globals": list(globals_), "inputs": list(inputs), "lets": list(lets), "outs": list(outs)}
    if types: p["types"] = [(t, list(cs)) for t, cs in types]
    return p
def T(*ts): return ('T', list(ts))
def S(t): return ('S', t)
def con(t, tag, arg=None): return ('con', t, tag, arg)
def match(sc, *arms): return ('match', sc, list(arms))
def ml(z): return ('ml', z)
MW = ('mw',)
def mc(t, tag, q=None): return ('mc', t, tag, ('pv', q) if isinstance(q, int) else q)
def mt(*ms): return ('mt', list(ms))
def funr(name, params, body, ret): return ('fun', name, [(p if isinstance(p, tuple) else (p, None, None)) for p in params], body, ret)
def sub(a, b): return B('sub', a, b)
def gt(a, b): return B('gt', a, b)
def mod3(a): return sub(a, mul(L(3), B('max', L(0), B('min', L(100), L(0)))))   # placeholder, not used
F = 'F'
def Fn(ps, r): return ('Fn', list(ps), r)
# counter body  | | { c = c + step ; c }
def counter(c, step): return lam([], seq(asg(c, add(V(c), step)), V(c)))

CASES = []
def case(name, note, p, n=6, finding=None, rows=None):
    CASES.append({"name": name, "note": note, "prog": p, "rows": rows if rows is not None else [[] for _ in range(n)], "finding": finding})

# ---------------- regular cases: both backends must equal the reference ----------------
case("direct_sites", "rule D: two textual call sites of a stateful function own separate state",
     prog([fun(1, [2], add(SELF, V(2)))], [add(app(1, L(1)), app(1, L(10)))]))
case("capture_readonly", "rule V: a lambda reads a local of its frame",
     prog([], [let(1, L(1), let(2, lam([3], add(V(3), V(1))), app(2, L(2))))]))
case("counter_global", "rule I/V: an escaping closure assigns its captured cell; the instance lives in a global",
     prog([fun(1, [], let(2, L(0), counter(2, L(1)))), glet(3, app(1))], [app(3)]))
case("capture_sees_later_assignment", "rule V: by reference: the frame assigns after the lambda was created",
     prog([], [let(1, L(1), let(2, lam([3], add(V(3), V(1))), seq(asg(1, L(10)), app(2, L(0)))))]))
case("frame_sees_closure_assignment", "rule V: the frame sees the assignments of a closure it calls (and vice versa)",
     prog([], [let(1, L(0), let(2, counter(1, L(1)),
               let(3, app(2), let(4, V(1), seq(asg(1, L(5)), let(5, app(2), let(6, V(1),
               add(add(mul(V(3), L(1000)), mul(V(4), L(100))), add(mul(V(5), L(10)), V(6))))))))))]))
case("shared_cell_two_closures", "rule V: two escaping closures share the cell of the variable they both capture",
     prog([fun(1, [], let(2, L(0), tup(counter(2, L(1)), lam([], V(2))))), glet(3, app(1))],
          [let(pt(4, 5), V(3), let(6, app(4), let(7, app(4), add(add(mul(V(6), L(100)), mul(V(7), L(10))), app(5)))))]))
case("global_assign", "a global variable assigned by a function called from dsp",
     prog([glet(1, L(4)), fun(2, [], seq(asg(1, add(V(1), L(1))), V(1)))], [let(3, app(2), add(mul(V(3), L(100)), V(1)))]))
case("record_field_order", "rule O: record fields are evaluated in alphabetical order of their names",
     prog([], [let(1, L(0), let(2, counter(1, L(1)),
               let(3, ('rec', [(2, app(2)), (1, app(2)), (0, app(2))]),
                   add(add(mul(('fld', V(3), 2), L(100)), mul(('fld', V(3), 1), L(10))), ('fld', V(3), 0)))))]))
case("hof_named_stateful_instance", "rule I: a named stateful function passed as a value is an instance; f() + f() share it; two instances are separate",
     prog([fun(1, [], add(SELF, L(1))), fun(2, [(3, Fn([], F), None)], lam([], add(app(3), app(3)))),
           glet(4, app(2, V(1))), glet(5, app(2, V(1)))], [add(mul(app(4), L(100)), app(5))]))
case("instance_with_capture_shares_state", "rule I: calls through the same instance share its state (mem sees the previous call)",
     prog([fun(1, [], let(2, L(0), let(3, lam([4], add(('mem', V(4)), V(2))), lam([], add(mul(app(3, L(1)), L(10)), app(3, L(2))))))),
           glet(5, app(1))], [app(5)]))
case("direct_calls_inside_closure", "rule D inside an instance: direct call sites in a closure body own state in the instance",
     prog([fun(1, [], add(SELF, L(1))), fun(2, [], let(9, L(0), lam([], add(add(mul(app(1), L(10)), app(1)), V(9))))), glet(3, app(2))],
          [add(app(3), mul(app(1), L(100)))]))
case("stateful_lambda_self", "rule S: self of a lambda is the previous return value of the instance",
     prog([fun(1, [2], lam([3], add(add(SELF, V(3)), V(2)))), glet(4, app(1, L(0)))], [app(4, L(2))]))
case("pipe", "rule O: a |> f is f(a)",
     prog([fun(1, [2], mul(V(2), L(2)))], [('pipe', ('pipe', L(3), V(1)), lam([4], add(V(4), L(100))))]))
case("named_args_defaults", "rule N: missing parameters take their defaults, evaluated at call time",
     prog([glet(1, L(4)), fun(2, [(3, F, None), (4, F, add(V(1), L(1)))], add(mul(V(3), L(10)), V(4)))],
          [('cnamed', 2, [(3, L(1))]), ('cnamed', 2, [(3, L(2)), (4, L(7))])], lets=[(('pw',), asg(1, add(V(1), L(1))))]))
case("tuple_record_destructuring", "nested tuple / record patterns and projections",
     prog([], [let(1, ('rec', [(0, L(1)), (1, tup(L(2), L(3)))]),
               let(('pr', [(0, ('pv', 2)), (1, pt(3, 4))]), V(1),
               let(5, tup(('fld', V(1), 0), ('proj', ('fld', V(1), 1), 1)),
                   add(add(mul(V(2), L(100)), mul(V(3), L(10))), add(V(4), mul(('proj', V(5), 1), L(1000)))))))]))
case("closure_created_each_sample_stateless", "an instance created on every sample (stateless) over a dsp input",
     prog([fun(1, [(2, Fn([F], F), None), (3, F, None)], app(2, app(2, V(3))))], [app(1, lam([5], add(V(5), V(4))), L(1))],
          inputs=[4]), rows=[[1], [2], [3], [-1]])
case("maker_of_param_capturing_closures", "closures capturing only parameters: one maker, several instances",
     prog([fun(1, [2], lam([3], add(mul(V(2), L(10)), add(V(3), SELF)))), glet(4, app(1, L(1))), glet(5, app(1, L(2)))],
          [add(mul(app(4, L(1)), L(1000)), app(5, L(2)))]))
case("nested_read_two_levels", "a lambda two levels down READS a local of the outer frame",
     prog([], [let(1, L(0), let(2, lam([], let(3, lam([], add(V(1), L(1))), app(3))), seq(asg(1, L(5)), app(2))))]))
case("if_arm_state_in_closure", "stateful constructs in if arms inside an instance",
     prog([fun(1, [2], add(SELF, V(2))), fun(3, [], let(9, L(1), lam([4], ('if', V(4), app(1, L(1)), add(app(1, L(10)), V(9)))))), glet(5, app(3))],
          [app(5, B('lt', NOW, L(3)))], ), n=8)

# ---- sum types, match, wide self (rules M and S) ----
# type T50 = K0 | K1(float) | K2((float, float))
T50 = (50, [None, F, T(F, F)])
SH50 = ('ss', 50, [None, 'N', ('st', ['N', 'N'])])
def pick50(x): return ('if', gt(x, L(2)), con(50, 2, tup(x, add(x, L(1)))), ('if', gt(x, L(0)), con(50, 1, mul(x, L(10))), con(50, 0)))
def red50(v): return match(v, (mc(50, 0), L(1)), (mc(50, 1, 91), V(91)), (mc(50, 2, pt(92, 93)), add(mul(V(92), L(100)), V(93))))
case("sum_match_payload", "rule M: constructor arms bind their payload (number, tuple pattern); arms in any order",
     prog([fun(1, [(2, F, None)], pick50(V(2)))], [red50(app(1, NOW))], types=[T50]), n=5)
case("match_int_literals", "rule M: integer literal arms and `_`; the scrutinee is a number",
     prog([], [match(NOW, (ml(0), L(10)), (ml(1), L(20)), (MW, L(30)))]), n=4)
case("match_tuple_patterns", "rule M: tuple patterns match componentwise, first matching arm",
     prog([], [match(tup(NOW, sub(NOW, L(1))), (mt(ml(0), MW), L(1)), (mt(ml(1), ml(0)), L(2)), (mt(MW, ml(1)), L(3)), (MW, L(4)))]), n=5)
case("match_tuple_of_sums", "rule M: constructor patterns inside a tuple pattern bind their payloads",
     prog([fun(1, [(2, F, None)], pick50(V(2)))],
          [match(tup(app(1, NOW), app(1, sub(L(4), NOW))),
                 (mt(mc(50, 1, 5), mc(50, 1, 6)), add(V(5), V(6))), (mt(mc(50, 2, pt(5, 6)), mc(50, 1, 7)), add(add(V(5), V(6)), V(7))),
                 (mt(mc(50, 0), MW), L(-1)), (MW, L(100)))], types=[T50]), n=5)
case("match_arms_keep_state", "rule M: each arm owns its state; an arm that is not taken keeps it (the repaired F27)",
     prog([fun(1, [(2, F, None)], add(SELF, V(2)))],
          [match(sub(NOW, mul(L(3), ('if', gt(NOW, L(2)), L(1), L(0)))), (ml(0), app(1, L(1))), (ml(1), L(200)), (MW, app(1, L(10))))]), n=8)
case("match_sum_arms_keep_state", "rule M: stateful arms of a match on a sum value",
     prog([fun(1, [(2, F, None)], add(SELF, V(2))), fun(3, [(4, F, None)], pick50(V(4)))],
          [match(app(3, sub(NOW, mul(L(2), ('if', gt(NOW, L(1)), L(1), L(0))))),
                 (mc(50, 0), app(1, L(1))), (mc(50, 1, 5), app(1, V(5))), (MW, add(app(1, L(100)), ('mem', NOW))))], types=[T50]), n=8)
case("self_tuple", "rule S: the feedback value of a function returning a tuple is the previous tuple, (0, 0) first",
     prog([funr(1, [(2, F, None)], let(pt(3, 4), ('selfs', ('st', ['N', 'N'])), tup(add(V(3), V(2)), add(V(4), V(3)))), T(F, F))],
          [let(pt(5, 6), app(1, L(1)), add(mul(V(5), L(100)), V(6)))]))
case("self_record", "rule S: record-valued self",
     prog([funr(1, [(2, F, None)], let(('pr', [(0, ('pv', 3)), (2, ('pv', 4))]), ('selfs', ('sr', [(0, 'N'), (2, 'N')])),
                                        ('rec', [(0, add(V(3), V(2))), (2, add(V(4), V(3)))])), ('R', [(0, F), (2, F)]))],
          [let(5, app(1, L(1)), add(mul(('fld', V(5), 0), L(100)), ('fld', V(5), 2)))]))
case("self_sum_zero_is_first_constructor", "rule S: a zero-initialised sum-typed self is the FIRST constructor with a zero payload",
     prog([funr(1, [(2, F, None)], let(3, match(('selfs', ('ss', 51, [('st', ['N', 'N']), 'N', None])),
                                                (mc(51, 0, pt(4, 5)), add(add(mul(V(4), L(7)), V(5)), L(1000))), (mc(51, 1, 4), V(4)), (mc(51, 2), L(-1))),
                                        ('if', gt(V(2), L(2)), con(51, 2), ('if', gt(V(2), L(0)), con(51, 1, add(V(3), V(2))), con(51, 0, tup(V(3), add(V(2), L(1))))))), S(51))],
          [match(app(1, NOW), (mc(51, 0, pt(4, 5)), add(mul(V(4), L(7)), V(5))), (mc(51, 1, 4), V(4)), (mc(51, 2), L(-1)))],
          types=[(51, [T(F, F), F, None])]), n=6)
case("self_tuple_with_sum", "rule S: a feedback value that is a tuple of a number and a sum value",
     prog([funr(1, [(2, F, None)], let(pt(3, 4), ('selfs', ('st', ['N', SH50])),
                                        let(5, match(V(4), (mc(50, 0), L(100)), (mc(50, 1, 6), V(6)), (MW, L(7))),
                                            tup(add(V(3), L(1)), ('if', gt(V(2), L(1)), con(50, 1, add(V(5), V(2))), con(50, 0))))), T(F, S(50)))],
          [let(pt(7, 8), app(1, NOW), add(mul(V(7), L(10000)), match(V(8), (mc(50, 0), L(-1)), (mc(50, 1, 9), V(9)), (MW, L(0)))))], types=[T50]), n=6)
case("lambda_self_tuple", "rule S/I: a closure instance with a tuple-valued self",
     prog([fun(1, [(2, F, None)], lam([3], let(pt(4, 5), ('selfs', ('st', ['N', 'N'])), tup(add(V(4), V(3)), add(add(V(5), V(4)), V(2)))))),
           glet(6, app(1, L(3)))], [let(pt(7, 8), app(6, L(1)), add(mul(V(7), L(1000)), V(8)))]))
case("match_binder_captured_by_closure", "rule M/V: the payload binder of a constructor arm is a cell a closure can capture",
     prog([fun(1, [(2, F, None)], pick50(V(2)))], [match(app(1, NOW), (mc(50, 1, 5), ('pipe', L(6), lam([7], add(V(5), V(7))))), (MW, L(0)))], types=[T50]), n=4)

# ---- repaired findings (M1 M3 M5 MG W10 W11 W12 W13): regression inputs, both backends must equal the reference ----
case("fixed_M1_wildcard_arm_first", "repaired M1: the arms after a `_` arm are never taken (before the repair both backends played 10 20 30 for 30 30 30)",
     prog([], [match(NOW, (MW, L(30)), (ml(0), L(10)), (ml(1), L(20)))]), n=3)
case("fixed_M1b_tuple_general_arm_first", "repaired M1: (_, _) before (0, 0): the first arm that matches is taken (before the repair 2 1 1 for 1 1 1)",
     prog([], [match(tup(NOW, L(0)), (mt(MW, MW), L(1)), (mt(ml(0), ml(0)), L(2)))]), n=3)
case("fixed_M3_duplicate_literal_arm", "repaired M3: of two arms with the same literal the first is taken on both backends (the VM took the last: 15 20 30 for 10 20 30)",
     prog([], [match(NOW, (ml(0), L(10)), (ml(0), L(15)), (ml(1), L(20)), (MW, L(30)))]), n=3)
case("fixed_M5_nested_payload_pattern_in_tuple_match", "repaired M5: (x, (y, z)) inside a constructor pattern inside a tuple pattern binds the right components (788 before the repair, 789)",
     prog([], [match(tup(L(1), con(52, 0, tup(L(7), tup(L(8), L(9))))),
                     (mt(MW, mc(52, 0, ('pt', [('pv', 1), ('pt', [('pv', 2), ('pv', 3)])]))), add(add(mul(V(1), L(100)), mul(V(2), L(10))), V(3))), (MW, L(0)))],
          types=[(52, [T(F, T(F, F)), None])]), n=2)
case("fixed_MG_global_match_payload_wasm", "repaired MG: a match with a payload binder in a top-level let (WASM gave 0.0 for 4)",
     prog([glet(1, match(con(53, 0, tup(L(1), L(6))), (mc(53, 1, pt(2, 3, 4)), V(2)), (MW, L(4))))], [V(1)], types=[(53, [T(F, F), T(F, F, F)])]), n=2)
case("fixed_MGb_global_match_payload_vm_panic", "repaired MG: the payload binder of a top-level match used in an if (VM compile panic `value reg(N) not found` before the repair)",
     prog([glet(1, match(con(54, 1, L(2)), (mc(54, 0, 2), ('if', V(2), L(1), V(2))), (MW, L(0))))], [V(1)], types=[(54, [F, F])]), n=2)
case("fixed_W10_lambda_returns_sum_self", "repaired W10: a lambda whose result is its own sum-typed self (WASM: invalid module before the repair)",
     prog([fun(1, [], lam([2], let(3, match(('selfs', ('ss', 55, ['N', ('st', ['N', 'N'])])), (mc(55, 0, 4), V(4)), (mc(55, 1, pt(5, 6)), V(5))),
                                   ('selfs', ('ss', 55, ['N', ('st', ['N', 'N'])]))))), glet(7, app(1))],
          [match(app(7, NOW), (mc(55, 0, 4), V(4)), (mc(55, 1, pt(5, 6)), add(mul(V(5), L(100)), V(6))))], types=[(55, [F, T(F, F)])]), n=2)
case("fixed_W10b_lambda_returns_sum_self_vm", "repaired W10: the match on the result of such a lambda takes the arm of the first constructor (the VM took no arm: 0.0 for 1.0)",
     prog([fun(1, [], lam([2], ('selfs', ('ss', 58, [None, ('st', ['N', 'N']), 'N'])))), glet(3, app(1))],
          [match(app(3, L(1)), (mc(58, 0), L(1)), (mc(58, 1, ('pw',)), L(2)), (mc(58, 2, 4), L(3)))], types=[(58, [None, T(F, F), F])]), n=2)
case("fixed_W11_tuple_match_binder_captured", "repaired W11: a closure capturing the payload binder of a constructor pattern inside a tuple pattern (WASM read an address, 5.18e-321 for 7)",
     prog([], [match(tup(con(56, 0, L(7)), L(1)), (mt(mc(56, 0, 1), MW), ('pipe', L(6), lam([2], V(1)))), (MW, L(0)))], types=[(56, [F, None])]), n=2)
case("fixed_W12_self_pattern_var_in_tuple", "repaired W12: | | { let (a, b) = self  (a, b) }: a closure capturing a component of the result (WASM read an address)",
     prog([fun(1, [], lam([], let(pt(2, 3), ('selfs', ('st', ['N', 'N'])), tup(V(2), V(3))))), glet(4, app(1))],
          [let(pt(5, 6), app(4), let(7, lam([8], V(6)), app(7, L(1))))]), n=2)
case("fixed_W13_instance_calls_instance_of_same_lambda", "repaired W13: an instance of a stateful lambda calls another instance of the same lambda (WASM played 2 4 6 for 2 5 9)",
     prog([fun(1, [(2, Fn([F], F), None)], lam([3], add(add(app(2, L(3)), SELF), L(1)))), glet(4, app(1, lam([5], L(0)))), glet(6, app(1, V(4)))],
          [app(6, L(0))]), n=3)
case("fixed_M1c_wildcard_arm_in_the_middle_with_state", "repaired M1: the arms behind a `_` arm are dead, stateful arms before it keep their state",
     prog([fun(1, [(2, F, None)], add(SELF, V(2)))],
          [match(sub(NOW, mul(L(2), ('if', gt(NOW, L(1)), L(1), L(0)))), (ml(0), app(1, L(1))), (MW, app(1, L(10))), (ml(1), app(1, L(100))), (ml(0), L(7)))]), n=6)
case("fixed_M3b_duplicate_constructor_arm", "repaired M3: two arms with the same constructor: the first is taken",
     prog([fun(1, [(2, F, None)], pick50(V(2)))],
          [match(app(1, NOW), (mc(50, 1, 5), V(5)), (mc(50, 1, 6), add(V(6), L(1000))), (mc(50, 0), L(-1)), (MW, L(-2)))], types=[T50]), n=4)
case("fixed_M1d_tuple_of_sums_general_arm_first", "repaired M1: a tuple arm with `_` in a column before an arm with a constructor there",
     prog([fun(1, [(2, F, None)], pick50(V(2)))],
          [match(tup(app(1, NOW), NOW), (mt(MW, ml(1)), L(5)), (mt(mc(50, 1, 5), MW), V(5)), (mt(mc(50, 1, 6), ml(1)), L(77)), (MW, L(-2)))], types=[T50]), n=4)

# ---------------- finding witnesses: the recorded deviation is expected; a change is reported ----------------
case("M2_duplicated_arm_state", "both backends: the `_` arm of a tuple match is compiled once per branch of the decision tree, each copy with its own state (reference 1 200 2 3 200 4 5 200)",
     prog([fun(1, [(2, F, None)], add(SELF, V(2)))],
          [match(tup(sub(NOW, mul(L(3), ('if', gt(NOW, L(5)), L(2), ('if', gt(NOW, L(2)), L(1), L(0))))), L(1)),
                 (mt(ml(0), ml(0)), L(100)), (mt(ml(1), MW), L(200)), (MW, app(1, L(1))))]), n=8, finding="M2")
case("MG_lambda_captures_global_match_binder", "what is left of MG: a lambda in an arm of a top-level match captures the payload binder: VM compile panic `value reg(N) not found`, WASM 1 (reference 3)",
     prog([glet(1, match(con(59, 0, L(2)), (mc(59, 0, 2), ('pipe', L(1), lam([3], add(V(2), V(3))))), (MW, L(0))))], [V(1)], types=[(59, [F, None])]), n=2, finding="MG")
case("W9b_tuple_match_binder_escapes", "what is left of W11 (class W9): the closure over the payload binder of a tuple match ESCAPES: on WASM it holds the address of the payload in the frame of the function and reads what the latest call wrote (reference 601 602 603, WASM 101 202 303)",
     prog([fun(1, [(2, S(60), None)], match(tup(V(2), L(1)), (mt(mc(60, 0, 3), MW), let(4, lam([5], add(V(3), V(5))), V(4))), (MW, let(6, lam([7], V(7)), V(6))))),
           glet(8, app(1, con(60, 0, L(5))))],
          [let(9, app(1, con(60, 0, add(NOW, L(1)))), add(mul(app(8, L(1)), L(100)), app(9, L(1))))], types=[(60, [F, None])]), n=3, finding="W9")
case("PROJ_match_arm_value", "WASM: a projection as the value of a match arm: the OTHER arms give 0.0 (reference 8 4 4)",
     prog([], [let(1, tup(L(7), L(8)), match(NOW, (ml(0), ('proj', V(1), 1)), (MW, L(4))))]), n=3, finding="PROJ")
case("PROJ_constructor_payload", "WASM: a projection as the payload of a constructor stores the address (reference 0)",
     prog([glet(1, tup(L(0), NOW))], [match(con(57, 0, ('proj', V(1), 1)), (mc(57, 0, 2), V(2)), (MW, NOW))], types=[(57, [F, None])]), n=2, finding="PROJ")

case("X1_assign_two_levels", "an assignment to a local from a lambda nested two levels deep is lost (reference 11)",
     prog([], [let(1, L(0), let(2, lam([], let(3, counter(1, L(1)), app(3))), let(4, app(2), add(mul(V(4), L(10)), V(1)))))]), finding="X1")
case("X2_closed_when_passed", "VM: passing a closure as an argument copies its captured cells; frame and closure part ways (reference 1122)",
     prog([fun(9, [(8, Fn([], F), None)], app(8))],
          [let(1, L(0), let(2, counter(1, L(1)), let(3, app(9, V(2)), let(4, V(1), let(5, app(2), let(6, V(1),
               add(add(mul(V(3), L(1000)), mul(V(4), L(100))), add(mul(V(5), L(10)), V(6)))))))))]), finding="X2")
case("X2b_closed_at_inner_scope_exit", "VM: a closure let-bound in an inner block is closed when the block ends; a later assignment through another lambda is lost (reference (0,1))",
     prog([], [app(lam([4, 5], seq(asg(1, L(1)), L(0))), L(0), L(0)), V(1)],
          lets=[(('pv', 1), L(0)), (('pw',), let(2, lam([3], V(1)), L(0)))]), finding="X2")
case("X3_assign_parameter", "WASM ignores an assignment to a parameter (reference 1,2,3)",
     prog([fun(1, [(2, F, None)], seq(asg(2, add(V(2), L(1))), V(2)))], [app(1, NOW)]), finding="X3")
case("X3b_closure_assigns_parameter", "WASM: a closure captures a parameter by value (reference 11,22,33)",
     prog([fun(1, [(2, F, None)], let(3, counter(2, L(1)), let(4, app(3), add(mul(V(4), L(10)), V(2)))))], [app(1, NOW)]), finding="X3")
case("X4_stateful_instance_per_sample", "WASM keys closure state by address: an instance created on every sample inherits the state of the previous one (reference 1,1,1)",
     prog([fun(1, [], add(SELF, L(1))), fun(2, [(3, Fn([], F), None)], app(3))], [app(2, V(1))]), finding="X4")
case("X6_global_scope_stateful_call", "a stateful capture-free lambda applied at top level writes its state into the cells of dsp (reference 0,-1,-1)",
     prog([glet(1, app(lam([2], add(SELF, L(1))), L(0)))], [('mem', L(-1))]), finding="X6")
case("fixed_W5_capture_pattern_variable", "a closure captures a pattern-bound local (WASM read the bits of a pointer before /repo 5e67a0a)",
     prog([], [let(pt(1, 2), tup(L(1), L(2)), let(3, lam([], add(V(1), V(2))), app(3)))]))
case("PROJ_if_condition", "WASM (C01/F46 and relatives): a projection used directly as an if condition (reference 1)",
     prog([], [let(1, L(0), ('if', ('fld', ('rec', [(4, V(1)), (7, L(-1))]), 7), L(0), L(1)))]), finding="PROJ")
case("W7_closure_from_global_pattern", "WASM: a stateful closure bound by a top-level tuple pattern runs on the state of dsp (reference 0,0,1,1)",
     prog([fun(1, [], tup(lam([2], ('mem', L(1))), L(0))), glet(pt(3, ('pw',)), app(1))], [('mem', app(3, NOW))]), finding="W7")
case("W8_capturing_closure_in_local_tuple", "WASM: a capturing closure stored in a local tuple and called through the projection (reference 3)",
     prog([], [let(1, L(1), let(2, tup(L(0), lam([3], add(V(3), V(1)))), app(('proj', V(2), 1), L(2))))]), finding="W8")
case("W9_two_counters_one_maker", "WASM: closures made by different calls of one function share the captured let-bound cells (reference 101,202,303)",
     prog([fun(1, [], let(2, L(0), counter(2, L(1)))), glet(3, app(1)), glet(4, app(1))], [add(mul(app(3), L(100)), app(4))]), finding="W9")
case("V1_capture_after_aggregate_parameter", "VM: a closure capturing a parameter that follows a tuple parameter reads a word of the tuple (reference 7)",
     prog([fun(1, [(2, ('T', [F, F]), None), (3, F, None)], add(app(lam([4, 5], L(0)), L(5), L(0)), app(lam([6, 7], V(3)), L(0), L(0))))],
          [app(1, tup(L(0), L(1)), L(7))]), finding="V1")
case("R5_capture_free_stateful_lambda_applied", "a capture-free stateful lambda applied in place is a function constant for the compiler: the call site keeps state across samples (reference: a new instance every sample, 0,0,0,0)",
     prog([], [app(lam([1], ('mem', V(1))), NOW)]), finding="R5")
case("R5b_capture_free_stateful_lambda_let_bound", "a capture-free stateful lambda bound by a local let: every mention is a new instance on the VM (reference 0,1 -> 1 at sample 0)",
     prog([fun(1, [], let(2, lam([3], ('mem', V(3))), lam([], add(mul(app(2, L(1)), L(10)), app(2, L(2)))))), glet(4, app(1))], [app(4)]), finding="R5")

if __name__ == "__main__":
    rc, out, _ = vplib.coq_make([lmmx.EXTRACT_TARGET]); assert rc == 0, out[-2000:]
    rc, out, mexe = vplib.ocaml_build("lmmx_drv", ["lmmx_model"], os.path.join(vplib.VERIF, "ocaml", "lmmx_drv.ml")); assert rc == 0, out
    rc, out, bindir = vplib.cargo_build("lang", ["lmmm_run"]); assert rc == 0, out[-2000:]
    iexe = os.path.join(bindir, "lmmm_run")
    for c in CASES:
        want = {c["finding"]} if c["finding"] not in (None, "R5", "X4", "X1", "X2", "X3", "X6", "W8") else None
        got = lmmx.known_classes(c["prog"])
        if want is not None and not (want <= got):
            print("!!! class predicate of %s does not hold for its witness %s (classes: %s)" % (c["finding"], c["name"], sorted(got)))
    cs = [(c["prog"], c["rows"]) for c in CASES]
    mres = lmmx.run_model(mexe, cs)
    reqs = lmmx.impl_requests(cs)
    for r in reqs: r["isolate"] = True
    ires = lmmx.run_impl(iexe, reqs)
    out = []
    for c, m, r in zip(CASES, mres, ires):
        assert 'ref' in m, (c["name"], m)
        ref = m['ref']
        rec = dict(c, ref=ref, dyn_stateful=m['dyn_stateful'], source=lmmx.pp_prog(c["prog"]))
        for be in ("vm", "wasm"):
            b = lmmx.backend_rows(r.get(be), len(c["rows"])) if 'crash' not in r else ('crash', r['crash'])
            if b[0] == 'ok' and b[1] == [[float(v) for v in row] for row in ref]:
                rec[be] = "ref"
            elif b[0] == 'ok':
                rec[be] = b[1]
            else:
                rec[be] = [b[0]] + [str(x) for x in b[1:]]
        flag = "" if (rec["vm"] == "ref" and rec["wasm"] == "ref") else "   <-- deviates"
        if (c["finding"] is None) != (flag == ""):
            flag += "   !!! UNEXPECTED"
        print("%-45s ref=%s vm=%s wasm=%s%s" % (c["name"], [x[0] if len(x) == 1 else x for x in ref][:4], str(rec["vm"])[:40], str(rec["wasm"])[:40], flag))
        out.append(rec)
        head = "// %s\n// %s\n// reference: %s\n// vm: %s\n// wasm: %s\n" % (c["name"], c["note"], json.dumps(ref), json.dumps(rec["vm"]), json.dumps(rec["wasm"]))
        d = os.path.join(HERE, "findings" if c["finding"] else "probes")
        os.makedirs(d, exist_ok=True)
        open(os.path.join(d, c["name"] + ".mmm"), "w").write(head + rec["source"])
    json.dump(out, open(os.path.join(HERE, "cases.json"), "w"), indent=1)
    print("wrote", len(out), "cases")
