#!/usr/bin/env python3
"""Builds corpus/lmmx/cases.json and corpus/lmmx/*.mmm from hand-written ASTs (the probe programs used to discover the
rules of coq/theories/Lmmx/Ref.v).  Run:  python3 corpus/lmmx/build_corpus.py   (needs the built model driver and harness;
records the CURRENT answers of the reference semantics and of both real backends; review the diff before keeping it).

Each case: name, note, prog (lmmx AST), rows, ref (reference outputs), vm / wasm: "ref" (must equal the reference) or the
recorded deviating answer, finding: id of the finding the case witnesses (None for regular cases)."""
import json, os, sys
HERE = os.path.dirname(os.path.abspath(__file__))
sys.path.insert(0, os.path.join(HERE, "..", "..", "lib"))
import vplib, lmmx

def L(z): return ('lit', z)
def V(x): return ('var', x)
NOW = ('now',); SELF = ('self',)
def B(op, a, b): return ('bin', op, a, b)
def add(a, b): return B('add', a, b)
def mul(a, b): return B('mul', a, b)
def let(x, a, b): return ('let', ('pv', x) if isinstance(x, int) else x, a, b)
def lam(ps, body): return ('lam', [(x, None) if isinstance(x, int) else x for x in ps], body)
def app(f, *args): return ('app', V(f) if isinstance(f, int) else f, list(args))
def asg(x, e): return ('asg', x, e)
def seq(*es):
    e = es[-1]
    for s in reversed(es[:-1]): e = ('seq', s, e)
    return e
def tup(*es): return ('tup', list(es))
def pt(*ps): return ('pt', [('pv', x) if isinstance(x, int) else x for x in ps])
def fun(name, params, body): return ('fun', name, [(p if isinstance(p, tuple) else (p, None, None)) for p in params], body, None)
def glet(x, e): return ('glet', ('pv', x) if isinstance(x, int) else x, e)
def prog(globals_, outs, lets=(), inputs=()): return {"globals": list(globals_), "inputs": list(inputs), "lets": list(lets), "outs": list(outs)}
F = 'F'
def Fn(ps, r): return ('Fn', list(ps), r)
# counter body  | | { c = c + step ; c }
def counter(c, step): return lam([], seq(asg(c, add(V(c), step)), V(c)))

CASES = []
def case(name, note, p, n=6, finding=None, rows=None):
    CASES.append({"name": name, "note": note, "prog": p, "rows": rows if rows is not None else [[] for _ in range(n)], "finding": finding})

# ---------------- regular cases: both backends must equal the reference ----------------
case("direct_sites", "rule D: two textual call sites of a stateful function own separate state",
     prog([fun(1, [2], add(SELF, V(2)))], [add(app(1, L(1)), app(1, L(10)))]))
case("capture_readonly", "rule V: a lambda reads a local of its frame",
     prog([], [let(1, L(1), let(2, lam([3], add(V(3), V(1))), app(2, L(2))))]))
case("counter_global", "rule I/V: an escaping closure assigns its captured cell; the instance lives in a global",
     prog([fun(1, [], let(2, L(0), counter(2, L(1)))), glet(3, app(1))], [app(3)]))
case("capture_sees_later_assignment", "rule V: by reference: the frame assigns after the lambda was created",
     prog([], [let(1, L(1), let(2, lam([3], add(V(3), V(1))), seq(asg(1, L(10)), app(2, L(0)))))]))
case("frame_sees_closure_assignment", "rule V: the frame sees the assignments of a closure it calls (and vice versa)",
     prog([], [let(1, L(0), let(2, counter(1, L(1)),
               let(3, app(2), let(4, V(1), seq(asg(1, L(5)), let(5, app(2), let(6, V(1),
               add(add(mul(V(3), L(1000)), mul(V(4), L(100))), add(mul(V(5), L(10)), V(6))))))))))]))
case("shared_cell_two_closures", "rule V: two escaping closures share the cell of the variable they both capture",
     prog([fun(1, [], let(2, L(0), tup(counter(2, L(1)), lam([], V(2))))), glet(3, app(1))],
          [let(pt(4, 5), V(3), let(6, app(4), let(7, app(4), add(add(mul(V(6), L(100)), mul(V(7), L(10))), app(5)))))]))
case("global_assign", "a global variable assigned by a function called from dsp",
     prog([glet(1, L(4)), fun(2, [], seq(asg(1, add(V(1), L(1))), V(1)))], [let(3, app(2), add(mul(V(3), L(100)), V(1)))]))
case("record_field_order", "rule O: record fields are evaluated in alphabetical order of their names",
     prog([], [let(1, L(0), let(2, counter(1, L(1)),
               let(3, ('rec', [(2, app(2)), (1, app(2)), (0, app(2))]),
                   add(add(mul(('fld', V(3), 2), L(100)), mul(('fld', V(3), 1), L(10))), ('fld', V(3), 0)))))]))
case("hof_named_stateful_instance", "rule I: a named stateful function passed as a value is an instance; f() + f() share it; two instances are separate",
     prog([fun(1, [], add(SELF, L(1))), fun(2, [(3, Fn([], F), None)], lam([], add(app(3), app(3)))),
           glet(4, app(2, V(1))), glet(5, app(2, V(1)))], [add(mul(app(4), L(100)), app(5))]))
case("instance_with_capture_shares_state", "rule I: calls through the same instance share its state (mem sees the previous call)",
     prog([fun(1, [], let(2, L(0), let(3, lam([4], add(('mem', V(4)), V(2))), lam([], add(mul(app(3, L(1)), L(10)), app(3, L(2))))))),
           glet(5, app(1))], [app(5)]))
case("direct_calls_inside_closure", "rule D inside an instance: direct call sites in a closure body own state in the instance",
     prog([fun(1, [], add(SELF, L(1))), fun(2, [], let(9, L(0), lam([], add(add(mul(app(1), L(10)), app(1)), V(9))))), glet(3, app(2))],
          [add(app(3), mul(app(1), L(100)))]))
case("stateful_lambda_self", "rule S: self of a lambda is the previous return value of the instance",
     prog([fun(1, [2], lam([3], add(add(SELF, V(3)), V(2)))), glet(4, app(1, L(0)))], [app(4, L(2))]))
case("pipe", "rule O: a |> f is f(a)",
     prog([fun(1, [2], mul(V(2), L(2)))], [('pipe', ('pipe', L(3), V(1)), lam([4], add(V(4), L(100))))]))
case("named_args_defaults", "rule N: missing parameters take their defaults, evaluated at call time",
     prog([glet(1, L(4)), fun(2, [(3, F, None), (4, F, add(V(1), L(1)))], add(mul(V(3), L(10)), V(4)))],
          [('cnamed', 2, [(3, L(1))]), ('cnamed', 2, [(3, L(2)), (4, L(7))])], lets=[(('pw',), asg(1, add(V(1), L(1))))]))
case("tuple_record_destructuring", "nested tuple / record patterns and projections",
     prog([], [let(1, ('rec', [(0, L(1)), (1, tup(L(2), L(3)))]),
               let(('pr', [(0, ('pv', 2)), (1, pt(3, 4))]), V(1),
               let(5, tup(('fld', V(1), 0), ('proj', ('fld', V(1), 1), 1)),
                   add(add(mul(V(2), L(100)), mul(V(3), L(10))), add(V(4), mul(('proj', V(5), 1), L(1000)))))))]))
case("closure_created_each_sample_stateless", "an instance created on every sample (stateless) over a dsp input",
     prog([fun(1, [(2, Fn([F], F), None), (3, F, None)], app(2, app(2, V(3))))], [app(1, lam([5], add(V(5), V(4))), L(1))],
          inputs=[4]), rows=[[1], [2], [3], [-1]])
case("maker_of_param_capturing_closures", "closures capturing only parameters: one maker, several instances",
     prog([fun(1, [2], lam([3], add(mul(V(2), L(10)), add(V(3), SELF)))), glet(4, app(1, L(1))), glet(5, app(1, L(2)))],
          [add(mul(app(4, L(1)), L(1000)), app(5, L(2)))]))
case("nested_read_two_levels", "a lambda two levels down READS a local of the outer frame",
     prog([], [let(1, L(0), let(2, lam([], let(3, lam([], add(V(1), L(1))), app(3))), seq(asg(1, L(5)), app(2))))]))
case("if_arm_state_in_closure", "stateful constructs in if arms inside an instance",
     prog([fun(1, [2], add(SELF, V(2))), fun(3, [], let(9, L(1), lam([4], ('if', V(4), app(1, L(1)), add(app(1, L(10)), V(9)))))), glet(5, app(3))],
          [app(5, B('lt', NOW, L(3)))], ), n=8)

# ---------------- finding witnesses: the recorded deviation is expected; a change is reported ----------------
case("X1_assign_two_levels", "an assignment to a local from a lambda nested two levels deep is lost (reference 11)",
     prog([], [let(1, L(0), let(2, lam([], let(3, counter(1, L(1)), app(3))), let(4, app(2), add(mul(V(4), L(10)), V(1)))))]), finding="X1")
case("X2_closed_when_passed", "VM: passing a closure as an argument copies its captured cells; frame and closure part ways (reference 1122)",
     prog([fun(9, [(8, Fn([], F), None)], app(8))],
          [let(1, L(0), let(2, counter(1, L(1)), let(3, app(9, V(2)), let(4, V(1), let(5, app(2), let(6, V(1),
               add(add(mul(V(3), L(1000)), mul(V(4), L(100))), add(mul(V(5), L(10)), V(6)))))))))]), finding="X2")
case("X2b_closed_at_inner_scope_exit", "VM: a closure let-bound in an inner block is closed when the block ends; a later assignment through another lambda is lost (reference (0,1))",
     prog([], [app(lam([4, 5], seq(asg(1, L(1)), L(0))), L(0), L(0)), V(1)],
          lets=[(('pv', 1), L(0)), (('pw',), let(2, lam([3], V(1)), L(0)))]), finding="X2")
case("X3_assign_parameter", "WASM ignores an assignment to a parameter (reference 1,2,3)",
     prog([fun(1, [(2, F, None)], seq(asg(2, add(V(2), L(1))), V(2)))], [app(1, NOW)]), finding="X3")
case("X3b_closure_assigns_parameter", "WASM: a closure captures a parameter by value (reference 11,22,33)",
     prog([fun(1, [(2, F, None)], let(3, counter(2, L(1)), let(4, app(3), add(mul(V(4), L(10)), V(2)))))], [app(1, NOW)]), finding="X3")
case("X4_stateful_instance_per_sample", "WASM keys closure state by address: an instance created on every sample inherits the state of the previous one (reference 1,1,1)",
     prog([fun(1, [], add(SELF, L(1))), fun(2, [(3, Fn([], F), None)], app(3))], [app(2, V(1))]), finding="X4")
case("X6_global_scope_stateful_call", "a stateful capture-free lambda applied at top level writes its state into the cells of dsp (reference 0,-1,-1)",
     prog([glet(1, app(lam([2], add(SELF, L(1))), L(0)))], [('mem', L(-1))]), finding="X6")
case("fixed_W5_capture_pattern_variable", "a closure captures a pattern-bound local (WASM read the bits of a pointer before /repo 5e67a0a)",
     prog([], [let(pt(1, 2), tup(L(1), L(2)), let(3, lam([], add(V(1), V(2))), app(3)))]))
case("PROJ_if_condition", "WASM (C01/F46 and relatives): a projection used directly as an if condition (reference 1)",
     prog([], [let(1, L(0), ('if', ('fld', ('rec', [(4, V(1)), (7, L(-1))]), 7), L(0), L(1)))]), finding="PROJ")
case("W7_closure_from_global_pattern", "WASM: a stateful closure bound by a top-level tuple pattern runs on the state of dsp (reference 0,0,1,1)",
     prog([fun(1, [], tup(lam([2], ('mem', L(1))), L(0))), glet(pt(3, ('pw',)), app(1))], [('mem', app(3, NOW))]), finding="W7")
case("W8_capturing_closure_in_local_tuple", "WASM: a capturing closure stored in a local tuple and called through the projection (reference 3)",
     prog([], [let(1, L(1), let(2, tup(L(0), lam([3], add(V(3), V(1)))), app(('proj', V(2), 1), L(2))))]), finding="W8")
case("W9_two_counters_one_maker", "WASM: closures made by different calls of one function share the captured let-bound cells (reference 101,202,303)",
     prog([fun(1, [], let(2, L(0), counter(2, L(1)))), glet(3, app(1)), glet(4, app(1))], [add(mul(app(3), L(100)), app(4))]), finding="W9")
case("V1_capture_after_aggregate_parameter", "VM: a closure capturing a parameter that follows a tuple parameter reads a word of the tuple (reference 7)",
     prog([fun(1, [(2, ('T', [F, F]), None), (3, F, None)], add(app(lam([4, 5], L(0)), L(5), L(0)), app(lam([6, 7], V(3)), L(0), L(0))))],
          [app(1, tup(L(0), L(1)), L(7))]), finding="V1")
case("R5_capture_free_stateful_lambda_applied", "a capture-free stateful lambda applied in place is a function constant for the compiler: the call site keeps state across samples (reference: a new instance every sample, 0,0,0,0)",
     prog([], [app(lam([1], ('mem', V(1))), NOW)]), finding="R5")
case("R5b_capture_free_stateful_lambda_let_bound", "a capture-free stateful lambda bound by a local let: every mention is a new instance on the VM (reference 0,1 -> 1 at sample 0)",
     prog([fun(1, [], let(2, lam([3], ('mem', V(3))), lam([], add(mul(app(2, L(1)), L(10)), app(2, L(2)))))), glet(4, app(1))], [app(4)]), finding="R5")

if __name__ == "__main__":
    rc, out, _ = vplib.coq_make([lmmx.EXTRACT_TARGET]); assert rc == 0, out[-2000:]
    rc, out, mexe = vplib.ocaml_build("lmmx_drv", ["lmmx_model"], os.path.join(vplib.VERIF, "ocaml", "lmmx_drv.ml")); assert rc == 0, out
    rc, out, bindir = vplib.cargo_build("lang", ["lmmm_run"]); assert rc == 0, out[-2000:]
    iexe = os.path.join(bindir, "lmmm_run")
    cs = [(c["prog"], c["rows"]) for c in CASES]
    mres = lmmx.run_model(mexe, cs)
    reqs = lmmx.impl_requests(cs)
    for r in reqs: r["isolate"] = True
    ires = lmmx.run_impl(iexe, reqs)
    out = []
    for c, m, r in zip(CASES, mres, ires):
        assert 'ref' in m, (c["name"], m)
        ref = m['ref']
        rec = dict(c, ref=ref, dyn_stateful=m['dyn_stateful'], source=lmmx.pp_prog(c["prog"]))
        for be in ("vm", "wasm"):
            b = lmmx.backend_rows(r.get(be), len(c["rows"])) if 'crash' not in r else ('crash', r['crash'])
            if b[0] == 'ok' and b[1] == [[float(v) for v in row] for row in ref]:
                rec[be] = "ref"
            elif b[0] == 'ok':
                rec[be] = b[1]
            else:
                rec[be] = [b[0]] + [str(x) for x in b[1:]]
        flag = "" if (rec["vm"] == "ref" and rec["wasm"] == "ref") else "   <-- deviates"
        if (c["finding"] is None) != (flag == ""):
            flag += "   !!! UNEXPECTED"
        print("%-45s ref=%s vm=%s wasm=%s%s" % (c["name"], [x[0] if len(x) == 1 else x for x in ref][:4], str(rec["vm"])[:40], str(rec["wasm"])[:40], flag))
        out.append(rec)
        head = "// %s\n// %s\n// reference: %s\n// vm: %s\n// wasm: %s\n" % (c["name"], c["note"], json.dumps(ref), json.dumps(rec["vm"]), json.dumps(rec["wasm"]))
        d = os.path.join(HERE, "findings" if c["finding"] else "probes")
        os.makedirs(d, exist_ok=True)
        open(os.path.join(d, c["name"] + ".mmm"), "w").write(head + rec["source"])
    json.dump(out, open(os.path.join(HERE, "cases.json"), "w"), indent=1)
    print("wrote", len(out), "cases")
