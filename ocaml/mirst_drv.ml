(* line-protocol driver for the extracted static checker of the state layer of MIR (coq/theories/Mirst/Model.v).
   stdin : the output of harness/lang/src/bin/mir_dump.rs, i.e. per program a block
             @@BEGIN <id> ok|err ..|panic / F <idx> <label> <skeleton> / B <i> / I <dst|-> <Name> <numbers..> / T .. / @@END <id>
           and, added by checks/mir_part.py before @@END, observed access traces of the real VM, one dsp call per line:
             S <cdepth> <k>:<pos>:<size>:<storage length> ...     k = g (get_state) | s (get_state_mut) | d (ring buffer);
                                                        cdepth = how deep calls of closures (own storages) may nest
           (each must be the trace of some path of the first function labelled dsp: Mirst_model.accepts_trace)
   stdout: one line per block
             #<id> accept <nfuns> <nblocks> <nevents> strict|shared [traces <n ok> [mismatch <index of the first S line that is no path>]]
                  (shared: accepted, but some call runs on cells its caller publishes for other sites: check_prog_strict = false)
             #<id> reject <index of the first rejected function> <label>
             #<id> skip <status>                  (the compiler rejected the source or panicked: nothing to check)
             #<id> malformed <message>            (the dump itself cannot be parsed)
   Only parsing happens here; classification of instruction names into `rinstr` is the table `instr_of` below, everything
   else (callee resolution, erasure, the walk) is Mirst_model (extracted). *)
open Mirst_model

let rec nat_of_int i = if i <= 0 then O else S (nat_of_int (i - 1))
let rec int_of_nat = function O -> 0 | S n -> 1 + int_of_nat n
let rec pos_of_int i = if i <= 1 then XH else if i land 1 = 1 then XI (pos_of_int (i lsr 1)) else XO (pos_of_int (i lsr 1))
let n_of_int i = if i <= 0 then N0 else Npos (pos_of_int i)

exception Bad of string

let parse_skel (s : string) : skel =
  let pos = ref 0 in
  let len = String.length s in
  let peek () = if !pos < len then s.[!pos] else '\000' in
  let skip () = while peek () = ' ' do incr pos done in
  let num () =
    let st = !pos in
    while peek () >= '0' && peek () <= '9' do incr pos done;
    if st = !pos then raise (Bad "number expected in skeleton");
    n_of_int (int_of_string (String.sub s st (!pos - st))) in
  let rec sk () =
    skip ();
    match peek () with
    | 'D' -> incr pos; Delay (num ())
    | 'M' -> incr pos; Mem (num ())
    | 'E' -> incr pos; Feed (num ())
    | '[' ->
        incr pos;
        let rec go acc = skip (); if peek () = ']' then (incr pos; List.rev acc) else (let c = sk () in go (c :: acc)) in
        FnCall (go [])
    | _ -> raise (Bad ("bad skeleton: " ^ s)) in
  let r = sk () in
  skip ();
  if !pos <> len then raise (Bad ("trailing text in skeleton: " ^ s));
  r

let num s = match int_of_string_opt s with Some i when i >= 0 -> n_of_int i | _ -> raise (Bad ("number expected: " ^ s))

let callee_of (s : string) : callee =
  let l = String.length s in
  if s = "ext" then CExt
  else if l > 1 && s.[0] = 'r' then CReg (num (String.sub s 1 (l - 1)))
  else if l > 2 && String.sub s 0 2 = "fn" then CFn (num (String.sub s 2 (l - 2)))
  else COtherV

(* instruction name (variant name of mir::Instruction) + the numbers printed by mir_dump -> rinstr *)
let instr_of (name : string) (args : string list) : rinstr =
  match name, args with
  | "Uinteger", [u] -> RUinteger (num u)
  | "PushStateOffset", [n] -> RPush (num n)
  | "PopStateOffset", [n] -> RPop (num n)
  | "GetState", [w] -> RGetState (num w)
  | "ReturnFeed", [w] -> RReturnFeed (num w)
  | "Delay", [l] -> RDelay (num l)
  | "Mem", [] -> RMem
  | "Call", [c] -> RCall (callee_of c)
  | "CallCls", [c] -> RCallCls (callee_of c)
  | "CallIndirect", [c] -> RCallIndirect (callee_of c)
  | "JmpIf", [t; e; m] -> RJmpIf (num t, num e, num m)
  | "Switch", m :: d :: k :: cases ->
      if int_of_string_opt k <> Some (List.length cases) then raise (Bad "Switch: case count");
      RSwitch (num m, (if d = "-" then None else Some (num d)), List.map num cases)
  | "Jmp", _ -> RJmp
  | "Return", [] -> RReturn
  | ("Uinteger" | "PushStateOffset" | "PopStateOffset" | "GetState" | "ReturnFeed" | "Delay" | "Mem" | "Call" | "CallCls"
    | "CallIndirect" | "JmpIf" | "Switch" | "Return"), _ -> raise (Bad ("unexpected operands of " ^ name))
  | _, _ -> ROther

type pfun = { idx : int; label : string; sk : skel; mutable blocks : (n option * rinstr) list list }

let words l = List.filter (fun x -> x <> "") (String.split_on_char ' ' l)

let judge (id : string) (status : string) (lines : string list) : string =
  if not (String.length status >= 2 && String.sub status 0 2 = "ok") then Printf.sprintf "#%s skip %s" id status
  else
    try
      let funs = ref [] in
      List.iter (fun l ->
        if String.length l < 2 then ()
        else match l.[0] with
        | 'F' ->
            (match String.split_on_char ' ' l with
             | "F" :: i :: label :: rest ->
                 funs := { idx = int_of_string i; label; sk = parse_skel (String.concat " " rest); blocks = [] } :: !funs
             | _ -> raise (Bad ("bad F line: " ^ l)))
        | 'B' -> (match !funs with f :: _ -> f.blocks <- [] :: f.blocks | [] -> raise (Bad "B before F"))
        | 'I' ->
            (match words l, !funs with
             | "I" :: d :: name :: args, f :: _ ->
                 (match f.blocks with
                  | b :: r -> f.blocks <- (((if d = "-" then None else Some (num d)), instr_of name args) :: b) :: r
                  | [] -> raise (Bad "I before B"))
             | _ -> raise (Bad ("bad I line: " ^ l)))
        | _ -> ()) lines;
      let fl = List.rev !funs in
      List.iteri (fun i f -> if f.idx <> i then raise (Bad "function indices are not 0,1,2,..")) fl;
      let rp = List.map (fun f -> { rf_skel = f.sk; rf_blocks = List.rev_map List.rev f.blocks }) fl in
      let p = erase rp in
      if check_prog p then begin
        let head = Printf.sprintf "#%s accept %d %d %d %s" id (List.length p)
          (List.fold_left (fun a f -> a + List.length f.f_blocks) 0 p)
          (List.fold_left (fun a f -> List.fold_left (fun a b -> a + List.length b) a f.f_blocks) 0 p)
          (if check_prog_strict p then "strict" else "shared") in
        let samples = List.filter (fun l -> String.length l >= 1 && l.[0] = 'S') lines in
        if samples = [] then head
        else begin
          let dsp = List.find_opt (fun (f, _) -> f.label = "dsp") (List.combine fl p) in
          match dsp with
          | None -> head ^ " traces 0 mismatch -1"
          | Some (_, df) ->
              let obs_of w =
                match String.split_on_char ':' w with
                | [k; pos; sz; len] ->
                    ({ a_kind = (match k with "g" -> KGet | "s" -> KSet | "d" -> KDelay
                                             | _ -> raise (Bad ("access kind " ^ k)));
                       a_pos = num pos; a_size = num sz }, num len)
                | _ -> raise (Bad ("bad access " ^ w)) in
              let ok = ref 0 and bad = ref (-1) in
              List.iteri (fun i l ->
                match words l with
                | "S" :: cd :: ws ->
                    if accepts_trace (nat_of_int 200) p (nat_of_int (int_of_string cd)) df N0 (List.map obs_of ws) then incr ok
                    else if !bad < 0 then bad := i
                | _ -> raise (Bad "bad S line")) samples;
              head ^ Printf.sprintf " traces %d" !ok ^ (if !bad >= 0 then Printf.sprintf " mismatch %d" !bad else "")
        end
      end
      else
        match first_rejected false (List.map (fun f -> f.f_skel) p) O p with
        | Some i -> let k = int_of_nat i in Printf.sprintf "#%s reject %d %s" id k (List.nth fl k).label
        | None -> Printf.sprintf "#%s reject -1 ?" id
    with
    | Bad m -> Printf.sprintf "#%s malformed %s" id m
    | Failure m -> Printf.sprintf "#%s malformed %s" id m

let () =
  let cur = ref None in
  (try
    while true do
      let l = input_line stdin in
      if String.length l >= 8 && String.sub l 0 8 = "@@BEGIN " then begin
        match String.split_on_char ' ' l with
        | _ :: id :: rest -> cur := Some (id, String.concat " " rest, [])
        | _ -> ()
      end else if String.length l >= 5 && String.sub l 0 5 = "@@END" then begin
        (match !cur with
         | Some (id, st, ls) -> print_endline (judge id st (List.rev ls))
         | None -> ());
        cur := None
      end else
        match !cur with
        | Some (id, st, ls) -> cur := Some (id, st, l :: ls)
        | None -> ()
    done
  with End_of_file -> ());
  flush stdout
