(* line-protocol driver for the extracted models of the runtime primitives (coq/theories/Prims/{Spec,Vm,Wasm}.v), C01.
   Same input syntax as harness/lang/src/bin/prims_run.rs:

     case  := 'S=' state_size ';N=' now ';R=' sr_hex (';' op)*
     val   := 'n' hex | 'h' k | 'a' k            a number (u64 bit pattern) | k-th heap handle | k-th array handle
     op    := HA:size | BA:vals | RT:val | RL:val | LD:val:size | ST:val:vals
            | PU:int | PO:int | SG:size | SS:hexes | SD:hex:hex:maxlen | SM:hex
            | AN:esz:vals | AG:val:idxhex:esz | AS:val:idxhex:vals:esz | AL:val | NW | SR
            | TG:val:idxhex:esz | TS:val:idxhex:vals:esz      (VM only: the trait methods array_get_elem / array_set_elem)
            | UC:vals:ty | UR:vals:ty                         (usersum_clone / usersum_release of the value `vals` with type
                                                               number ty of the case's type table; not part of the contract
                                                               language: answered '-' by spec)
     header may carry  Y=ty~ty~..   the type table:  ty := N<k> | B(ty) | A<name> | S<name>(var/var/..) | T(ty/ty/..)   var := - | ty
     vals  := val (',' val)* | ''        hexes := hex (',' hex)* | ''

   answer := '#' id ' spec=' res* '|vm=' res* '|wasm=' res* '|vmst=' words '@' pos '|wast=' words '@' pos
             '|pv=' flags '|pw=' flags        (flags: per step of the specification's run, 1 = the extracted vm_pre /
                                               wasm_pre holds there, the hypotheses of the refinement theorems)
     res (separated by ';'):  u | H<k> | A<k> | v<vals> | h<hex> | w<hexes> | c<n> | i | Fh | Fr | Fu | Fs | -
   Each of the three runs stops after its first fault.  TG / TS are answered '-' by spec and wasm. *)
open Prims_model

let rec p_of_int i = if i = 1 then XH else if i land 1 = 0 then XO (p_of_int (i / 2)) else XI (p_of_int (i / 2))
let n_of_int i = if i <= 0 then N0 else Npos (p_of_int i)
let rec nat_of_int i = if i <= 0 then O else S (nat_of_int (i - 1))
let rec int_of_nat = function O -> 0 | S n -> 1 + int_of_nat n
let z_of_int i = if i = 0 then Z0 else if i > 0 then Zpos (p_of_int i) else Zneg (p_of_int (-i))

(* u64 values do not fit an OCaml int: go through the bits *)
let n_of_hex (s : string) : n =
  (* most significant digit first; build the positive from the least significant bit outward *)
  let bits = ref [] in
  String.iter (fun c ->
    let d = match c with
      | '0'..'9' -> Char.code c - 48 | 'a'..'f' -> Char.code c - 87 | 'A'..'F' -> Char.code c - 55
      | _ -> failwith ("bad hex digit in " ^ s) in
    bits := (d land 1 = 1) :: (d land 2 = 2) :: (d land 4 = 4) :: (d land 8 = 8) :: !bits) s;
  (* !bits: least significant bit first *)
  let rec strip = function [] -> [] | false :: r -> strip r | l -> l in
  let msb_first = strip (List.rev !bits) in
  match msb_first with
  | [] -> N0
  | _ :: rest -> Npos (List.fold_left (fun p b -> if b then XI p else XO p) XH rest)

let hex_of_n (x : n) : string =
  match x with
  | N0 -> "0"
  | Npos p ->
      let rec bits p acc = match p with XH -> true :: acc | XO q -> bits q (false :: acc) | XI q -> bits q (true :: acc) in
      (* bits p [] : most significant first?  XH is the top bit and is reached last, so acc ends msb first *)
      let l = bits p [] in
      let n = List.length l in
      let pad = (4 - n mod 4) mod 4 in
      let l = List.init pad (fun _ -> false) @ l in
      let b = Buffer.create 16 in
      let rec go = function
        | b3 :: b2 :: b1 :: b0 :: r ->
            let d = (if b3 then 8 else 0) + (if b2 then 4 else 0) + (if b1 then 2 else 0) + (if b0 then 1 else 0) in
            Buffer.add_char b "0123456789abcdef".[d]; go r
        | _ -> () in
      go l; Buffer.contents b

let dec_of_n (x : n) : string =
  (* counts are small *)
  let rec ip = function XH -> 1 | XO p -> 2 * ip p | XI p -> 2 * ip p + 1 in
  match x with N0 -> "0" | Npos p -> string_of_int (ip p)

exception Bad of string

let split c s = if s = "" then [] else String.split_on_char c s

let parse_val (s : string) : val0 =
  if s = "" then raise (Bad "empty value");
  let r = String.sub s 1 (String.length s - 1) in
  match s.[0] with
  | 'n' -> VNum (n_of_hex r)
  | 'h' -> VHeap (nat_of_int (int_of_string r))
  | 'a' -> VArr (nat_of_int (int_of_string r))
  | _ -> raise (Bad ("bad value " ^ s))

let parse_vals s = List.map parse_val (split ',' s)
let parse_hexes s = List.map n_of_hex (split ',' s)

type item = Op of op | TG of val0 * n * n | TS of val0 * n * val0 list * n
          | UC of val0 list * n | UR of val0 list * n

(* types:  N<k> | B(ty) | A<name> | S<name>(var/var/..) | T(ty/ty/..) *)
let parse_sty (s : string) : sty =
  let pos = ref 0 in
  let len = String.length s in
  let peek () = if !pos < len then s.[!pos] else '\000' in
  let eat c = if peek () = c then incr pos else raise (Bad (Printf.sprintf "type: expected %c at %d in %s" c !pos s)) in
  let num () =
    let st = !pos in
    while peek () >= '0' && peek () <= '9' do incr pos done;
    if st = !pos then raise (Bad ("type: number expected in " ^ s));
    n_of_int (int_of_string (String.sub s st (!pos - st))) in
  let rec ty () =
    let c = peek () in
    incr pos;
    match c with
    | 'N' -> TyNum (num ())
    | 'A' -> TyAlias (num ())
    | 'B' -> eat '('; let t = ty () in eat ')'; TyBoxed t
    | 'S' ->
        let name = num () in
        eat '(';
        let var () = if peek () = '-' then (incr pos; None) else Some (ty ()) in
        let rec go acc = let v = var () in if peek () = '/' then (incr pos; go (v :: acc)) else List.rev (v :: acc) in
        let l = if peek () = ')' then [] else go [] in
        eat ')'; TySum (name, l)
    | 'T' ->
        eat '(';
        let rec go acc = let t = ty () in if peek () = '/' then (incr pos; go (t :: acc)) else List.rev (t :: acc) in
        let l = if peek () = ')' then [] else go [] in
        eat ')'; TyTuple l
    | _ -> raise (Bad ("type: bad character in " ^ s)) in
  ty ()

let parse_op (s : string) : item =
  match String.split_on_char ':' s with
  | [ "HA"; sz ] -> Op (OHeapAlloc (n_of_int (int_of_string sz)))
  | [ "BA"; vs ] -> Op (OBoxAlloc (parse_vals vs))
  | [ "RT"; v ] -> Op (OHeapRetain (parse_val v))
  | [ "RL"; v ] -> Op (OHeapRelease (parse_val v))
  | [ "LD"; v; sz ] -> Op (OHeapLoad (parse_val v, n_of_int (int_of_string sz)))
  | [ "ST"; v; vs ] -> Op (OHeapStore (parse_val v, parse_vals vs))
  | [ "PU"; o ] -> Op (OStatePush (z_of_int (int_of_string o)))
  | [ "PO"; o ] -> Op (OStatePop (z_of_int (int_of_string o)))
  | [ "SG"; sz ] -> Op (OStateGet (n_of_int (int_of_string sz)))
  | [ "SS"; ws ] -> Op (OStateSet (parse_hexes ws))
  | [ "SD"; i; t; ml ] -> Op (OStateDelay (n_of_hex i, n_of_hex t, n_of_int (int_of_string ml)))
  | [ "SM"; i ] -> Op (OStateMem (n_of_hex i))
  | [ "AN"; esz; vs ] -> Op (OArrayNew (n_of_int (int_of_string esz), parse_vals vs))
  | [ "AG"; a; idx; esz ] -> Op (OArrayGet (parse_val a, n_of_hex idx, n_of_int (int_of_string esz)))
  | [ "AS"; a; idx; vs; esz ] -> Op (OArraySet (parse_val a, n_of_hex idx, parse_vals vs, n_of_int (int_of_string esz)))
  | [ "AL"; a ] -> Op (OArrayLen (parse_val a))
  | [ "NW" ] -> Op ONow
  | [ "SR" ] -> Op OSamplerate
  | [ "TG"; a; idx; esz ] -> TG (parse_val a, n_of_hex idx, n_of_int (int_of_string esz))
  | [ "TS"; a; idx; vs; esz ] -> TS (parse_val a, n_of_hex idx, parse_vals vs, n_of_int (int_of_string esz))
  | [ "UC"; vs; ty ] -> UC (parse_vals vs, n_of_int (int_of_string ty))
  | [ "UR"; vs; ty ] -> UR (parse_vals vs, n_of_int (int_of_string ty))
  | _ -> raise (Bad ("bad operation " ^ s))

let show_val = function
  | VNum w -> "n" ^ hex_of_n w
  | VHeap k -> "h" ^ string_of_int (int_of_nat k)
  | VArr k -> "a" ^ string_of_int (int_of_nat k)

let show_fault = function FInvalidHandle -> "Fh" | FOutOfRange -> "Fr" | FUnderflow -> "Fu" | FBadSize -> "Fs"

let show_sres = function
  | SUnit -> "u"
  | SHeapH k -> "H" ^ string_of_int (int_of_nat k)
  | SArrH k -> "A" ^ string_of_int (int_of_nat k)
  | SVals l -> "v" ^ String.concat "," (List.map show_val l)
  | SCount n -> "c" ^ dec_of_n n
  | SInvalid -> "i"
  | SFault f -> show_fault f

let show_ires = function
  | IUnit -> "u"
  | IHandle w -> "h" ^ hex_of_n w
  | IWords l -> "w" ^ String.concat "," (List.map hex_of_n l)
  | ICount n -> "c" ^ dec_of_n n
  | IInvalid -> "i"
  | IFault f -> show_fault f

let kv (s : string) (k : string) : string =
  let pl = String.length k + 1 in
  if String.length s >= pl && String.sub s 0 pl = k ^ "=" then String.sub s pl (String.length s - pl)
  else raise (Bad ("expected " ^ k ^ "= in " ^ s))

let show_state (m : mstate) : string =
  String.concat "," (List.map hex_of_n (st_words m)) ^ "@" ^ dec_of_n m.m_pos

let run_case (id : int) (line : string) : string =
  try
    match String.split_on_char ';' line with
    | s :: nw :: sr :: ops ->
        let size = n_of_int (int_of_string (kv s "S")) in
        let now = n_of_int (int_of_string (kv nw "N")) in
        let srw = n_of_hex (kv sr "R") in
        let is_hdr x = String.length x > 2 && (String.sub x 0 2 = "M=" || String.sub x 0 2 = "Y=" || String.sub x 0 2 = "O=") in
        let tt = List.concat_map (fun x ->
          if String.length x > 2 && String.sub x 0 2 = "Y="
          then List.map parse_sty (List.filter (fun y -> y <> "") (String.split_on_char '~' (String.sub x 2 (String.length x - 2))))
          else []) ops in
        let items = List.map parse_op (List.filter (fun x -> x <> "" && not (is_hdr x)) ops) in
        (* spec *)
        let sp = ref (spec_init size now srw) and sdead = ref false and sout = ref [] in
        let pv = Buffer.create 64 and pw = Buffer.create 64 in
        (* vm *)
        let vm = ref (vm_init size) and vt = ref tabs0 and vdead = ref false and vout = ref [] in
        (* wasm *)
        let wa = ref (wasm_init now srw) and wt = ref tabs0 and wdead = ref false and wout = ref [] in
        List.iter (fun it ->
          (match it with
           | Op o ->
               if not !sdead then begin
                 Buffer.add_char pv (if vm_pre !sp o then '1' else '0');
                 Buffer.add_char pw (if wasm_pre !sp o then '1' else '0');
                 let (s', r) = spec_step !sp o in
                 sp := s'; sout := show_sres r :: !sout; if sres_fault r then sdead := true end;
               if not !vdead then begin
                 let (v', r) = vm_step !vt !vm o in
                 vm := v'; vout := show_ires r :: !vout;
                 if ires_fault r then vdead := true else vt := tabs_after !vt o r end;
               if not !wdead then begin
                 let (w', r) = wasm_step !wt !wa o in
                 wa := w'; wout := show_ires r :: !wout;
                 if ires_fault r then wdead := true else wt := tabs_after !wt o r end
           | TG (a, idx, esz) ->
               if not !sdead then (sout := "-" :: !sout; Buffer.add_char pv '-'; Buffer.add_char pw '-');
               if not !wdead then wout := "-" :: !wout;
               if not !vdead then begin
                 let r = vm_prim_array_get !vm.v_arrs (resolve !vt a) idx esz in
                 vout := show_ires r :: !vout; if ires_fault r then vdead := true end
           | UC (vs, ty) | UR (vs, ty) ->
               let is_clone = (match it with UC _ -> true | _ -> false) in
               if not !sdead then (sout := "-" :: !sout; Buffer.add_char pv '-'; Buffer.add_char pw '-');
               if not !vdead then begin
                 let value = List.map (resolve !vt) vs in
                 let size = n_of_int (List.length value) in
                 let (v', r) = if is_clone then vm_usersum_clone tt !vm value size ty else vm_usersum_release tt !vm value size ty in
                 vm := v'; vout := show_ires r :: !vout; if ires_fault r then vdead := true end;
               if not !wdead then begin
                 let value = List.map (resolve !wt) vs in
                 let size = n_of_int (List.length value) in
                 let (w', r) = if is_clone then wasm_usersum_clone !wa value size ty else wasm_usersum_release !wa value size ty in
                 wa := w'; wout := show_ires r :: !wout; if ires_fault r then wdead := true end
           | TS (a, idx, src, esz) ->
               if not !sdead then (sout := "-" :: !sout; Buffer.add_char pv '-'; Buffer.add_char pw '-');
               if not !wdead then wout := "-" :: !wout;
               if not !vdead then begin
                 let (a', r) = vm_prim_array_set !vm.v_arrs (resolve !vt a) idx (List.map (resolve !vt) src) esz in
                 vm := { !vm with v_arrs = a' };
                 vout := show_ires r :: !vout; if ires_fault r then vdead := true end)) items;
        let j l = String.concat ";" (List.rev l) in
        Printf.sprintf "#%d spec=%s|vm=%s|wasm=%s|vmst=%s|wast=%s|pv=%s|pw=%s" id (j !sout) (j !vout) (j !wout)
          (show_state !vm.v_st) (show_state !wa.w_st) (Buffer.contents pv) (Buffer.contents pw)
    | _ -> raise (Bad "case header")
  with
  | Bad m -> Printf.sprintf "#%d !input-error %s" id m
  | Failure m -> Printf.sprintf "#%d !input-error %s" id m

let () =
  let id = ref 0 in
  (try
     while true do
       let line = input_line stdin in
       if String.trim line <> "" then begin
         print_endline (run_case !id line);
         incr id
       end
     done
   with End_of_file -> ());
  flush stdout
