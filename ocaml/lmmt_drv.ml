(* line-protocol driver for the extracted Lmmx type checker (coq/theories/Lmmt/Check.v) and the reference semantics
   (coq/theories/Lmmx/Ref.v).
   input line:  FUEL N K v(0,0) ... v(N-1,K-1) | <annotations> | <program s-expr>
   annotations := (ann (par (x TY) ..) (ret (f TY) ..) (sums (NAME OPT ..) ..))      OPT := - | TY   [payload per constructor]
   TY := F | U | (T TY ..) | (R (f TY) ..) | (Fn (TY ..) TY) | (S NAME)       [a declared sum type, expanded from `sums`]
   program: as for ocaml/lmmx_drv.ml
   output line: JSON {"tc":"ok","inputs":k,"ret_words":n,"lenient":L,"run":RUN} | {"tc":"reject","lenient":L,"run":RUN} | {"error":".."}
     "tc": the checker (strict configuration mkAnn);  L = "ok" | "reject": the lenient configuration (mkLenient)
     RUN := {"ok":[[..],..]} | {"fuel":true} | {"stuck":code} | {"big":true}      (N = 0: "run" is omitted) *)
open Lmmt_model
let rec p_of_int i = if i = 1 then XH else if i land 1 = 0 then XO (p_of_int (i / 2)) else XI (p_of_int (i / 2))
let n_of_int i = if i = 0 then N0 else Npos (p_of_int i)
let z_of_int i = if i = 0 then Z0 else if i > 0 then Zpos (p_of_int i) else Zneg (p_of_int (-i))
exception Big
let rec int_of_p d = function
  | XH -> 1
  | XO p -> if d > 60 then raise Big else 2 * int_of_p (d + 1) p
  | XI p -> if d > 60 then raise Big else 2 * int_of_p (d + 1) p + 1
let int_of_z = function Z0 -> 0 | Zpos p -> int_of_p 0 p | Zneg p -> - (int_of_p 0 p)
let rec nat_of_int i = if i = 0 then O else S (nat_of_int (i - 1))
let rec int_of_nat = function O -> 0 | S n -> 1 + int_of_nat n

type sx = A of string | L of sx list
let parse_sx (s : string) : sx =
  let n = String.length s in
  let pos = ref 0 in
  let rec skip () = if !pos < n && (s.[!pos] = ' ' || s.[!pos] = '\t') then (incr pos; skip ()) in
  let rec one () =
    skip ();
    if s.[!pos] = '(' then begin
      incr pos;
      let rec go acc = skip (); if s.[!pos] = ')' then (incr pos; L (List.rev acc)) else go (one () :: acc) in
      go []
    end else begin
      let st = !pos in
      while !pos < n && s.[!pos] <> ' ' && s.[!pos] <> '(' && s.[!pos] <> ')' do incr pos done;
      A (String.sub s st (!pos - st))
    end in
  one ()

let num = function A a -> int_of_string a | _ -> failwith "num"
let idn x = n_of_int (num x)
let binop_of = function
  | "add" -> OAdd | "sub" -> OSub | "mul" -> OMul | "lt" -> OLt | "le" -> OLe | "gt" -> OGt | "ge" -> OGe
  | "eq" -> OEq | "ne" -> ONe | "and" -> OAnd | "or" -> OOr | "min" -> OMin | "max" -> OMax
  | s -> failwith ("binop " ^ s)
let rec pat_of = function
  | A "pw" -> PWild
  | L [A "pv"; x] -> PVar (idn x)
  | L (A "pt" :: ps) -> PTup (List.map pat_of ps)
  | L (A "pr" :: fs) -> PRec (List.map (function L [f; p] -> (idn f, pat_of p) | _ -> failwith "pr") fs)
  | _ -> failwith "pat"
let rec shape_of = function
  | A "N" -> SNum
  | L (A "st" :: shs) -> STup (List.map shape_of shs)
  | L (A "sr" :: fs) -> SRec (List.map (function L [f; sh] -> (idn f, shape_of sh) | _ -> failwith "sr") fs)
  | L (A "ss" :: nm :: cs) -> SSum (idn nm, List.map (function A "-" -> None | sh -> Some (shape_of sh)) cs)
  | _ -> failwith "shape"
let rec mpat_of = function
  | A "mw" -> MWild
  | L [A "ml"; z] -> MLit (z_of_int (num z))
  | L [A "mc"; t] -> MCon (nat_of_int (num t), None)
  | L [A "mc"; t; p] -> MCon (nat_of_int (num t), Some (pat_of p))
  | L (A "mt" :: ms) -> MTup (List.map mpat_of ms)
  | _ -> failwith "mpat"
let rec expr_of = function
  | A "now" -> XNow | A "sr" -> XSr | A "self" -> XSelf
  | L [A "selfs"; sh] -> XSelfS (shape_of sh)
  | L [A "con"; tn; t] -> XCon (idn tn, nat_of_int (num t), None)
  | L [A "con"; tn; t; a] -> XCon (idn tn, nat_of_int (num t), Some (expr_of a))
  | L (A "match" :: sc :: arms) ->
      XMatch (expr_of sc, List.map (function L [m; e] -> (mpat_of m, expr_of e) | _ -> failwith "arm") arms)
  | L [A "lit"; v] -> XLit (z_of_int (num v))
  | L [A "var"; v] -> XVar (idn v)
  | L [A "bin"; A op; a; b] -> XBin (binop_of op, expr_of a, expr_of b)
  | L [A "neg"; a] -> XNeg (expr_of a)
  | L [A "let"; p; a; b] -> XLet (pat_of p, expr_of a, expr_of b)
  | L [A "if"; c; t; e] -> XIf (expr_of c, expr_of t, expr_of e)
  | L [A "mem"; a] -> XMem (expr_of a)
  | L [A "delay"; n; a; t] -> XDelay (idn n, expr_of a, expr_of t)
  | L (A "tup" :: es) -> XTuple (List.map expr_of es)
  | L [A "proj"; e; i] -> XProj (expr_of e, nat_of_int (num i))
  | L (A "rec" :: fs) -> XRecord (List.map fld_of fs)
  | L [A "fld"; e; f] -> XField (expr_of e, idn f)
  | L [A "lam"; L ps; b] -> XLam (List.map idn ps, expr_of b)
  | L (A "app" :: f :: args) -> XApp (expr_of f, List.map expr_of args)
  | L (A "cnamed" :: f :: fs) -> XCallNamed (idn f, List.map fld_of fs)
  | L [A "pipe"; a; f] -> XPipe (expr_of a, expr_of f)
  | L [A "asg"; x; e] -> XAssign (idn x, expr_of e)
  | L [A "seq"; a; b] -> XSeq (expr_of a, expr_of b)
  | _ -> failwith "expr"
and fld_of = function L [f; e] -> (idn f, expr_of e) | _ -> failwith "field"
let gdecl_of = function
  | L [A "fun"; nm; L ps; b] ->
      GFun (idn nm, List.map (function L [x] -> (idn x, None) | L [x; d] -> (idn x, Some (expr_of d)) | _ -> failwith "param") ps,
            expr_of b)
  | L [A "glet"; p; e] -> GLet (pat_of p, expr_of e)
  | _ -> failwith "gdecl"
let prog_of = function
  | L [A "prog"; L (A "globals" :: gs); L (A "inputs" :: ins); L (A "lets" :: ls); L (A "outs" :: os)] ->
      { x_globals = List.map gdecl_of gs;
        x_inputs = List.map idn ins;
        x_lets = List.map (function L [p; e] -> (pat_of p, expr_of e) | _ -> failwith "let") ls;
        x_outs = List.map expr_of os }
  | _ -> failwith "prog"

let rec ty_of sums = function
  | A "F" -> TNum
  | A "U" -> TUnit
  | L (A "T" :: ts) -> TTup (List.map (ty_of sums) ts)
  | L (A "R" :: fs) -> TRec (List.map (function L [f; t] -> (idn f, ty_of sums t) | _ -> failwith "rty") fs)
  | L [A "Fn"; L ps; r] -> TFn (List.map (ty_of sums) ps, ty_of sums r)
  | L [A "S"; nm] -> (match List.assoc_opt (num nm) sums with Some cs -> TSum (idn nm, cs) | None -> failwith "undeclared sum type")
  | _ -> failwith "ty"
let ann_of = function
  | L (A "ann" :: L (A "par" :: ps) :: L (A "ret" :: rs) :: rest) ->
      (* sum types in declaration order: a payload may mention the types declared before *)
      let decls = match rest with [L (A "sums" :: ds)] -> ds | [] -> [] | _ -> failwith "ann sums" in
      let sums = List.fold_left (fun acc d -> match d with
        | L (nm :: cs) -> acc @ [(num nm, List.map (function A "-" -> None | t -> Some (ty_of acc t)) cs)]
        | _ -> failwith "sum decl") [] decls in
      let ent = function L [x; t] -> (idn x, ty_of sums t) | _ -> failwith "ann entry" in
      (List.map ent ps, List.map ent rs, List.map (fun (n, cs) -> (n_of_int n, cs)) sums)
  | _ -> failwith "ann"

let ints l = "[" ^ String.concat "," (List.map (fun z -> string_of_int (int_of_z z)) l) ^ "]"

let run_case (line : string) : string =
  let parts = String.split_on_char '|' line in
  let head, ann, body = match parts with [h; a; b] -> String.trim h, a, b | _ -> failwith "parts" in
  let hs = List.filter (fun s -> s <> "") (String.split_on_char ' ' head) in
  let hs = List.map int_of_string hs in
  let fuel, n, k, vals = match hs with f :: n :: k :: v -> f, n, k, v | _ -> failwith "head" in
  let vals = Array.of_list vals in
  let rows = List.init n (fun t -> List.init k (fun c -> z_of_int vals.(t * k + c))) in
  let (par, ret, sums) = ann_of (parse_sx ann) in
  let p = prog_of (parse_sx body) in
  let tc = match tc_prog (mkAnn par ret sums) p with
    | Some info -> Printf.sprintf "\"tc\":\"ok\",\"inputs\":%d,\"ret_words\":%d" (int_of_nat info.ti_inputs) (int_of_nat (word_size info.ti_dsp_ret))
    | None -> "\"tc\":\"reject\"" in
  let tc = tc ^ (match tc_prog (mkLenient par ret sums) p with Some _ -> ",\"lenient\":\"ok\"" | None -> ",\"lenient\":\"reject\"") in
  if n = 0 then "{" ^ tc ^ "}" else
  let run = try (match xrun (nat_of_int fuel) p rows with
    | OutOfFuel -> "{\"fuel\":true}"
    | Stuck c -> Printf.sprintf "{\"stuck\":%d}" (int_of_nat c)
    | Ok os -> Printf.sprintf "{\"ok\":[%s]}" (String.concat "," (List.map ints os))) with Big -> "{\"big\":true}" in
  "{" ^ tc ^ ",\"run\":" ^ run ^ "}"

let () =
  try
    while true do
      let line = input_line stdin in
      if String.length line > 0 then
        print_endline (try run_case line with Failure m -> "{\"error\":\"" ^ m ^ "\"}"
                                         | Not_found -> "{\"error\":\"not found\"}" | Invalid_argument m -> "{\"error\":\"" ^ m ^ "\"}")
    done
  with End_of_file -> ()
