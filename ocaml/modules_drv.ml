(* line-protocol driver for the extracted module-resolution model (C17).
   input  line: a module tree, space separated tokens
     item := fn <0|1> <name> <params> <expr> | let <name> <expr> | mod <0|1> <name> { item* } | use <0|1> <path|-> <.|*|{a,b}>
     expr := c<N> | v:<name> | q:<a::b> | let <name> <e1> <e2> | rec <name> <e1> <e2> | lam <params> <e> | app <n> <f> <a1>..<an>
     params := () | (x,y)
   output line (same shape as harness/lang/src/bin/modules_run.rs):
     M vis=..;alias=..;ctx=..;wild=.. | A <sym|?> <nprivate> <next-loads> | B OK <N> | B ERR p=<n> u=<n> | B STUCK *)
open Modules_model

let explode (s : string) : char list = List.init (String.length s) (String.get s)
let implode (l : char list) : string = String.of_seq (List.to_seq l)
let rec n_of_int i = if i = 0 then N0 else Npos (p_of_int i)
and p_of_int i = if i = 1 then XH else if i land 1 = 0 then XO (p_of_int (i / 2)) else XI (p_of_int (i / 2))
let rec int_of_p = function XH -> 1 | XO p -> 2 * int_of_p p | XI p -> 2 * int_of_p p + 1
let int_of_n = function N0 -> 0 | Npos p -> int_of_p p
let rec nat_of_int i = if i = 0 then O else S (nat_of_int (i - 1))

let show_sym (s : char list list) : string = String.concat "$" (List.map implode s)

let split_path (s : string) : char list list =
  if s = "-" then [] else
    (* split on "::" *)
    let n = String.length s in
    let rec go i st acc =
      if i >= n then List.rev (String.sub s st (n - st) :: acc)
      else if i + 1 < n && s.[i] = ':' && s.[i + 1] = ':' then go (i + 2) (i + 2) (String.sub s st (i - st) :: acc)
      else go (i + 1) st acc in
    List.map explode (go 0 0 [])

let split_names (s : string) : string list =
  (* "(a,b)" or "{a,b}" *)
  let inner = String.sub s 1 (String.length s - 2) in
  if inner = "" then [] else String.split_on_char ',' inner

let parse (line : string) : item list =
  let toks = Array.of_list (List.filter (fun t -> t <> "") (String.split_on_char ' ' line)) in
  let pos = ref 0 in
  let next () = let t = toks.(!pos) in incr pos; t in
  let peek () = if !pos < Array.length toks then Some toks.(!pos) else None in
  let rec expr () : expr =
    let t = next () in
    if t = "let" then (let n = next () in let e1 = expr () in let e2 = expr () in ELet ([ [explode n] ], e1, Some e2))
    else if t = "rec" then (let n = next () in let e1 = expr () in let e2 = expr () in ELetRec ([explode n], e1, Some e2))
    else if t = "lam" then (let ps = split_names (next ()) in let b = expr () in ELam (List.map (fun p -> [explode p]) ps, b))
    else if t = "app" then (
      let n = int_of_string (next ()) in
      let f = expr () in
      let args = List.init n (fun _ -> ()) |> List.map (fun () -> expr ()) in
      EApp (f, args))
    else if t.[0] = 'c' then EConst (n_of_int (int_of_string (String.sub t 1 (String.length t - 1))))
    else if String.length t > 2 && String.sub t 0 2 = "v:" then EVar [explode (String.sub t 2 (String.length t - 2))]
    else if String.length t > 2 && String.sub t 0 2 = "q:" then EQVar (split_path (String.sub t 2 (String.length t - 2)))
    else failwith ("bad expr token " ^ t) in
  let rec items (closing : bool) : item list =
    match peek () with
    | None -> if closing then failwith "unclosed {" else []
    | Some "}" -> if closing then (incr pos; []) else failwith "stray }"
    | Some _ -> let it = item () in it :: items closing
  and item () : item =
    let t = next () in
    match t with
    | "fn" ->
        let p = next () = "1" in
        let n = next () in
        let ps = split_names (next ()) in
        let b = expr () in
        IFn (p, explode n, List.map explode ps, b)
    | "let" -> let n = next () in let b = expr () in ILet (explode n, b)
    | "mod" ->
        let p = next () = "1" in
        let n = next () in
        if next () <> "{" then failwith "expected {";
        let body = items true in
        IMod (p, explode n, body)
    | "use" ->
        let p = next () = "1" in
        let path = split_path (next ()) in
        let tg = next () in
        let tgt = if tg = "." then USingle else if tg = "*" then UWildcard else UMultiple (List.map explode (split_names tg)) in
        IUse (p, path, tgt)
    | _ -> failwith ("bad item token " ^ t) in
  items false

(* HashMap printing: latest insert per key, "k<sep>v" strings sorted *)
let show_map (m : (char list list * 'a) list) (f : 'a -> string) (sep : string) : string =
  let seen = Hashtbl.create 16 in
  let l = List.filter_map (fun (k, v) ->
      let ks = show_sym k in
      if Hashtbl.mem seen ks then None else (Hashtbl.add seen ks (); Some (ks ^ sep ^ f v))) m in
  String.concat "," (List.sort compare l)

let () =
  try
    while true do
      let line = input_line stdin in
      if String.length line > 0 then begin
        match (try Ok (parse line) with e -> Error (Printexc.to_string e)) with
        | Error m -> Printf.printf "PARSE-ERROR %s\n" m
        | Ok prog ->
            let (stmts, mi) = flatten prog in
            let m = Printf.sprintf "M vis=%s;alias=%s;ctx=%s;wild=%s"
                (show_map mi.visibility_map (fun b -> if b then "1" else "0") ":")
                (show_map mi.use_alias_map show_sym ">")
                (show_map mi.module_context_map show_sym ">")
                (String.concat "," (List.map show_sym mi.wildcard_imports)) in
            let (e', errs) = convert_program [] prog in
            let np = List.length errs and next = List.length mi.ext_loads in
            let a = Printf.sprintf "A %s %d %d" (match probe_ref e' with Some s -> show_sym s | None -> "?") np next in
            let ub = unbound [] e' in
            let b =
              if np > 0 || ub <> [] then Printf.sprintf "ERR p=%d u=%d" np (List.length ub)
              else match run_dsp (nat_of_int 200) e' with
                | Some (VNum c) -> Printf.sprintf "OK %d" (int_of_n c)
                | _ -> "STUCK" in
            Printf.printf "%s | %s | B %s\n" m a b
      end
    done
  with End_of_file -> ()
