(* line-protocol driver for the extracted scheduler model (Sched/Model.v).
   input  line:  sections separated by ';', tokens by ' ':
       T <samples> ; S <0|1 selector> ; I <q>:<c> ... ; B <c> <dq>:<c'> ... ; D <t> <dq>:<c> ... ;
     I = calls from global scope: time q/4 (or "nan"), closure c
     B = behaviour rule list of closure c: when run at `now`, schedule c' at now + dq/4
     D = dsp at sample t schedules c at t + dq/4
   output line:  vm <R> | wasm <R>
     R = ok <e0>/<e1>/.../ pend <sorted when.clo list>       e_t = sorted closure ids executed in sample t, ',' separated
       | panic <k> <e0>/.../                                   k = sample during which the panic happens (-1: global scope); e_t for t < k
       | fuel
   optional section `A ;` (only meaningful when every closure argument is a top-level function used as a value):
   appends ` | alloc0 <R'> | alloc1 <R'>` = Sched/WasmAlloc.v a_run true under the two selectors,
     R' = ok <f0>/<f1>/.../   (f_t = sorted function ids that actually ran in sample t)  | panic | fuel *)
open Sched_model

let rec p_of_int i = if i = 1 then XH else if i land 1 = 0 then XO (p_of_int (i / 2)) else XI (p_of_int (i / 2))
let n_of_int i = if i = 0 then N0 else Npos (p_of_int i)
let z_of_int i = if i = 0 then Z0 else if i > 0 then Zpos (p_of_int i) else Zneg (p_of_int (-i))
let rec int_of_p = function XH -> 1 | XO p -> 2 * int_of_p p | XI p -> 2 * int_of_p p + 1
let int_of_n = function N0 -> 0 | Npos p -> int_of_p p
let rec nat_of_int i = if i = 0 then O else S (nat_of_int (i - 1))

(* big times (>= 2^62) are given in decimal; build them with Z arithmetic on strings digit by digit *)
let z_of_string (s : string) : z =
  let neg = String.length s > 0 && s.[0] = '-' in
  let digits = if neg then String.sub s 1 (String.length s - 1) else s in
  let ten = z_of_int 10 in
  let acc = ref Z0 in
  String.iter (fun ch -> acc := Z.add (Z.mul !acc ten) (z_of_int (Char.code ch - 48))) digits;
  if neg then Z.opp !acc else !acc

let rec string_of_p (p : positive) : string =
  (* decimal rendering through repeated division is overkill here: pending `when`s may exceed max_int,
     print those as hex of the binary expansion *)
  let rec bits = function XH -> "1" | XO q -> bits q ^ "0" | XI q -> bits q ^ "1" in
  let b = bits p in
  if String.length b <= 60 then string_of_int (int_of_p p) else "b" ^ b
let string_of_n = function N0 -> "0" | Npos p -> string_of_p p

let split c s = List.filter (fun x -> x <> "") (String.split_on_char c s)

let pair_of tok =
  match String.index_opt tok ':' with
  | Some i -> (String.sub tok 0 i, String.sub tok (i + 1) (String.length tok - i - 1))
  | None -> failwith ("bad pair " ^ tok)

let parse_rule tok : rule = let (a, b) = pair_of tok in (z_of_string a, n_of_int (int_of_string b))

let parse_init tok : request =
  let (a, b) = pair_of tok in
  ((if a = "nan" then FNaN else FQuarter (z_of_string a)), n_of_int (int_of_string b))

let show_execs (execs : task list list) : string =
  String.concat "" (List.map (fun ex ->
    let ids = List.sort compare (List.map (fun x -> int_of_n x.clo) ex) in
    String.concat "," (List.map string_of_int ids) ^ "/") execs)

let show_pending (l : task list) : string =
  let l = List.sort compare (List.map (fun x -> (string_of_n x.when0, int_of_n x.clo)) l) in
  String.concat "," (List.map (fun (w, c) -> w ^ "." ^ string_of_int c) l)

let show_codes (execs : n list list) : string =
  String.concat "" (List.map (fun ex ->
    String.concat "," (List.map string_of_int (List.sort compare (List.map int_of_n ex))) ^ "/") execs)

let () =
  try
    while true do
      let line = input_line stdin in
      if String.trim line <> "" then begin
        let t = ref 0 and s = ref 0 and init = ref [] and beh = ref [] and dsp = ref [] and alloc = ref false in
        let init_raw = ref [] in
        List.iter (fun sec ->
          match split ' ' sec with
          | [] -> ()
          | "T" :: [n] -> t := int_of_string n
          | "S" :: [n] -> s := int_of_string n
          | "A" :: _ -> alloc := true
          | "I" :: toks -> init := !init @ List.map parse_init toks;
              init_raw := !init_raw @ List.filter_map (fun tok -> let (a, b) = pair_of tok in
                if a = "nan" then None else Some (z_of_string a, n_of_int (int_of_string b))) toks
          | "B" :: c :: toks -> beh := !beh @ [(n_of_int (int_of_string c), List.map parse_rule toks)]
          | "D" :: c :: toks -> dsp := !dsp @ [(n_of_int (int_of_string c), List.map parse_rule toks)]
          | k :: _ -> failwith ("bad section " ^ k)) (split ';' line);
        let sel = if !s = 0 then sel_first else sel_last in
        let b = table_behaviour !beh and d = table_dsp !dsp in
        let report : 'w. (nat -> ('w * task list list) result) -> ('w -> task list) -> string = fun run pend ->
          match run (nat_of_int !t) with
          | Done (w, execs) -> "ok " ^ show_execs execs ^ " pend " ^ show_pending (pend w)
          | OutOfFuel -> "fuel"
          | Panic ->
              (* smallest number of samples whose run panics: the panic happens in sample k-1 *)
              let rec find k last =
                if k > !t then "panic ?"
                else match run (nat_of_int k) with
                  | Done (_, execs) -> find (k + 1) execs
                  | _ -> Printf.sprintf "panic %d %s" (k - 1) (show_execs last) in
              find 0 []
        in
        let rv = report (fun n -> run_vm sel b d !init n) (fun w -> w.v_chan @ w.v_heap) in
        let rw = report (fun n -> run_wasm sel b d !init n) (fun w -> w.w_heap) in
        let extra =
          if not !alloc then "" else
            String.concat "" (List.map (fun (nm, sl) ->
              let r = match a_run true sl (fresh_behaviour !beh) (fresh_dsp !dsp) [] N0 (fresh_init !init_raw) (nat_of_int !t) with
                | Done (_, execs) -> "ok " ^ show_codes execs
                | Panic -> "panic"
                | OutOfFuel -> "fuel" in
              Printf.sprintf " | %s %s" nm r) [("alloc0", sel_first); ("alloc1", sel_last)]) in
        Printf.printf "vm %s | wasm %s%s\n%!" rv rw extra
      end
    done
  with End_of_file -> ()
