(* line-protocol driver for the extracted FfiCodec model; same protocol and the same answers as the `common` part
   (before the TAB) of harness/lang/src/bin/codec.rs — see that file for the grammar of terms. *)
open Ffi_model

(* ---- numbers: every number of the protocol is < 2^64; Int64 is used as an unsigned 64-bit container ---- *)
let rec pos_of_i64 (i : int64) : positive =
  (* i <> 0, unsigned *)
  let hi = Int64.shift_right_logical i 1 in
  let lo = Int64.logand i 1L in
  if hi = 0L then XH else if lo = 0L then XO (pos_of_i64 hi) else XI (pos_of_i64 hi)
let n_of_i64 i = if i = 0L then N0 else Npos (pos_of_i64 i)
let rec i64_of_pos = function
  | XH -> 1L
  | XO p -> Int64.shift_left (i64_of_pos p) 1
  | XI p -> Int64.logor (Int64.shift_left (i64_of_pos p) 1) 1L
let i64_of_n = function N0 -> 0L | Npos p -> i64_of_pos p
let n_of_dec s = n_of_i64 (Int64.of_string ("0u" ^ s))
let dec_of_n n = Printf.sprintf "%Lu" (i64_of_n n)
let n_of_hex16 s = n_of_i64 (Int64.of_string ("0x" ^ s))
let hex16_of_n n = Printf.sprintf "%016Lx" (i64_of_n n)
let byte_tab = Array.init 256 (fun i -> n_of_i64 (Int64.of_int i))
let rec nat_of_int i = if i = 0 then O else S (nat_of_int (i - 1))

let bytes_of_hex (s : string) : n list =
  let len = String.length s / 2 in
  let rec go i acc = if i < 0 then acc else go (i - 1) (byte_tab.(int_of_string ("0x" ^ String.sub s (2 * i) 2)) :: acc) in
  go (len - 1) []
let hex_of_bytes (l : n list) : string =
  let b = Buffer.create 64 in
  List.iter (fun x -> Buffer.add_string b (Printf.sprintf "%02Lx" (i64_of_n x))) l;
  Buffer.contents b

(* ---- parser ---- *)
type st = { s : string; mutable p : int }
let peek st = if st.p < String.length st.s then st.s.[st.p] else '\000'
let eat st c = if peek st <> c then failwith (Printf.sprintf "expected %c at %d" c st.p); st.p <- st.p + 1
let is_alnum c = (c >= '0' && c <= '9') || (c >= 'a' && c <= 'z') || (c >= 'A' && c <= 'Z')
let word st =
  let a = st.p in
  while st.p < String.length st.s && is_alnum st.s.[st.p] do st.p <- st.p + 1 done;
  String.sub st.s a (st.p - a)
let dec st = n_of_dec (word st)
let key st = let i = dec st in eat st '.'; let v = dec st in Key (i, v)
let plist st item =
  eat st '(';
  if peek st = ')' then (st.p <- st.p + 1; [])
  else begin
    let rec go acc =
      let x = item st in
      if peek st = ',' then (st.p <- st.p + 1; go (x :: acc)) else (eat st ')'; List.rev (x :: acc)) in
    go []
  end

(* sym: text mode = hex of the bytes, id mode = decimal *)
let rec value : 'a. (st -> 'a) -> st -> 'a value = fun sym st ->
  let c = peek st in
  st.p <- st.p + 1;
  match c with
  | 'u' -> VUnit
  | 'n' -> VNumber (n_of_hex16 (word st))
  | 's' -> eat st '['; let s = sym st in eat st ']'; VString s
  | 'a' -> VArray (plist st (value sym))
  | 't' -> VTuple (plist st (value sym))
  | 'r' -> VRecord (plist st (fun st -> let k = sym st in eat st '='; (k, value sym st)))
  | 'c' -> eat st '['; let k = key st in eat st ']'; VCode k
  | 'e' -> eat st '['; let k = key st in eat st ']'; VErrorV k
  | 'g' -> eat st '['; let t = dec st in eat st ']'; eat st '('; let v = value sym st in eat st ')'; VTaggedUnion (t, v)
  | 'l' -> eat st '['; let k = key st in eat st ']'; let names = plist st sym in VClosure (k, names)
  | 'f' -> eat st '['; let s = sym st in eat st ';'; let k = key st in eat st ']'; VFixpoint (s, k)
  | 'x' -> eat st '['; let s = sym st in eat st ']'; VExternalFn s
  | 'm' -> eat st '('; let v = value sym st in eat st ')'; VStore v
  | 'k' -> eat st '['; let t = dec st in eat st ';'; let s = sym st in eat st ';'; let k = key st in eat st ']'; VConstructorFn (t, s, k)
  | _ -> failwith "bad value term"
let sym_text st = bytes_of_hex (word st)
let sym_id st = dec st

let rec ffi st =
  let c = peek st in
  st.p <- st.p + 1;
  match c with
  | 'e' -> FErrorV
  | 'u' -> FUnit
  | 'n' -> FNumber (n_of_hex16 (word st))
  | 's' -> eat st '['; let s = sym_text st in eat st ']'; FString s
  | 'a' -> FArray (plist st ffi)
  | 't' -> FTuple (plist st ffi)
  | 'r' -> FRecord (plist st (fun st -> let k = sym_text st in eat st '='; (k, ffi st)))
  | 'c' -> eat st '['; let k = key st in eat st ']'; FCode k
  | 'g' -> eat st '['; let t = dec st in eat st ']'; eat st '('; let v = ffi st in eat st ')'; FTaggedUnion (t, v)
  | _ -> failwith "bad ffi term"

(* ---- printers ---- *)
let show_key (Key (i, v)) = dec_of_n i ^ "." ^ dec_of_n v
let commas f l = String.concat "," (List.map f l)
let rec show_value : 'a. ('a -> string) -> 'a value -> string = fun sh v ->
  match v with
  | VErrorV e -> "e[" ^ show_key e ^ "]"
  | VUnit -> "u"
  | VNumber n -> "n" ^ hex16_of_n n
  | VString s -> "s[" ^ sh s ^ "]"
  | VArray l -> "a(" ^ commas (show_value sh) l ^ ")"
  | VTuple l -> "t(" ^ commas (show_value sh) l ^ ")"
  | VRecord l -> "r(" ^ commas (fun (k, x) -> sh k ^ "=" ^ show_value sh x) l ^ ")"
  | VClosure (e, names) -> "l[" ^ show_key e ^ "](" ^ commas sh names ^ ")"
  | VFixpoint (s, e) -> "f[" ^ sh s ^ ";" ^ show_key e ^ "]"
  | VCode e -> "c[" ^ show_key e ^ "]"
  | VExternalFn _ -> "x[?]"
  | VStore x -> "m(" ^ show_value sh x ^ ")"
  | VTaggedUnion (t, x) -> "g[" ^ dec_of_n t ^ "](" ^ show_value sh x ^ ")"
  | VConstructorFn (t, s, k) -> "k[" ^ dec_of_n t ^ ";" ^ sh s ^ ";" ^ show_key k ^ "]"
let rec show_ffi = function
  | FErrorV -> "e"
  | FUnit -> "u"
  | FNumber n -> "n" ^ hex16_of_n n
  | FString s -> "s[" ^ hex_of_bytes s ^ "]"
  | FArray l -> "a(" ^ commas show_ffi l ^ ")"
  | FTuple l -> "t(" ^ commas show_ffi l ^ ")"
  | FRecord l -> "r(" ^ commas (fun (k, x) -> hex_of_bytes k ^ "=" ^ show_ffi x) l ^ ")"
  | FCode e -> "c[" ^ show_key e ^ "]"
  | FTaggedUnion (t, x) -> "g[" ^ dec_of_n t ^ "](" ^ show_ffi x ^ ")"

let str_of_chars (l : char list) = String.init (List.length l) (List.nth l)
let show_type = function
  | TPrimitive p -> "Primitive:" ^ str_of_chars (ptype_name p)
  | TArray k -> "Array:" ^ show_key k
  | TTuple l -> "Tuple:" ^ commas show_key l
  | TRecord l -> "Record:" ^ commas (fun f -> dec_of_n f.rtf_key ^ "/" ^ show_key f.rtf_ty ^ "/" ^ (if f.rtf_default then "1" else "0")) l
  | TFunction (a, r) -> "Function:" ^ show_key a ^ "," ^ show_key r
  | TRef k -> "Ref:" ^ show_key k
  | TCode k -> "Code:" ^ show_key k
  | TUnion l -> "Union:" ^ commas show_key l
  | TUserSum (n, vs) ->
      "UserSum:" ^ dec_of_n n ^ ";" ^ commas (fun (s, o) -> dec_of_n s ^ "/" ^ (match o with Some k -> show_key k | None -> "-")) vs
  | TBoxed k -> "Boxed:" ^ show_key k
  | TIntermediate n -> "Intermediate:" ^ dec_of_n n
  | TTypeScheme n -> "TypeScheme:" ^ dec_of_n n
  | TTypeAlias n -> "TypeAlias:" ^ dec_of_n n
  | TAny -> "Any"
  | TFailure -> "Failure"
  | TUnknown -> "Unknown"

let split_on c s = if s = "" then [] else String.split_on_char c s
let parse_key s = match String.split_on_char '.' s with [a; b] -> Key (n_of_dec a, n_of_dec b) | _ -> failwith "key"
let parse_type (s : string) : ty =
  let head, rest = match String.index_opt s ':' with
    | Some i -> (String.sub s 0 i, String.sub s (i + 1) (String.length s - i - 1))
    | None -> (s, "") in
  match head with
  | "Primitive" -> TPrimitive (match rest with "Unit" -> PUnit | "Int" -> PInt | "Numeric" -> PNumeric | "String" -> PString | _ -> failwith "ptype")
  | "Array" -> TArray (parse_key rest)
  | "Tuple" -> TTuple (List.map parse_key (split_on ',' rest))
  | "Record" ->
      TRecord (List.map (fun f -> match String.split_on_char '/' f with
        | [k; t; d] -> { rtf_key = n_of_dec k; rtf_ty = parse_key t; rtf_default = (d = "1") }
        | _ -> failwith "rtf") (split_on ',' rest))
  | "Function" -> (match split_on ',' rest with [a; r] -> TFunction (parse_key a, parse_key r) | _ -> failwith "fn")
  | "Ref" -> TRef (parse_key rest)
  | "Code" -> TCode (parse_key rest)
  | "Union" -> TUnion (List.map parse_key (split_on ',' rest))
  | "UserSum" ->
      let i = String.index rest ';' in
      let name = String.sub rest 0 i and vs = String.sub rest (i + 1) (String.length rest - i - 1) in
      TUserSum (n_of_dec name, List.map (fun v -> match String.split_on_char '/' v with
        | [s; k] -> (n_of_dec s, if k = "-" then None else Some (parse_key k))
        | _ -> failwith "variant") (split_on ',' vs))
  | "Boxed" -> TBoxed (parse_key rest)
  | "Intermediate" -> TIntermediate (n_of_dec rest)
  | "TypeScheme" -> TTypeScheme (n_of_dec rest)
  | "TypeAlias" -> TTypeAlias (n_of_dec rest)
  | "Any" -> TAny
  | "Failure" -> TFailure
  | "Unknown" -> TUnknown
  | _ -> failwith "bad type term"

let err_name = function
  | ErrClosure -> "Closure" | ErrFixpoint -> "Fixpoint" | ErrExternalFn -> "ExternalFn" | ErrStore -> "Store"
  | ErrConstructorFn -> "ConstructorFn"
let strict rest = if rest = [] then "1" else "0"
let show_args l = String.concat "|" (List.map (fun (v, k) -> show_value hex_of_bytes v ^ ";" ^ show_key k) l)

let rsplit_semicolon a =
  let i = String.rindex a ';' in
  (String.sub a 0 i, String.sub a (i + 1) (String.length a - i - 1))

let handle (line : string) : string =
  let cmd, arg = match String.index_opt line ' ' with
    | Some i -> (String.sub line 0 i, String.sub line (i + 1) (String.length line - i - 1))
    | None -> (line, "") in
  match cmd with
  | "V" ->
      let v = value sym_text { s = arg; p = 0 } in
      (match serialize_value v with
       | Err e -> "ERR " ^ err_name e
       | Ok bytes ->
           (match deserialize_value bytes with
            | Some w -> "OK " ^ hex_of_bytes bytes ^ " | " ^ show_value hex_of_bytes w
            | None -> "OK " ^ hex_of_bytes bytes ^ " | REJECT"))
  | "M" ->
      let args = List.map (fun a -> let (v, k) = rsplit_semicolon a in (value sym_text { s = v; p = 0 }, parse_key k)) (split_on '|' arg) in
      (match serialize_macro_args args with
       | Err e -> "ERR " ^ err_name e
       | Ok bytes ->
           (match deserialize_macro_args bytes with
            | Some w -> "OK " ^ hex_of_bytes bytes ^ " | " ^ show_args w
            | None -> "OK " ^ hex_of_bytes bytes ^ " | REJECT"))
  | "F" ->
      let f = ffi { s = arg; p = 0 } in
      let bytes = encode f in
      (match decode_ffi bytes with
       | Some (w, _) -> "OK " ^ hex_of_bytes bytes ^ " | " ^ show_ffi w
       | None -> "OK " ^ hex_of_bytes bytes ^ " | REJECT")
  | "X" ->
      let v = value sym_id { s = arg; p = 0 } in
      (match venc v with
       | None -> "ERR"
       | Some bytes ->
           (match vdecode bytes with
            | Some (w, _) -> "OK " ^ hex_of_bytes bytes ^ " | " ^ show_value dec_of_n w
            | None -> "OK " ^ hex_of_bytes bytes ^ " | REJECT"))
  | "T" ->
      (match encode_type (parse_type arg) with
       | None -> "ERR"
       | Some bytes ->
           (match decode_type bytes with
            | Some (w, _) -> "OK " ^ hex_of_bytes bytes ^ " | " ^ show_type w
            | None -> "OK " ^ hex_of_bytes bytes ^ " | REJECT"))
  | "K" ->
      let bytes = enc_key (parse_key arg) in
      (match dec_key bytes with
       | Some (w, _) -> "OK " ^ hex_of_bytes bytes ^ " | " ^ show_key w
       | None -> "OK " ^ hex_of_bytes bytes ^ " | REJECT")
  | "DV" ->
      let bytes = bytes_of_hex arg in
      (match decode_ffi bytes with
       | Some (f, rest) -> "OK " ^ show_value hex_of_bytes (of_ffi f) ^ " strict=" ^ strict rest
       | None -> "REJECT")
  | "DM" ->
      let bytes = bytes_of_hex arg in
      (match decode_args bytes, deserialize_macro_args bytes with
       | Some (_, rest), Some w -> "OK " ^ show_args w ^ " strict=" ^ strict rest
       | _ -> "REJECT")
  | "DF" ->
      (match decode_ffi (bytes_of_hex arg) with
       | Some (f, rest) -> "OK " ^ show_ffi f ^ " strict=" ^ strict rest
       | None -> "REJECT")
  | "DX" ->
      (match vdecode (bytes_of_hex arg) with
       | Some (v, rest) -> "OK " ^ show_value dec_of_n v ^ " strict=" ^ strict rest
       | None -> "REJECT")
  | "DT" ->
      (match decode_type (bytes_of_hex arg) with
       | Some (t, rest) -> "OK " ^ show_type t ^ " strict=" ^ strict rest
       | None -> "REJECT")
  | "DK" ->
      (match dec_key (bytes_of_hex arg) with
       | Some (k, rest) -> "OK " ^ show_key k ^ " strict=" ^ strict rest
       | None -> "REJECT")
  | "U" -> if utf8_valid (bytes_of_hex arg) then "1" else "0"
  | _ -> "BADCMD " ^ cmd

let () =
  try
    while true do
      let line = input_line stdin in
      if String.length line > 0 then
        print_endline (try handle line with Failure m -> "MODEL-DRIVER-ERROR " ^ m | Not_found -> "MODEL-DRIVER-ERROR not_found")
    done
  with End_of_file -> ()
