(* line-protocol driver for the extracted interner model (C15 / C19).
   All strings are hex encoded.  One request per line, one answer per line.

   seq <op>*         sequential operations on the storage, starting from the EMPTY storage (a fresh process)
       i<hex>  intern   -> answer token  <id>
       r<n>    resolve  -> s<hex> | none
       s<hex>  store    -> <key>
       l<n>    load     -> s<hex> | none
   prog <op>*        a straight-line symbol program, run alone to completion from the empty storage; answer = its
                     observations   s<hex> (string) | b0 | b1 (boolean) | n<k> (raw id) | p (panic)
       I<sv> R<n> S<sv> L<n> E<sv> Q<a>,<b> W<n> (EmitRaw) T<a>,<b> (EmitLt)
       <sv> = part(+part)*   part = l<hex> | g<n> (register n)
   sched <k> <j>* | <prog> | <prog> ...     k threads (programs separated by '|'), schedule j*: answer = per thread
                     observations separated by '|'
   sort <k>:<hex>*   sort_by_key                                  -> <k>:<hex>*
*)
open Interner_model

let explode (s : string) : char list = List.init (String.length s) (String.get s)
let implode (l : char list) : string = String.of_seq (List.to_seq l)
let rec nat_of_int i = if i <= 0 then O else S (nat_of_int (i - 1))
let rec int_of_nat = function O -> 0 | S n -> 1 + int_of_nat n
let unhex (h : string) : string =
  String.init (String.length h / 2) (fun i -> Char.chr (int_of_string ("0x" ^ String.sub h (2 * i) 2)))
let hex (s : string) : string = String.concat "" (List.map (fun c -> Printf.sprintf "%02x" (Char.code c)) (List.of_seq (String.to_seq s)))
let tl1 (t : string) = String.sub t 1 (String.length t - 1)
let toks (s : string) = List.filter (fun t -> t <> "") (String.split_on_char ' ' s)

let parse_sv (t : string) : sval =
  let parts = String.split_on_char '+' t in
  let one p = if p.[0] = 'l' then Lit (explode (unhex (tl1 p))) else if p.[0] = 'g' then Reg (nat_of_int (int_of_string (tl1 p))) else failwith ("bad part " ^ p) in
  match List.rev_map one parts with
  | [] -> Lit []
  | last :: rest -> List.fold_left (fun acc x -> Cat (x, acc)) last rest

let pair (t : string) = match String.split_on_char ',' t with [a; b] -> (nat_of_int (int_of_string a), nat_of_int (int_of_string b)) | _ -> failwith "bad pair"

let rec parse_prog (ops : string list) : prog =
  match ops with
  | [] -> Done
  | t :: r ->
    let k = parse_prog r in
    let a = tl1 t in
    (match t.[0] with
     | 'I' -> Intern (parse_sv a, k)
     | 'R' -> Resolve (nat_of_int (int_of_string a), k)
     | 'S' -> Store (parse_sv a, k)
     | 'L' -> Load (nat_of_int (int_of_string a), k)
     | 'E' -> Emit (parse_sv a, k)
     | 'Q' -> let (x, y) = pair a in EmitEq (x, y, k)
     | 'W' -> EmitRaw (nat_of_int (int_of_string a), k)
     | 'T' -> let (x, y) = pair a in EmitLt (x, y, k)
     | _ -> failwith ("bad op " ^ t))

let show_obs = function
  | OStr s -> "s" ^ hex (implode s)
  | OBool true -> "b1" | OBool false -> "b0"
  | ONat n -> "n" ^ string_of_int (int_of_nat n)
  | OPanic -> "p"

let show_outs (l : obs list) = String.concat " " (List.map show_obs l)

let do_seq (ops : string list) : string =
  let g = ref empty_glob in
  let out = List.map (fun t ->
      let a = tl1 t in
      match t.[0] with
      | 'i' -> let (g', i) = intern !g (explode (unhex a)) in g := g'; string_of_int (int_of_nat i)
      | 'r' -> (match resolve !g (nat_of_int (int_of_string a)) with Some s -> "s" ^ hex (implode s) | None -> "none")
      | 's' -> let (g', i) = store !g (explode (unhex a)) in g := g'; string_of_int (int_of_nat i)
      | 'l' -> (match load !g (nat_of_int (int_of_string a)) with Some s -> "s" ^ hex (implode s) | None -> "none")
      | _ -> failwith ("bad seq op " ^ t)) ops in
  String.concat " " out

let split_bar (l : string list) : string list list =
  let rec go cur acc = function
    | [] -> List.rev (List.rev cur :: acc)
    | "|" :: r -> go [] (List.rev cur :: acc) r
    | t :: r -> go (t :: cur) acc r in
  go [] [] l

let () =
  try
    while true do
      let line = input_line stdin in
      let ans =
        try
          match toks line with
          | "seq" :: ops -> do_seq ops
          | "prog" :: ops -> let p = parse_prog ops in show_outs (observe [] p)
          | "sched" :: rest ->
            (match split_bar rest with
             | hd :: progs ->
               let sched = List.map (fun t -> nat_of_int (int_of_string t)) (List.tl hd) in
               let ths = List.map parse_prog progs in
               let (_, sts) = run_sched empty_glob (List.map init ths) sched in
               String.concat " | " (List.map (fun st -> show_outs st.outs ^ (match st.code with Done -> "" | _ -> " ...")) sts)
             | [] -> "ERR")
          | "sort" :: items ->
            let l = List.map (fun t -> match String.split_on_char ':' t with [k; h] -> (nat_of_int (int_of_string k), h) | _ -> failwith "bad item") items in
            String.concat " " (List.map (fun (k, h) -> string_of_int (int_of_nat k) ^ ":" ^ h) (sort_by_key l))
          | _ -> "ERR bad request"
        with Failure m -> "ERR " ^ m | Invalid_argument m -> "ERR " ^ m
      in
      print_endline ans
    done
  with End_of_file -> ()
