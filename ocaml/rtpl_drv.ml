(* line-protocol driver for the extracted model of the generated-Rust runtime (coq/theories/RustRt2/{Model,Ops}.v), C18.
   Same input syntax as the Rust driver that checks/rtpl_part.py appends to the template text.

     case  := op (';' op)*                 one fresh MimiumProgram per line
     tok   := 'n' hex | 'm' k | 'a' k | 'c' k     raw word | k-th memory / array / closure handle returned so far (0 if none)
     toks  := tok (',' tok)* | ''
     num   := decimal | '0x' hex
     ew    := num | 'd' (the unspecialised name: default 1) | 'x' (a suffix that does not parse)
     op    := MA:num | MG:tok:num | ML:tok:num | MS:tok:num:toks
            | AN:num:toks | AG:tok:hex:num | AS:tok:hex:toks:num | AL:tok
            | PP:ew:toks:tok | AP:ew:tok:toks | SH:ew:tok | ST:ew:tok
            | CA:tok:toks:bits:num | CL:tok:num:num | CS:tok:num:num:toks
            | EN:tok | EX | FS:num | FN:num | SM:hex
            | DM:hex | DF:hex | DC:hex | EM:num | EF:num | EC:num
   answer := '#' id ' tpl=' res* '|spec=' sres* '|pre=' flags '|chk=' ok-or-text
     res  (';'-separated): u | h<hex> | w<hexes> | o (None) | x (not expressible) | E<class> | P (panic: the run stops)
     sres: the contract's answer to the array operations (RustRt2/Ops.v xspec_step): u | A<k> | v<vals> | F<class>, '-' for
           the other operations and after the contract's first fault;  flags: 1/0 = rt_pre holds there, '-' likewise
     chk : the theorem's step function tpl_step gives the same answers and states as the transcribed functions *)
open Rtpl_model

let rec p_of_int i = if i = 1 then XH else if i land 1 = 0 then XO (p_of_int (i / 2)) else XI (p_of_int (i / 2))
let n_of_int i = if i <= 0 then N0 else Npos (p_of_int i)
let rec nat_of_int i = if i <= 0 then O else S (nat_of_int (i - 1))
let rec int_of_nat = function O -> 0 | S n -> 1 + int_of_nat n

let n_of_hex (s : string) : n =
  let bits = ref [] in
  String.iter (fun c ->
    let d = match c with
      | '0'..'9' -> Char.code c - 48 | 'a'..'f' -> Char.code c - 87 | 'A'..'F' -> Char.code c - 55
      | _ -> failwith ("bad hex digit in " ^ s) in
    bits := (d land 1 = 1) :: (d land 2 = 2) :: (d land 4 = 4) :: (d land 8 = 8) :: !bits) s;
  let rec strip = function [] -> [] | false :: r -> strip r | l -> l in
  match strip (List.rev !bits) with
  | [] -> N0
  | _ :: rest -> Npos (List.fold_left (fun p b -> if b then XI p else XO p) XH rest)

let hex_of_n (x : n) : string =
  match x with
  | N0 -> "0"
  | Npos p ->
      let rec bits p acc = match p with XH -> true :: acc | XO q -> bits q (false :: acc) | XI q -> bits q (true :: acc) in
      let l = bits p [] in
      let pad = (4 - List.length l mod 4) mod 4 in
      let l = List.init pad (fun _ -> false) @ l in
      let b = Buffer.create 16 in
      let rec go = function
        | b3 :: b2 :: b1 :: b0 :: r ->
            let d = (if b3 then 8 else 0) + (if b2 then 4 else 0) + (if b1 then 2 else 0) + (if b0 then 1 else 0) in
            Buffer.add_char b "0123456789abcdef".[d]; go r
        | _ -> () in
      go l;
      let s = Buffer.contents b in
      (* strip leading zeros *)
      let i = ref 0 in
      while !i < String.length s - 1 && s.[!i] = '0' do incr i done;
      String.sub s !i (String.length s - !i)

exception Bad of string

let split c s = if s = "" then [] else String.split_on_char c s
let num s = if String.length s > 2 && String.sub s 0 2 = "0x" then n_of_hex (String.sub s 2 (String.length s - 2))
            else n_of_int (int_of_string s)

type st = { mutable ms : mstore; mutable ar : tarrs; mutable cl : cstore; mutable cx : sctx;
            mutable tm : word list; mutable tc : word list; mutable tb : tabs;
            mutable sp : spec; mutable sdead : bool }

let nth0 l k = match List.nth_opt l k with Some w -> w | None -> N0

let word_of st (s : string) : word =
  if s = "" then raise (Bad "empty token");
  let r = String.sub s 1 (String.length s - 1) in
  match s.[0] with
  | 'n' -> n_of_hex r
  | 'm' -> nth0 st.tm (int_of_string r)
  | 'c' -> nth0 st.tc (int_of_string r)
  | 'a' -> resolve st.tb (VArr (nat_of_int (int_of_string r)))
  | _ -> raise (Bad ("bad token " ^ s))

let val_of st (s : string) : val0 =
  if s <> "" && s.[0] = 'a' then VArr (nat_of_int (int_of_string (String.sub s 1 (String.length s - 1))))
  else VNum (word_of st s)

let words_of st s = List.map (word_of st) (split ',' s)
let vals_of st s = List.map (val_of st) (split ',' s)

let ew_of s = match s with "d" -> Some (n_of_int 1) | "x" -> None | _ -> Some (num s)

let show_err = function
  | EInvalidMem -> "Em" | EInvalidSlot -> "Es" | ELoadOOB -> "El" | EStoreOOB -> "Eo" | EInvalidArr -> "Ea"
  | EInvalidClo -> "Ec" | EUpIndex -> "Ei" | EUpMeta -> "Ed" | EUpWide -> "Ew" | EMismatch -> "Ex" | EShort -> "Eh"
  | ENotDiv -> "Ev" | EArgs -> "Eg" | EBadName -> "En"

let show_words l = "w" ^ String.concat "," (List.map hex_of_n l)
let show_tres f = function TOk a -> f a | TErr e -> show_err e | TPanic -> "P"
let show_opt = function Some i -> "w" ^ hex_of_n i | None -> "o"

let show_val = function
  | VNum w -> "n" ^ hex_of_n w
  | VHeap k -> "h" ^ string_of_int (int_of_nat k)
  | VArr k -> "a" ^ string_of_int (int_of_nat k)
let show_fault = function FInvalidHandle -> "Fh" | FOutOfRange -> "Fr" | FUnderflow -> "Fu" | FBadSize -> "Fs"
let show_sres = function
  | SUnit -> "u" | SHeapH k -> "H" ^ string_of_int (int_of_nat k) | SArrH k -> "A" ^ string_of_int (int_of_nat k)
  | SVals l -> "v" ^ String.concat "," (List.map show_val l) | SCount _ -> "c" | SInvalid -> "i" | SFault f -> show_fault f

let run_case (id : int) (line : string) : string =
  let st = { ms = ms_new; ar = []; cl = []; cx = { x_fstates = []; x_cur = None; x_stack = [] };
             tm = []; tc = []; tb = tabs0; sp = spec_init N0 N0 N0; sdead = false } in
  let out = ref [] and sout = ref [] and pre = Buffer.create 64 and chk = ref "ok" in
  let dead = ref false in
  let emit r = out := r :: !out; if r = "P" then dead := true in
  let nospec () = sout := "-" :: !sout; Buffer.add_char pre '-' in
  (* an array operation: raw = the transcribed function's (new arrays, shown result, result as ires) *)
  let arr_op (xo : xop option) (a', shown, ir) =
    (match xo with
     | None -> nospec ()
     | Some xo ->
         (* the theorem's step function must agree with the transcribed functions *)
         let (a2, i2) = tpl_step st.tb st.ar xo in
         if (a2, i2) <> (a', ir) && !chk = "ok" then chk := "tpl_step differs at op " ^ string_of_int (List.length !out);
         if st.sdead then nospec ()
         else begin
           Buffer.add_char pre (if rt_pre st.sp xo then '1' else '0');
           let (s', r) = xspec_step st.sp xo in
           st.sp <- s'; sout := show_sres r :: !sout; if sres_fault r then st.sdead <- true
         end;
         if not (ires_fault ir) then st.tb <- xtabs_after st.tb xo ir);
    st.ar <- a';
    emit shown in
  (try
    List.iter (fun s ->
      if not !dead && s <> "" then
      match String.split_on_char ':' s with
      | [ "MA"; sz ] -> let (m, h) = ms_alloc st.ms (num sz) in st.ms <- m; st.tm <- st.tm @ [h]; nospec (); emit ("h" ^ hex_of_n h)
      | [ "MG"; h; off ] ->
          let (m, r) = ms_get_element st.ms (word_of st h) (num off) in
          st.ms <- m; (match r with TOk w -> st.tm <- st.tm @ [w] | _ -> ()); nospec ();
          emit (show_tres (fun w -> "h" ^ hex_of_n w) r)
      | [ "ML"; h; sz ] -> nospec (); emit (show_tres show_words (ms_load st.ms (word_of st h) (num sz)))
      | [ "MS"; h; sz; vs ] ->
          let (m, r) = ms_store st.ms (word_of st h) (words_of st vs) (num sz) in
          st.ms <- m; nospec (); emit (show_tres (fun () -> "u") r)
      | [ "AN"; esz; vs ] ->
          let xo = XBase (OArrayNew (num esz, vals_of st vs)) in
          (match ta_array_new st.ar (num esz) (words_of st vs) with
           | Some (a', h) -> arr_op (Some xo) (a', "h" ^ hex_of_n h, IHandle h)
           | None -> arr_op (Some xo) (st.ar, "x", IFault FBadSize))
      | [ "AG"; a; idx; ew ] ->
          let r = ta_array_get st.ar (word_of st a) (n_of_hex idx) (num ew) in
          arr_op (Some (XBase (OArrayGet (val_of st a, n_of_hex idx, num ew)))) (st.ar, show_tres show_words r, ires_words r)
      | [ "AS"; a; idx; vs; ew ] ->
          let (a', r) = ta_array_set st.ar (word_of st a) (n_of_hex idx) (words_of st vs) (num ew) in
          arr_op (Some (XBase (OArraySet (val_of st a, n_of_hex idx, vals_of st vs, num ew)))) (a', show_tres (fun () -> "u") r, ires_unit r)
      | [ "AL"; a ] ->
          let r = bi_len st.ar [ word_of st a ] in
          arr_op (Some (XBase (OArrayLen (val_of st a)))) (st.ar, show_tres show_words r, ires_words r)
      | [ "PP"; ew; vs; a ] ->
          let e = ew_of ew in
          let (a', r) = bi_prepend st.ar e (words_of st vs @ [ word_of st a ]) in
          arr_op (match e with Some n -> Some (XPrepend (n, vals_of st vs, val_of st a)) | None -> None) (a', show_tres show_words r, ires_handle r)
      | [ "AP"; ew; a; vs ] ->
          let e = ew_of ew in
          let (a', r) = bi_append st.ar e (word_of st a :: words_of st vs) in
          arr_op (match e with Some n -> Some (XAppend (n, val_of st a, vals_of st vs)) | None -> None) (a', show_tres show_words r, ires_handle r)
      | [ "SH"; ew; a ] ->
          let e = ew_of ew in
          let (a', r) = bi_split_head st.ar e [ word_of st a ] in
          arr_op (match e with Some n -> Some (XSplitHead (n, val_of st a)) | None -> None) (a', show_tres show_words r, ires_words r)
      | [ "ST"; ew; a ] ->
          let e = ew_of ew in
          let (a', r) = bi_split_tail st.ar e [ word_of st a ] in
          arr_op (match e with Some n -> Some (XSplitTail (n, val_of st a)) | None -> None) (a', show_tres show_words r, ires_words r)
      | [ "CA"; f; ups; bits; ssz ] ->
          let ind = if bits = "-" then [] else List.init (String.length bits) (fun i -> bits.[i] = '1') in
          let (c, r) = cs_alloc st.cl (word_of st f) (words_of st ups) ind (num ssz) in
          st.cl <- c; (match r with TOk w -> st.tc <- st.tc @ [w] | _ -> ()); nospec ();
          emit (show_tres (fun w -> "h" ^ hex_of_n w) r)
      | [ "CL"; c; i; sz ] -> nospec (); emit (show_tres show_words (load_upvalue st.ms st.cl (word_of st c) (num i) (num sz)))
      | [ "CS"; c; i; sz; vs ] ->
          let ((m, cl), r) = store_upvalue st.ms st.cl (word_of st c) (num i) (words_of st vs) (num sz) in
          st.ms <- m; st.cl <- cl; nospec (); emit (show_tres (fun () -> "u") r)
      | [ "EN"; c ] -> st.cx <- { st.cx with x_stack = st.cx.x_stack @ [ word_of st c ] }; nospec (); emit "u"
      | [ "EX" ] ->
          (match List.rev st.cx.x_stack with _ :: r -> st.cx <- { st.cx with x_stack = List.rev r } | [] -> ()); nospec (); emit "u"
      | [ "FS"; n ] -> st.cx <- { st.cx with x_fstates = st.cx.x_fstates @ [ ss_new (num n) ] }; nospec (); emit "u"
      | [ "FN"; i ] -> st.cx <- { st.cx with x_cur = Some (num i) }; nospec (); emit "u"
      | [ "SM"; w ] ->
          let ((c, x), r) = state_mem st.cl st.cx (n_of_hex w) in
          st.cl <- c; st.cx <- x; nospec (); emit (show_tres (fun w -> "w" ^ hex_of_n w) r)
      | [ "DM"; w ] -> nospec (); emit (show_opt (decode_memory (n_of_hex w)))
      | [ "DF"; w ] -> nospec (); emit (show_opt (decode_function (n_of_hex w)))
      | [ "DC"; w ] -> nospec (); emit (show_opt (decode_closure (n_of_hex w)))
      | [ "EM"; i ] -> nospec (); emit ("w" ^ hex_of_n (encode_memory (num i)))
      | [ "EF"; i ] -> nospec (); emit ("w" ^ hex_of_n (encode_function (num i)))
      | [ "EC"; i ] -> nospec (); emit ("w" ^ hex_of_n (encode_closure (num i)))
      | _ -> raise (Bad ("bad operation " ^ s))) (String.split_on_char ';' line);
    let j l = String.concat ";" (List.rev l) in
    Printf.sprintf "#%d tpl=%s|spec=%s|pre=%s|chk=%s" id (j !out) (j !sout) (Buffer.contents pre) !chk
  with
  | Bad m -> Printf.sprintf "#%d !input-error %s" id m
  | Failure m -> Printf.sprintf "#%d !input-error %s" id m)

let () =
  let id = ref 0 in
  (try
     while true do
       let line = input_line stdin in
       if String.trim line <> "" then begin
         print_endline (run_case !id line);
         incr id
       end
     done
   with End_of_file -> ());
  flush stdout
