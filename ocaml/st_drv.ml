(* line-protocol driver for the extracted StateTree model.
   input  line: <old-skel> | <new-skel>      skel := D<int> | M<int> | E<int> | [ skel* ]
   output line: N   or   S <total> <src,dst,sz;...sorted> => <storage words , separated | PANIC> *)
open St_model
let rec p_of_int i = if i = 1 then XH else if i land 1 = 0 then XO (p_of_int (i / 2)) else XI (p_of_int (i / 2))
let n_of_int i = if i = 0 then N0 else Npos (p_of_int i)
let rec int_of_p = function XH -> 1 | XO p -> 2 * int_of_p p | XI p -> 2 * int_of_p p + 1
let int_of_n = function N0 -> 0 | Npos p -> int_of_p p
let rec nat_of_int i = if i = 0 then O else S (nat_of_int (i - 1))

let parse (s : string) : skel * skel =
  let pos = ref 0 in
  let len = String.length s in
  let skip () = while !pos < len && s.[!pos] = ' ' do incr pos done in
  let num () =
    let st = !pos in
    while !pos < len && s.[!pos] >= '0' && s.[!pos] <= '9' do incr pos done;
    int_of_string (String.sub s st (!pos - st)) in
  let rec sk () =
    skip ();
    match s.[!pos] with
    | 'D' -> incr pos; Delay (n_of_int (num ()))
    | 'M' -> incr pos; Mem (n_of_int (num ()))
    | 'E' -> incr pos; Feed (n_of_int (num ()))
    | '[' ->
        incr pos;
        let rec go acc = skip (); if s.[!pos] = ']' then (incr pos; List.rev acc) else let c = sk () in go (c :: acc) in
        FnCall (go [])
    | c -> failwith (Printf.sprintf "bad char %c" c) in
  let o = sk () in
  skip ();
  if s.[!pos] <> '|' then failwith "expected |";
  incr pos;
  let n = sk () in
  (o, n)

let () =
  try
    while true do
      let line = input_line stdin in
      if String.length line > 0 then begin
        let (o, n) = parse line in
        match plan o n with
        | None -> print_endline "N"
        | Some (total, ps) ->
            let l = List.map (fun p -> (int_of_n p.p_dst, int_of_n p.p_src, int_of_n p.p_sz)) ps in
            let l = List.sort_uniq compare l in
            let pstr = String.concat ";" (List.map (fun (d, s, z) -> Printf.sprintf "%d,%d,%d" s d z) l) in
            let osz = int_of_n (size o) in
            let old = List.init osz (fun i -> n_of_int (i + 1)) in
            let st = match apply_plan old total ps with
              | None -> "PANIC"
              | Some w -> String.concat "," (List.map (fun x -> string_of_int (int_of_n x)) w) in
            Printf.printf "S %d %s => %s\n" (int_of_n total) pstr st
      end
    done
  with End_of_file -> ()
