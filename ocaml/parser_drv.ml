(* line-protocol driver for the extracted Parser model (Parser/Model.v).
   input  line: the non-trivia tokens of one text as the real parser sees them: "Kind.flags,Kind.flags,..."
                (Kind = Debug name of the TokenKind; flags: 1 = LineBreak in the trailing trivia of this token,
                2 = LineBreak in its leading trivia, 4 = raw index adjacent to the previous token); empty line = no token.
                A line starting with "#<number> " runs with that fuel instead of parse_fuel(n) = 12*(n+1).
   output line: JSON {"s": CST s-expression (token leaves = positions), "e": [[position or -1 (= raw index 0, past the end),
                class U|E|S, expected/reason, found]..], "m": [[position, new kind]..]}
                or {"fuel":true} (OutOfFuel) or {"panic": why} *)
open Parser_model
let string_of_chars (l : char list) = let b = Buffer.create 16 in List.iter (Buffer.add_char b) l; Buffer.contents b
let rec int_of_nat_acc acc = function O -> acc | S m -> int_of_nat_acc (acc + 1) m
let int_of_nat n = int_of_nat_acc 0 n
let rec nat_of_int i = let rec go acc i = if i = 0 then acc else go (S acc) (i - 1) in go O i
let kname = let tbl = Hashtbl.create 128 in
  fun k -> match Hashtbl.find_opt tbl k with Some s -> s | None -> let s = string_of_chars (kind_name k) in Hashtbl.add tbl k s; s
let kind_of_name = let tbl = Hashtbl.create 128 in
  List.iter (fun k -> Hashtbl.replace tbl (kname k) k) all_kinds;
  fun s -> match Hashtbl.find_opt tbl s with Some k -> k | None -> failwith ("unknown kind " ^ s)
let sname = let tbl = Hashtbl.create 128 in
  fun k -> match Hashtbl.find_opt tbl k with Some s -> s | None -> let s = string_of_chars (syntax_name k) in Hashtbl.add tbl k s; s

let parse_line (line : string) : tok list =
  if line = "" then [] else
  List.map (fun item ->
      match String.split_on_char '.' item with
      | [k; b] -> let b = int_of_string b in
          { tk = kind_of_name k; lb_after = b land 1 <> 0; lb_before = b land 2 <> 0; adj = b land 4 <> 0 }
      | _ -> failwith ("bad item " ^ item))
    (String.split_on_char ',' line)

let json_str b s =
  Buffer.add_char b '"';
  String.iter (fun c -> match c with
      | '"' -> Buffer.add_string b "\\\"" | '\\' -> Buffer.add_string b "\\\\"
      | c when Char.code c < 32 -> Buffer.add_string b (Printf.sprintf "\\u%04x" (Char.code c))
      | c -> Buffer.add_char b c) s;
  Buffer.add_char b '"'

let rec sexp b = function
  | TTok p -> Buffer.add_string b (string_of_int (int_of_nat p))
  | TNode (k, ch) ->
      Buffer.add_char b '('; Buffer.add_string b (sname k);
      List.iter (fun c -> Buffer.add_char b ' '; sexp b c) ch;
      Buffer.add_char b ')'

let () =
  let out = Buffer.create 65536 in
  (try
    while true do
      let line = input_line stdin in
      let fuel, line =
        if String.length line > 0 && line.[0] = '#' then
          (match String.index_opt line ' ' with
           | Some i -> (Some (int_of_string (String.sub line 1 (i - 1))), String.sub line (i + 1) (String.length line - i - 1))
           | None -> (Some (int_of_string (String.sub line 1 (String.length line - 1))), ""))
        else (None, line) in
      let ts = parse_line line in
      let r = match fuel with None -> parse ts | Some f -> parse_with (nat_of_int f) ts in
      (match r with
       | POutOfFuel -> Buffer.add_string out "{\"fuel\":true}\n"
       | PPanic w -> Buffer.add_string out "{\"panic\":"; json_str out (string_of_chars w); Buffer.add_string out "}\n"
       | POk (root, errors, rewrites) ->
           Buffer.add_string out "{\"s\":\"";
           sexp out root;
           Buffer.add_string out "\",\"e\":[";
           List.iteri (fun i e ->
               if i > 0 then Buffer.add_char out ',';
               Buffer.add_char out '[';
               Buffer.add_string out (match e.e_idx with EAt p -> string_of_int (int_of_nat p) | EEnd -> "-1");
               Buffer.add_string out (match e.e_cls with EUnexpectedToken -> ",\"U\"," | EUnexpectedEof -> ",\"E\"," | EInvalidSyntax -> ",\"S\",");
               json_str out (string_of_chars e.e_msg);
               Buffer.add_char out ',';
               json_str out (match e.e_found with Some k -> kname k | None -> "");
               Buffer.add_char out ']') errors;
           Buffer.add_string out "],\"m\":[";
           List.iteri (fun i (p, k) ->
               if i > 0 then Buffer.add_char out ',';
               Buffer.add_string out (Printf.sprintf "[%d,\"%s\"]" (int_of_nat p) (kname k))) rewrites;
           Buffer.add_string out "]}\n");
      if Buffer.length out > 60000 then (print_string (Buffer.contents out); Buffer.clear out)
    done
  with End_of_file -> ());
  print_string (Buffer.contents out)
